"""Shared helpers of the CLI checks (C04, C12, C15, C18, C20): in-process CLI runs, file writers, JUnit parsing."""
from __future__ import annotations

import io
import os
import xml.etree.ElementTree as ET
from fractions import Fraction as Fr

from . import vtkenc as V


def run_cli(argv, verbosity_capture=True):
    """Run fieldcompare's CLI in-process.  Returns (exit status, log text, escaped exception or None).
    An exception escaping main() is what a process would turn into exit status 1 plus a traceback."""
    from fieldcompare._cli import main
    from fieldcompare._cli._logger import CLILogger

    buf = io.StringIO()
    try:
        rc = main(list(argv), CLILogger(output_stream=buf))
        return int(rc), buf.getvalue(), None
    except SystemExit as e:
        code = e.code if isinstance(e.code, int) else 2
        return code, buf.getvalue(), None
    except BaseException as e:  # noqa: BLE001
        return 1, buf.getvalue(), f"{type(e).__name__}: {e}"


def fmt_num(v):
    """decimal text of a number such that float(text) is exactly v (repr round-trips)"""
    if isinstance(v, Fr):
        f = float(v)
        assert Fr(f) == v
        return repr(f)
    if isinstance(v, float):
        return repr(v)
    return str(v)


def write_csv(path, names, columns, delimiter=","):
    """columns: list of value lists (Fractions/floats -> repr, ints, strings)"""
    nrows = len(columns[0]) if columns else 0
    with open(path, "w") as f:
        f.write(delimiter.join(names) + "\n")
        for r in range(nrows):
            f.write(delimiter.join(fmt_num(c[r]) for c in columns) + "\n")


DSV_OPT = 'dsv{"delimiter":",","use_names":true}:*.csv'


def parse_junit(path):
    """independent parse of a junit file -> list of suites: dict(name, attrs(int counts), cases[(name, sorted child tags)])"""
    root = ET.parse(path).getroot()
    suites = [root] if root.tag == "testsuite" else list(root.findall("testsuite"))
    out = []
    for s in suites:
        cases = []
        for c in s.findall("testcase"):
            tags = sorted(ch.tag for ch in c if ch.tag in ("failure", "error", "skipped"))
            msgs = sorted((ch.get("message") or "") + " | " + (ch.text or "") for ch in c if ch.tag in ("failure", "error", "skipped"))
            cases.append((c.get("name"), tags, msgs))
        out.append({"name": s.get("name"),
                    "tests": int(s.get("tests")), "failures": int(s.get("failures")), "errors": int(s.get("errors")),
                    "skipped": int(s.get("skipped")), "cases": cases})
    return out


# ------------------------------------------------------------------------------------------------
# a small family of 2-d meshes (lattice of quads, some split into triangles), stored with z = 0
# ------------------------------------------------------------------------------------------------
def lattice_mesh(rng, nx, ny, split_prob=0.3):
    pts = [[float(i), float(j), 0.0] for j in range(ny + 1) for i in range(nx + 1)]
    pid = lambda i, j: j * (nx + 1) + i  # noqa: E731
    cells = []
    for j in range(ny):
        for i in range(nx):
            q = [pid(i, j), pid(i + 1, j), pid(i + 1, j + 1), pid(i, j + 1)]
            if rng.random() < split_prob:
                cells.append((5, [q[0], q[1], q[2]]))
                cells.append((5, [q[0], q[2], q[3]]))
            else:
                cells.append((9, q))
    return pts, cells


def permute_mesh(rng, pts, cells, point_fields, cell_fields):
    """relabel points and reorder cells (fields transported); returns new (pts, cells, pf, cf)"""
    n = len(pts)
    perm = list(range(n))
    rng.shuffle(perm)            # new index k holds old point perm[k]
    inv = [0] * n
    for k, o in enumerate(perm):
        inv[o] = k
    cperm = list(range(len(cells)))
    rng.shuffle(cperm)
    npts = [pts[o] for o in perm]
    ncells = [(cells[o][0], [inv[c] for c in cells[o][1]]) for o in cperm]
    if perm != sorted(perm):
        # ... and, where the points are renumbered anyway, triangles / quads / polygons listed from another start corner
        ncells = [(t, (c[k:] + c[:k]) if (t in (5, 7, 9) and rng.random() < 0.3) else c) for t, c in ncells for k in [rng.randrange(len(c))]]
    npf = [(nm, vt, nc, [v for o in perm for v in vals[o * nc:(o + 1) * nc]]) for nm, vt, nc, vals in point_fields]
    ncf = [(nm, vt, nc, [v for o in cperm for v in vals[o * nc:(o + 1) * nc]]) for nm, vt, nc, vals in cell_fields]
    return npts, ncells, npf, ncf
