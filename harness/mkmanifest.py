"""Writes /verif/MANIFEST.json from the table below (python3 harness/mkmanifest.py)."""
import json
from pathlib import Path

VERIF = Path(__file__).resolve().parent.parent

TB = ("Trusted: Coq 8.16.1 kernel + vm_compute; the hand-written Gallina model (coq/Model) is tied to /repo only by "
      "the correspondence run of the check (T1 exhaustive tables proved equal to the model in the kernel, T2 differential "
      "runs on seeded structured inputs); the Python harness and its Fraction oracle; numpy/CPython as the platform. ")

CHECKS = {
    "C01": dict(
        text="Theorems over all arrays/shapes/tolerances of the Gallina predicate model (kernel decides exactly the documented "
             "formula incl. the boundary; array verdict iff every entry satisfies it with the applicable tolerance; incompatible "
             "shapes never equal; single deviation at any index detected; value of data-dependent tolerances). The model is tied "
             "to fieldcompare.predicates by exhaustive shape/dtype tables (T1) and by differential runs on an exact-arithmetic "
             "stream with entries placed on/inside/outside the tolerance boundary plus a bit-exact binary64 (PrimFloat) stream.",
        note=TB + "Floating-point rounding is modelled exactly only on the exact stream (every operation exact, checked per case) and "
             "bit-exactly for the scalar binary64 kernel; float32 outside the exact domain is not modelled.",
        technique="Coq proof of the predicate model + model/implementation correspondence (vm_compute vs /repo)", ref="7 (C01)"),
    "C09": dict(
        text="Theorems: on integer/string data the default predicate equals exact equality for every tolerance; exact equality iff "
             "compatible shapes and identical entries; an integer never equals a string; float involvement selects the fuzzy "
             "formula. Tied to the code by the dtype-dispatch table (T1, all dtype pairs) and differential runs over all 8 integer "
             "dtypes incl. extremes, strings and int/float mixes under tolerances up to 2^900.",
        note=TB + "Structured/object dtypes are not modelled.",
        technique="Coq proof of the predicate model + model/implementation correspondence", ref="7 (C09)"),
    "C10": dict(
        text="Theorems: reflexivity (any non-negative tolerance incl. data-dependent ones), symmetry (unconditional, all tolerance "
             "kinds), monotonicity in both tolerances, and the value of the scaled tolerance (t times the attained maximum |x|). "
             "Tied to the code by differential runs of P(a,a), P(b,b), P(a,b), P(b,a) and P at a larger tolerance on float and all "
             "integer dtypes (incl. integers given directly to FuzzyEquality), fresh vs reused predicate objects, and "
             "ScaledTolerance values (scalar and per component).",
        note=TB + "Integers are compared in float64 by the implementation (after the fix: commits), so the exact stream keeps |v| < 2^53.",
        technique="Coq proof of the predicate model + metamorphic model/implementation correspondence", ref="7 (C10)"),
    "C11": dict(
        text="Theorems over all pairs of field lists with distinct names, all filters and all predicate outcomes: name matching "
             "partitions both sides; every name of either side is reported exactly once; each status is the one the set algebra "
             "prescribes (compared iff on both sides and selected); verdict iff domain equal and no failed/error entry; outcomes of "
             "non-compared fields cannot change the result; the callback trace is exactly the compared names, once each. Tied to "
             "FieldDataComparator/MeshFieldsComparator by T1 truthiness tables and differential runs on tabular and mesh field data.",
        note=TB + "the pattern language of the filters is modelled (Model/Glob.v) and compared with PatternFilter on generated patterns and names; in the scenario runs the filter tables are still computed with fnmatch and handed to the model; names within one data set are distinct.",
        technique="Coq proof of the comparator model + model/implementation correspondence", ref="7 (C11)"),
    "C04": dict(
        text="Theorem C04_cli_exit_iff (all data sets with distinct field names, all options): the file-mode exit code is 0 iff both "
             "inputs are readable field data, domains equal, every selected common field passes DefaultEquality with the tolerance "
             "that applies to it (per-field, else last global, else default; proved not to leak between fields; integers/strings stay "
             "exact under any global tolerance), and one-sided fields occur only under the matching ignore flag; every read error, "
             "exception, predicate error or kind mismatch gives a non-zero code. Tied to fieldcompare._cli.main by T1 status tables "
             "and differential runs on edited CSV/.vtu pairs under random option combinations.",
        note=TB + "Reading is an oracle (the exception class observed per file is given to the model); argparse is not modelled; mesh "
             "domain equality of generated pairs is by construction (C02/C03 cover the mesh ladder).",
        technique="Coq proof of the CLI decision model + model/implementation correspondence on exit codes", ref="7 (C04)"),
    "C12": dict(
        text="Theorems over all path lists and option tables: each class of the categorisation has its defining condition, the six "
             "classes partition the files of both trees (every file exactly once), exit 0 iff every compared file passes and "
             "one-sided files occur only under the ignore flags, an exception in a file comparison is a failure, exactly one "
             "reported suite per path. Tied to `fieldcompare dir` by differential runs on generated tree pairs; observables: exit "
             "code, junit suites per path with their class, the filtered-orphans count; metamorphic file-mode runs per path.",
        note=TB + "os.walk and io.is_supported are oracles (tables handed to the model); the pattern language of the file filters is modelled (Model/Glob.v: default filters, directory patterns, extension patterns) and compared with PatternFilter on generated patterns and paths; symlinks/permissions not covered.",
        technique="Coq proof of the directory-mode model + model/implementation correspondence", ref="7 (C12)"),
    "C15": dict(
        text="Theorems: iterating a sequence source yields every step once and in order from every cursor position and repeatably; "
             "the compared pairs are exactly the common prefix, in order; the verdict is a pass iff every compared step passes and "
             "lengths agree or missing steps are ignored; --force still fails on a length mismatch; sequence vs single file is "
             "non-zero; merged statuses are sticky. Tied to the CLI by differential runs on .pvd sequences (deviating step at every "
             "position, all option combinations) and to FieldDataSequence by repeated / partial iteration.",
        note=TB + "Per-step comparison results are abstract (passed / failed / domain-failed); both .pvd and XDMF time-series sources are exercised.",
        technique="Coq proof of the sequence model + model/implementation correspondence", ref="7 (C15)"),
    "C20": dict(
        text="Theorems: report counts equal the counts of its test cases; one case per reported comparison plus at most one case "
             "carrying the verdict of a suite that failed as a whole; failure/error element iff non-zero exit code (for all suites "
             "the CLI can build); skipped entries are exactly filtered / ignored-missing ones. Tied to --junit-xml output (parsed "
             "with an independent XML parser) of every C04, C15 and C12 scenario.",
        note=TB + "A report that is not written because of an earlier exception is recorded, not required.",
        technique="Coq proof of the JUnit model + model/implementation correspondence", ref="7 (C20)"),
    "C02": dict(
        text="Theorems (exact coordinates, unbounded sizes): any two strictly lexicographically sorted arrangements of the same points "
             "are identical, likewise for cells ordered by an injective key; the connectivity of the sorted view is a function of "
             "corner coordinates and the sorted point list only (so the sorted representation is canonical: independent of how the "
             "input numbered its points). The index maps that sort_points actually produces are checked against this specification "
             "by the Coq-verified checker on every run (T3). With coordinate noise the statement is tied by differential runs only "
             "(relabeled + noisy pairs must pass, stage-by-stage Mesh.equals vs the model); this part is NOT a theorem.",
        note=TB + "Noisy case and hash-collision freedom of the cell sort are assumptions; see DESIGN.md section 7 (C02).",
        technique="Coq proof of sorting canonicity + verified checker on implementation output + differential runs", ref="7 (C02)"),
    "C03": dict(
        text="Theorem mesh_equal_sound over all meshes: a positive domain check implies equal point counts, every coordinate within "
             "the tolerance formula, a one-to-one pairing of (compatible) cell types covering BOTH meshes, and cell-by-cell equal "
             "corner sets; corollaries: a moved point, a differing number of cell types or points always fails; views only relabel "
             "(C08) so the index correspondence of the compared views is a matching of the original points. Tied to the code by "
             "single-site modifications at every site of small meshes (must fail) and stage-by-stage model comparison.",
        note=TB + "Field-level soundness is inherited from C01/C09/C11.",
        technique="Coq proof of mesh-equality soundness + model/implementation correspondence + exhaustive single-site modifications", ref="7 (C03)"),
    "C08": dict(
        text="Theorems: a point index map leaves type and ordered corner coordinates of every cell unchanged and transports "
             "coordinates and point data together; uninitialised inverse entries are never read when all referenced points are "
             "mapped; cell index maps that are permutations permute cells with their data; stripping keeps exactly the referenced "
             "points; dimension extension only appends zeros; the checkers `check_strip`/`is_perm` are sound. Tied to the code by "
             "explicit-index-map views vs the model (exact), verified checkers on the maps produced by strip/sort, and exact "
             "content conservation over compositions of the public transformations.",
        note=TB + "merge is covered in C06; np.argsort is an oracle (its output is checked, not modelled).",
        technique="Coq proof of the view model + verified checkers on implementation output + exact content oracle", ref="7 (C08)"),
    "C16": dict(
        text="Theorems: soundness of mesh equality (as C03), SYMMETRY (mesh_equal A B = mesh_equal B A for all meshes with distinct "
             "block types), totality of the cell-type pairing (no exception), exact characterisation of the compatibility relation. Tied to the code by Mesh.equals vs the model on exact meshes in both "
             "argument orders (symmetry, no exception, cell-type set variants) and by image/rectilinear/structured equals against "
             "the exact explicit points of the same grids (flat directions, ordinates, origin, spacing). Open finding F-C16c "
             "(ImageMesh parameter-wise comparison) is reported as KNOWN-FINDING.",
        note=TB + "Structured `equals` is compared against exact explicit points (differential); structured point generation is modelled in C07.",
        technique="Coq proof of mesh-equality soundness + model/implementation correspondence", ref="7 (C16)"),
    "C17": dict(
        text="Theorems: extension only appends zeros (points, rows), keeps connectivity; rows of different dimension are never "
             "close (mismatch fails when matching is disabled); a non-zero padded coordinate beyond tolerance fails; a mesh equals "
             "its padded copy after extension. Tied to MeshFieldsComparator by low-dimensional meshes vs harness-padded 3d copies "
             "in both roles, with relabeling, matching on/off, and non-zero entries in padded slots.",
        note=TB + "(n,1) arrays are scalar fields by the library's convention; 1-component vector fields are outside the generated inputs.",
        technique="Coq proof of the extension model + model/implementation correspondence", ref="7 (C17)"),
    "C14": dict(
        text="Theorems: every entry of a field present on both sides is reference minus source; entries beyond the common rows and "
             "one-sided fields are NaN; the diff lives on the common (max-row) domain; the diff names every field of either side "
             "exactly once; identical values give an all-zero diff. Tied to `diff_to` on tabular and mesh data (exact dyadic values) "
             "and to the file written by `--diff`, decoded independently, for relabeled meshes with a known field delta.",
        note=TB + "Unsigned integer and string fields are not generated (subtraction undefined / wrapping).",
        technique="Coq proof of the diff model + model/implementation correspondence", ref="7 (C14)"),
    "C19": dict(
        text="PARTIAL. Proved: a static aliasing check on effect programs over a store of arrays is sound (a safe program never "
             "modifies an array that existed before it ran), and the transcribed write sites of the library pass it; the pinned "
             "to_meshio pixel/voxel reordering is refuted (it wrote through an alias; repaired). Observed, not proved: random "
             "histories of 2-8 public operations on shared objects with byte snapshots of every input array before/after each "
             "step, hashes/mtimes of input files, directory listings, verdict equality for fresh / re-used comparators and "
             "predicates and for a second process with another hash seed.",
        note=TB + "That no other numpy/library call writes into its inputs, that nothing else is written to disk and process "
             "independence cannot be expressed in the pure model: they are observed on the generated histories only. The effect "
             "programs are hand-transcribed from the source.",
        technique="Coq proof of a static aliasing check on transcribed write sites + history-based snapshot observation", ref="7 (C19)"),
    "C18": dict(
        text="PARTIAL. Proved: the decision layer — every read error or exception, a lost field, lost rows/points or a lost "
             "sequence step gives a non-zero exit code in both roles (Model.Cli). Enumerated exhaustively, not proved: every byte "
             "offset before the end of the data of small files of every kind and encoding (.vtu x 6-9 encodings, .vtp, .vti, .vtr, "
             ".vts, .pvtu index/piece, .pvd index/step, .csv) and the removal of each single DataArray/Piece/DataSet, in both "
             "roles: the command must return non-zero and must not raise.",
        note=TB + "expat, the raw-appended fallback locator and np.genfromtxt on damaged input are exercised, not modelled. Codec "
             "layer: C18_truncated_payload_rejected (every proper prefix of an encoded uncompressed array is rejected or short).",
        technique="Coq proof of the CLI decision layer + exhaustive fault enumeration over cut positions", ref="7 (C18)"),
    "C06": dict(
        text="Theorems (unbounded sizes, any number of pieces, any piece order): duplicate map correct (stable lexicographic "
             "argsort + fuelled bisection), fresh points of a later piece in order-preserving bijection with the appended index "
             "range, the repaired merge conserves every cell with its corner coordinates and data and every point once with its "
             "values, merge of all pieces is the global data set up to permutation; structured: for every decomposition the piece "
             "cell index sets partition the global range, point index sets cover it, merging restrictions of a global x-fastest "
             "field returns that field, per-axis decomposition from piece extents; the pinned early return is refuted by a "
             "computed witness (open finding F-C06a, reported as KNOWN-FINDING). Tied to merge(), .pvtu/.pvtp and "
             "StructuredFieldMerger / .pvti/.pvtr/.pvts (exhaustive over all decompositions of lattices with extents <= 3).",
        note=TB + "The three-axis assembly of the structured decomposition and exact overlap of shared lattice points are tied by "
             "the harness only. Built by a helper agent following DESIGN.md section 7 (C06).",
        technique="Coq proof of the merge / structured-merger model + model/implementation correspondence (exhaustive on small lattices)", ref="7 (C06)"),
    "C07": dict(
        text="Theorems: x-fastest lattice numbering, connectivity of image/rectilinear/structured grids correct for d = 1,2,3 with "
             "zero extents in any subset of directions (pixel/voxel and quad/hexahedron order), point formulas of image and "
             "rectilinear meshes and their agreement (exact in Q), reader cell-index map keyed by the mesh's own type, the "
             "repaired from_meshio keeps every block with its data. Tied to .vti/.vtr/.vts/.vtu/.vtk/.xdmf reads of the same "
             "grids against ground truth, all representation pairs through MeshFieldsComparator, and the mesh classes against the model.",
        note=TB + "meshio is an oracle for legacy .vtk / .xdmf files; `structured_as_explicit` via mesh_equal is tied by the comparator runs, not a theorem.",
        technique="Coq proof of the structured-grid model + model/implementation correspondence", ref="7 (C07)"),
    "C05": dict(
        text="Theorems (unbounded lengths, block sizes and block counts): base64 round trip incl. CPython's lenient decoder as a "
             "state machine and decoding an encoded string followed by further data, encoded-length arithmetic, integer/byte "
             "round trips (LE/BE, two's complement), uncompressed arrays in both header placements, compressed arrays for any "
             "block size (abstract compressor with a round-trip hypothesis), reading at an appended offset, every array of the "
             "format-side encoder over the whole configuration matrix, regrouping of cells and cell data per cell type. Tied to "
             "read_field_data on files written by an independent encoder in every combination format x compressor x block size "
             "x header type x byte order, to Base64Encoder / compressors on array-level byte strings, and to numpy decoding.",
        note=TB + "expat, ascii number parsing and the real zlib/lz4/lzma (per-file lookup tables) are oracles. Built by a helper agent following DESIGN.md section 7 (C05).",
        technique="Coq proof of the VTK XML container model + model/implementation correspondence over the configuration matrix", ref="7 (C05)"),
    "C13": dict(
        text="Theorems: values/rows round trip through the writer's encoding and the reader model for all ten types, header = "
             "payload length, row-major reshape/flatten, points padded to three coordinates, cells and cell data per type, CSV "
             "structure round trip (split o join) for cells free of delimiter/newline. Tied to write() -> read_field_data for "
             "plain, sorted, stripped, extended, merged, diffed and re-read (LE/BE) mesh field data over 12 cell types and 10 "
             "dtypes, to the written DataArray text (both directions), and to tables with float/int/str columns. Open findings "
             "F-C13c/e/f (numpy genfromtxt typing/stripping) are reported as KNOWN-FINDING.",
        note=TB + "CSV value parsing and column typing are numpy's (oracle); empty meshes are outside the statement. Built by a helper agent following DESIGN.md section 7 (C13).",
        technique="Coq proof of the writer/reader codec model + model/implementation correspondence on write-read round trips", ref="7 (C13)"),
}

ALL = [f"C{i:02d}" for i in range(1, 21)]


# additions made after the second round of seeded changes (streams that re-use objects, more numeric types, new theorems)
EXTRA = {
    "C09": " One DefaultEquality object is also run over whole sequences of float, integer and string fields, and integer "
           "scalar/vector mesh fields go through MeshFieldsComparator against relabeled / zero-padded references under large tolerances.",
    "C11": " Every comparator object is invoked a second time and must reproduce its report.",
    "C03": " One reference object (plain or sorted once) serves several comparisons in a row; cell-type sets that can only be "
           "paired many-to-one (QUAD and PIXEL blocks against one QUAD block) must fail.",
    "C16": " Meshes holding two mutually compatible cell types at once are included.",
    "C08": " Integer vector/tensor fields that need all 64 bits; merge of pieces with differing point-field sets against the "
           "zero-fill specification (theorem C08_merge_point_rows_length; finding F-C08b refuted for the pinned row count).",
    "C06": " Also proved: decomposition and piece positions recovered from the piece extents for all three directions at once and "
           "every listing order, and pmerge_is_global (the field read through the parallel index is the global field). Runs also "
           "merge piece objects that already went through a merge, pieces with narrow connectivity types (F-C06f) and with "
           "differing point-field sets (model tie).",
    "C07": " Also proved: structured_as_explicit (any two grid kinds of one lattice pass the mesh comparison of C16's model).",
    "C13": " Also proved: the composed whole-file theorem read_vtu (write_vtu d) = expected_read d with a proved decision procedure "
           "for its hypotheses, evaluated on every tied data set; arrays are handed to the writer in varying memory layouts.",
    "C14": " Fields of eight numeric types (the two sides may differ in type; integer extremes), cf. finding F-C14a. --diff runs "
           "are mixed with mesh options that change nothing for the written files.",
    "C02": " Also proved: the corner order of a cell is irrelevant to mesh_equal (any per-cell permutation, another start corner, the "
           "other orientation). Three meshes of 1.6e5 cells per quick run exercise sort keys of limited width (implementation and "
           "statement-level oracle only).",
    "C12": " File filters: default filters, dir/* and *ext patterns, and a bracket expression between two plain texts are characterised "
           "by theorems about the transcribed fnmatch (Model/Glob.v), which is run against PatternFilter on every run.",
    "C18": " The damaged file may also be the index of a later .pvtu step of a .pvd sequence.",
    "C19": " Result / reference files under names without a telling extension are replaced by another VTK flavour between comparisons "
           "in one process (verdict vs the same bytes under properly named paths and in a second process).",
}
EXTRA["C08"] += (" Every composition: any sequence of point maps, per-block cell maps and strippings conserves the cells "
                 "(C08_any_composition_keeps_cells, induction over the sequence); Model.Compose.run is tied to compositions of 1-6 public "
                 "transformations through index maps observed by marker fields.")
EXTRA["C16"] += (" Also proved: block order and corner order irrelevant, reflexivity, completeness over the same cell types. One mesh "
                 "of a pair may be held as the strip_orphan_points view of a mesh with unconnected points among the connected ones.")
EXTRA["C06"] += " Also proved: the .pvtr ordinate assembly loop restores the global ordinate vector from any split into pieces."
EXTRA["C11"] += (" Field filters: bracket expressions after a plain prefix ([abc], [!abc], [a-c]) are characterised by theorems about the "
                 "transcribed fnmatch.")


def main():
    for pid, extra in EXTRA.items():
        if pid in CHECKS and extra not in CHECKS[pid]["text"]:
            CHECKS[pid]["text"] += extra
    checks = []
    for pid, d in CHECKS.items():
        checks.append({
            "property_id": pid,
            "quick_cmd": f"./check {pid} quick",
            "thorough_cmd": f"./check {pid} thorough",
            "evidence_file": f"/verif/evidence/{pid}.json",
            "replay_cmd_template": f"./check {pid} --replay {{path}}",
            "engine": "coq+correspondence",
            "level_claimed": {"category": "proof", "text": d["text"], "design_ref": f"DESIGN.md section {d['ref']}"},
            "level_note": d["note"],
            "technique": d["technique"],
        })
    na = [{"property_id": p, "reason": "check not built yet in this round (no claim made); see DESIGN.md section 7 for the plan"}
          for p in ALL if p not in CHECKS]
    m = {
        "version": 1,
        "setup_cmd": "cd /verif/coq && coq_makefile -f _CoqProject -o Makefile && make -j16",
        "hooks": {
            "guard": "FIELDCOMPARE_VERIF",
            "enable": "no instrumentation of /repo is needed; checks import fieldcompare from /repo's working tree (PYTHONPATH=/repo)",
            "baseline_off_cmd": "cd /repo && /venv/bin/python -m pytest -ra -q -p no:cacheprovider --timeout=900 --continue-on-collection-errors",
            "source_commits": [],
            "add_only": True,
        },
        "engines": [{"name": "coq+correspondence", "path": "/verif/coq, /verif/harness",
                     "serves_properties": list(CHECKS),
                     "kind_free_text": "Rocq/Coq 8.16 model and theorems; per-run T1 table lemmas generated from the running "
                                       "implementation; differential execution of the model (vm_compute) against /repo; "
                                       "independent exact-arithmetic statement oracle"}],
        "checks": checks,
        "not_applicable": na,
        "notes": "Every check rebuilds its proof obligations and re-runs the correspondence against /repo's working tree. "
                 "known_findings.json lists genuine defects (fixed by 'fix:' commits or open).",
    }
    (VERIF / "MANIFEST.json").write_text(json.dumps(m, indent=1))


if __name__ == "__main__":
    main()
