"""C06 — a partitioned (parallel) data set reads as the whole data set.

Streams (DESIGN.md section 7 / C06):
  merge    fieldcompare.mesh.merge(*pieces) on partitions of small conforming meshes with exact dyadic coordinates
           vs Model.Merge.merge_all (index by index) and vs the oracle content(result) = content(global mesh)
  pvtu     the same partitions written as .vtu pieces + .pvtu index (and polydata as .vtp + .pvtp) with the harness's
           own encoder: read_field_data(parallel file) must equal, up to reordering, read_field_data(whole file)
  smerge   StructuredFieldMerger vs Model.Structured.smerge for ALL decompositions of all lattices with extents <= 3
           (thorough: <= 4) per axis in 1-3 dimensions; point/cell, scalar/vector, float64/int32 fields
  pstruct  .pvti / .pvtr / .pvts for a sample of decompositions in every piece order vs the whole .vti/.vtr/.vts
  refinement ties by name: _map_duplicate_points, _filter_external_indices, _map_external_indices,
           StructuredFieldMerger._piece_entity_indices, _PVTKReader._get_structured_decomposition

Every distinct finding is reported under a stable `what` string (WHAT below).  REPAIRED switches the MODEL between the
pinned behaviour of /repo and the repaired behaviour (one entry per finding).
"""
from __future__ import annotations

import itertools
import os
import shutil
import warnings
from collections import Counter
from fractions import Fraction

import numpy as np

from . import lib
from . import vtkenc as V
from .lib import clist, cnat, cz

# model = pinned behaviour of /repo (False) or the repaired behaviour (True), per finding
REPAIRED = {"F-C06a": False, "F-C06b": True, "F-C06c": True, "F-C06d": True, "F-C06e": True}
# experiments only (mutation / candidate-fix runs against a scratch copy): VERIF_REPAIRED=F-C06a,F-C06b switches entries on
for _k in filter(None, os.environ.get("VERIF_REPAIRED", "").split(",")):
    if _k in REPAIRED:
        REPAIRED[_k] = True

WHAT = {
    "F-C06a-merge": "F-C06a merge(): the cells and cell data of a piece that contributes no new point are lost",
    "F-C06a-file": "F-C06a parallel unstructured file: the cells of a piece that contributes no new point are missing from the data read",
    "F-C06b-merger": "F-C06b StructuredFieldMerger: the merged field does not keep the numeric type of the piece fields",
    "F-C06b-file": "F-C06b parallel structured file: a field does not keep its numeric type",
    "F-C06c-pvtr": "F-C06c .pvtr of a grid that is flat in x or y: the ordinates are assembled from the wrong pieces",
    "F-C06d-nocelldata": "F-C06d parallel structured file without cell data cannot be read (AssertionError in _merge_cell_fields)",
    "F-C06e-pvtr-flat": "F-C06e .pvtr of a flat grid: the coordinate of the flat direction is replaced by 0",
}

HEADER = """From Coq Require Import QArith ZArith Bool Arith List.
From FC Require Import Model.Merge Model.Structured.
Import ListNotations.
Local Open Scope nat_scope.
Definition mk (p : list point) c pd cd : mf (list Z) := Build_mf (list Z) p c pd cd.
Definition out (o : option (mf (list Z))) :=
  match o with Some M => Some (pts M, cells M, pdata M, cdata M) | None => None end.
Definition run_pinned (l : list (mf (list Z))) := out (merge_all [] l).
Definition run_fixed (l : list (mf (list Z))) := out (merge_all_fixed [] l).
"""

NP_DT = {"Float64": np.float64, "Float32": np.float32, "Int32": np.int32, "Int64": np.int64, "UInt8": np.uint8,
         "Int16": np.int16}
VTK_OF_NP = {np.dtype(v).name: k for k, v in NP_DT.items()}
CT_NAME = {3: "LINE", 4: "POLY_LINE", 5: "TRIANGLE", 7: "POLYGON", 9: "QUAD", 10: "TETRA", 12: "HEXAHEDRON"}


# ================================================================================================
# global meshes (exact dyadic data; everything stored as scaled integers, JSON-able)
# ================================================================================================
SCALE = 8          # coordinates = integer / 8
VSCALE = 4         # float field values = integer / 4


def _field(rng, name, n):
    vt = rng.choice(["Float64", "Float64", "Float32", "Int32", "Int64", "UInt8"])
    ncomp = rng.choice([1, 1, 3, 2])
    if vt.startswith("Float"):
        rows = [[rng.randint(-40, 40) for _ in range(ncomp)] for _ in range(n)]     # value = int / VSCALE
        sc = VSCALE
    elif vt == "UInt8":
        rows = [[rng.randint(0, 200) for _ in range(ncomp)] for _ in range(n)]
        sc = 1
    else:
        rows = [[rng.randint(-1000, 1000) for _ in range(ncomp)] for _ in range(n)]
        sc = 1
    return [name, vt, ncomp, sc, rows]


def gen_global(rng, kinds=("quadtri", "quadtri", "hex", "line", "tet")):
    kind = rng.choice(kinds)
    pts, cells = [], []

    def jit():
        return 0 if rng.random() < 0.6 else rng.randint(-3, 3)
    if kind == "quadtri":
        nx, ny = rng.randint(1, 3), rng.randint(1, 3)
        sh = rng.choice([0, -16, 24])
        node = {}
        for j in range(ny + 1):
            for i in range(nx + 1):
                node[i, j] = len(pts)
                pts.append([i * 8 + jit() + sh, j * 8 + jit(), 0 if rng.random() < 0.7 else (i + j) * 8])
        for j in range(ny):
            for i in range(nx):
                a, b, c, d = node[i, j], node[i + 1, j], node[i + 1, j + 1], node[i, j + 1]
                r = rng.random()
                if r < 0.45:
                    cells.append([9, [a, b, c, d]])
                elif r < 0.75:
                    cells += [[5, [a, b, c]], [5, [a, c, d]]]
                else:
                    cells += [[5, [a, b, d]], [5, [b, c, d]]]
    elif kind == "hex":
        nx, ny, nz = rng.randint(1, 2), rng.randint(1, 2), rng.randint(1, 2)
        node = {}
        for k in range(nz + 1):
            for j in range(ny + 1):
                for i in range(nx + 1):
                    node[i, j, k] = len(pts)
                    pts.append([i * 8 + jit(), j * 8 + jit(), k * 8 + jit()])
        for k in range(nz):
            for j in range(ny):
                for i in range(nx):
                    cells.append([12, [node[i, j, k], node[i + 1, j, k], node[i + 1, j + 1, k], node[i, j + 1, k],
                                       node[i, j, k + 1], node[i + 1, j, k + 1], node[i + 1, j + 1, k + 1], node[i, j + 1, k + 1]]])
    elif kind == "tet":
        # a fan of tetrahedra around an axis, plus triangles on some faces
        n = rng.randint(2, 5)
        pts = [[0, 0, -8], [0, 0, 8]]
        ring = []
        for i in range(n + 1):
            ring.append(len(pts))
            pts.append([8 + i * 8, (i * i) * 4 - 8, jit()])
        for i in range(n):
            cells.append([10, [0, 1, ring[i], ring[i + 1]]])
            if rng.random() < 0.5:
                cells.append([5, [0, ring[i], ring[i + 1]]])
    else:
        n = rng.randint(1, 6)
        pts = [[i * 8 + jit(), (i % 2) * 8, 0] for i in range(n + 1)]
        cells = [[3, [i, i + 1]] for i in range(n)]
    # shuffle the global numbering so that lexicographic order and index order differ
    perm = list(range(len(pts)))
    rng.shuffle(perm)            # new index of old point p is perm[p]
    newpts = [None] * len(pts)
    for old, new in enumerate(perm):
        newpts[new] = pts[old]
    cells = [[t, [perm[c] for c in cs]] for t, cs in cells]
    rng.shuffle(cells)
    assert len({tuple(p) for p in newpts}) == len(newpts)
    pf = [_field(rng, "u", len(newpts))] + ([_field(rng, "v", len(newpts))] if rng.random() < 0.6 else [])
    cf = [_field(rng, "c", len(cells))] + ([_field(rng, "w", len(cells))] if rng.random() < 0.5 else [])
    return {"kind": kind, "points": newpts, "cells": cells, "pf": pf, "cf": cf}


def gen_polydata(rng):
    """lines + polygons of one corner count (triangles or quads) — what .vtp stores as Lines / Polys"""
    G = gen_global(rng, kinds=("quadtri",))
    quads = rng.random() < 0.5
    mixed = rng.random() < 0.35          # triangles and quadrilaterals together in <Polys> (ragged connectivity)
    cells = []
    for t, cs in G["cells"]:
        if mixed:
            cells.append([7, cs])
            if rng.random() < 0.3:
                cells.append([4, [cs[0], cs[1]]])
        elif t == 9 and quads:
            cells.append([7, cs])
        elif t == 9:
            cells += [[7, [cs[0], cs[1], cs[2]]], [7, [cs[0], cs[2], cs[3]]]]
        elif not quads:
            cells.append([7, cs])
        else:
            cells.append([4, [cs[0], cs[1]]])
            cells.append([4, [cs[1], cs[2]]])
    if not any(t == 4 for t, _ in cells) and rng.random() < 0.7:
        t0 = cells[0][1]
        cells.append([4, [t0[0], t0[1]]])
    # no two cells with the same corner set (a conforming mesh has none; the comparator could not tell them apart)
    seen, uniq = set(), []
    for t, cs in cells:
        key = (t, frozenset(cs))
        if key not in seen:
            seen.add(key)
            uniq.append([t, cs])
    cells = uniq
    used = sorted({c for _, cs in cells for c in cs})
    ren = {g: i for i, g in enumerate(used)}
    G["points"] = [G["points"][g] for g in used]
    G["cells"] = [[t, [ren[c] for c in cs]] for t, cs in cells]
    G["pf"] = [[n, vt, nc, sc, [rows[g] for g in used]] for n, vt, nc, sc, rows in G["pf"]]
    G["cf"] = [_field(rng, "c", len(cells))]
    G["kind"] = "polydata-mixed" if mixed else "polydata"
    return G


# ================================================================================================
# partitions
# ================================================================================================
def gen_partition(rng, G):
    nc = len(G["cells"])
    mode = rng.choice(["contiguous", "scattered", "scattered", "single", "k1", "nofresh", "nofresh"])
    if nc == 1:
        mode = "k1"
    if mode == "k1":
        groups = [list(range(nc))]
    elif mode == "single":
        groups = [[c] for c in range(nc)]
    elif mode == "contiguous":
        k = rng.randint(2, min(4, nc))
        cuts = sorted(rng.sample(range(1, nc), k - 1))
        groups = [list(range(a, b)) for a, b in zip([0] + cuts, cuts + [nc])]
    elif mode == "scattered":
        k = rng.randint(2, min(4, nc))
        while True:
            a = [rng.randrange(k) for _ in range(nc)]
            if len(set(a)) == k:
                break
        groups = [[c for c in range(nc) if a[c] == g] for g in range(k)]
    else:
        # a piece all of whose points belong to earlier pieces: cells whose corners are all covered by other cells
        cover = Counter(p for _, cs in G["cells"] for p in cs)
        cand = [c for c, (_, cs) in enumerate(G["cells"]) if all(cover[p] >= 2 for p in cs)]
        if not cand:
            return gen_partition(rng, G)
        late = sorted(rng.sample(cand, rng.randint(1, min(2, len(cand)))))
        rest = [c for c in range(nc) if c not in late]
        restpts = {p for c in rest for p in G["cells"][c][1]}
        late = [c for c in late if all(p in restpts for p in G["cells"][c][1])]
        if not late or not rest:
            return gen_partition(rng, G)
        if len(rest) >= 2 and rng.random() < 0.5:
            cut = rng.randint(1, len(rest) - 1)
            groups = [rest[:cut], rest[cut:], late]
        else:
            groups = [rest, late]
    if mode != "nofresh":
        rng.shuffle(groups)                       # piece order
    elif rng.random() < 0.3:
        rng.shuffle(groups)
    pieces = []
    for g in groups:
        g = list(g)
        if rng.random() < 0.5:
            rng.shuffle(g)                        # local cell order
        lp = sorted({p for c in g for p in G["cells"][c][1]})
        rng.shuffle(lp)                           # local point order
        types = []
        for c in g:
            if G["cells"][c][0] not in types:
                types.append(G["cells"][c][0])
        if rng.random() < 0.5:
            types.sort()
        pieces.append({"cells": g, "points": lp, "types": types})
    return {"mode": mode, "pieces": pieces}


def nofresh_pieces(part):
    """indices (in listing order, > 0) of the pieces all of whose points belong to earlier pieces"""
    seen, out = set(), []
    for i, p in enumerate(part["pieces"]):
        if i > 0 and all(g in seen for g in p["points"]):
            out.append(i)
        seen |= set(p["points"])
    return out


# ================================================================================================
# implementation side
# ================================================================================================
def np_rows(vt, ncomp, sc, rows):
    a = np.array([[Fraction(x, sc) for x in r] for r in rows], dtype=object).astype(NP_DT[vt]) if rows else np.zeros((0, ncomp), NP_DT[vt])
    a = a.reshape(len(rows), ncomp)
    return a[:, 0].copy() if ncomp == 1 else a


def piece_meshfields(G, piece, dim=3):
    from fieldcompare.mesh import Mesh, MeshFields, CellType
    loc = {g: i for i, g in enumerate(piece["points"])}
    pts = np.array([[x / SCALE for x in G["points"][g][:dim]] for g in piece["points"]], dtype=np.float64)
    conn = []
    for t in piece["types"]:
        rows = [[loc[p] for p in G["cells"][c][1]] for c in piece["cells"] if G["cells"][c][0] == t]
        conn.append((CellType(t), np.array(rows, dtype=piece.get("conn_dtype", "int64"))))
    pd = {n: np_rows(vt, nc, sc, [rows[g] for g in piece["points"]]) for n, vt, nc, sc, rows in G["pf"]
          if n not in piece.get("drop_pf", ())}
    cd = {n: [np_rows(vt, nc, sc, [rows[c] for c in piece["cells"] if G["cells"][c][0] == t]) for t in piece["types"]]
          for n, vt, nc, sc, rows in G["cf"]}
    return MeshFields(Mesh(pts, conn), pd, cd)


def _scaled(arr, sc):
    """exact integer rows of a numeric array times `sc`"""
    a = np.asarray(arr)
    if a.ndim == 1:
        a = a.reshape(len(a), 1)
    out = []
    for r in a.tolist():
        row = []
        for x in r:
            f = Fraction(x) * sc
            if f.denominator != 1:
                raise ValueError(f"value {x} is not a multiple of 1/{sc}")
            row.append(int(f))
        out.append(row)
    return out


def extract(fields, G):
    """observable content of MeshFields as JSON-able exact data"""
    psc = {n: sc for n, _, _, sc, _ in G["pf"]}
    csc = {n: sc for n, _, _, sc, _ in G["cf"]}
    dom = fields.domain
    res = {"points": _scaled(dom.points, SCALE), "cells": [], "pf": {}, "cf": {}}
    for ct in dom.cell_types:
        conn_ = dom.connectivity(ct)
        if getattr(conn_, "dtype", None) is not None and conn_.dtype.kind == "f":
            res["float_connectivity"] = True          # corner indices must stay integers
        res["cells"].append([ct.id, [[int(x) for x in row] for row in conn_]])       # rows may be ragged (polygons)
    for f in fields.point_fields:
        res["pf"][f.name] = {"dtype": np.asarray(f.values).dtype.name, "rows": _scaled(f.values, psc.get(f.name, 1))}
    for f, ct in fields.cell_fields_types:
        name = f.name.rsplit(" @ ", 1)[0]
        res["cf"].setdefault(name, {})[str(ct.id)] = {"dtype": np.asarray(f.values).dtype.name,
                                                       "rows": _scaled(f.values, csc.get(name, 1))}
    return res


def run_merge(G, part, dim=3):
    from fieldcompare.mesh import merge
    pieces = [piece_meshfields(G, p, dim) for p in part["pieces"]]
    try:
        with warnings.catch_warnings():
            warnings.simplefilter("ignore")
            res = extract(merge(*pieces), G)
    except Exception as e:          # noqa: BLE001
        return {"error": f"{type(e).__name__}: {e}"}
    if len(pieces) >= 2 and not any(p.get("drop_pf") for p in part["pieces"]):
        # the piece objects that already went through one merge, merged again in the opposite order, must give what fresh
        # piece objects give in that order (merge must not leave anything behind in the pieces)
        try:
            with warnings.catch_warnings():
                warnings.simplefilter("ignore")
                again = extract(merge(*pieces[::-1]), G)
                fresh = extract(merge(*[piece_meshfields(G, p, dim) for p in part["pieces"]][::-1]), G)
            if again != fresh:
                res["reuse"] = "pieces that already went through a merge give a different result than fresh pieces (reverse order)"
        except Exception as e:          # noqa: BLE001
            res["reuse"] = f"merging the same piece objects again (reverse order) raised {type(e).__name__}: {e}"
    return res


# ================================================================================================
# oracle: content(result) = content(global mesh)   (written from the statement)
# ================================================================================================
def content_of_global(G, dim=3):
    pnames = sorted(n for n, *_ in G["pf"])
    cnames = sorted(n for n, *_ in G["cf"])
    pfm = {n: rows for n, _, _, _, rows in G["pf"]}
    cfm = {n: rows for n, _, _, _, rows in G["cf"]}
    P = Counter((tuple(G["points"][g][:dim]), tuple(tuple(pfm[n][g]) for n in pnames)) for g in range(len(G["points"])))
    C = Counter((t, tuple(tuple(G["points"][p][:dim]) for p in cs), tuple(tuple(cfm[n][c]) for n in cnames))
                for c, (t, cs) in enumerate(G["cells"]))
    dt = {("p", n): np.dtype(NP_DT[vt]).name for n, vt, *_ in G["pf"]}
    dt.update({("c", n): np.dtype(NP_DT[vt]).name for n, vt, *_ in G["cf"]})
    return P, C, dt


def content_of_result(res):
    pnames = sorted(res["pf"])
    cnames = sorted(res["cf"])
    npts = len(res["points"])
    P = Counter((tuple(res["points"][i]), tuple(tuple(res["pf"][n]["rows"][i]) if i < len(res["pf"][n]["rows"]) else None for n in pnames))
                for i in range(npts))
    C = Counter()
    for t, rows in res["cells"]:
        for k, cs in enumerate(rows):
            vals = []
            for n in cnames:
                e = res["cf"][n].get(str(t))
                vals.append(tuple(e["rows"][k]) if e is not None and k < len(e["rows"]) else None)
            C[(t, tuple(tuple(res["points"][p]) if 0 <= p < npts else ("corner index out of range", p) for p in cs), tuple(vals))] += 1
    dt = {("p", n): res["pf"][n]["dtype"] for n in pnames}
    for n in cnames:
        ds = {e["dtype"] for e in res["cf"][n].values()}
        dt[("c", n)] = ds.pop() if len(ds) == 1 else "mixed:" + ",".join(sorted(ds))
    return P, C, dt


def oracle_diff(G, res, dim=3, check_dtype=True):
    """-> None when content(res) = content(G); else a dict describing the difference"""
    if "error" in res:
        return {"error": res["error"]}
    P0, C0, d0 = content_of_global(G, dim)
    P1, C1, d1 = content_of_result(res)
    d = {}
    if C0 != C1:
        d["cells_missing"] = sum((C0 - C1).values())
        d["cells_extra"] = sum((C1 - C0).values())
        d["missing_cells"] = [list(map(str, k[:2])) for k in list((C0 - C1))[:4]]
    if P0 != P1:
        d["points_missing"] = sum((P0 - P1).values())
        d["points_extra"] = sum((P1 - P0).values())
    if check_dtype and d0 != d1:
        d["dtypes"] = {f"{k[0]}:{k[1]}": [d0.get(k), d1.get(k)] for k in set(d0) | set(d1) if d0.get(k) != d1.get(k)}
    return d or None


def lost_cells_are_nofresh(G, part, res, dim=3):
    """symptom of F-C06a: the only difference is that exactly the cells of pieces without new points are gone"""
    if "error" in res:
        return False
    nf = nofresh_pieces(part)
    if not nf:
        return False
    keep = [c for i, p in enumerate(part["pieces"]) if i not in nf for c in p["cells"]]
    G2 = dict(G, cells=[G["cells"][c] for c in keep], cf=[[n, vt, nc, sc, [rows[c] for c in keep]] for n, vt, nc, sc, rows in G["cf"]])
    return oracle_diff(G2, res, dim) is None


# ================================================================================================
# model side
# ================================================================================================
def zrow(r):
    return clist([cz(x) for x in r], "Z")


def model_piece(G, piece, dim=3):
    loc = {g: i for i, g in enumerate(piece["points"])}
    pnames = sorted(n for n, *_ in G["pf"])
    cnames = sorted(n for n, *_ in G["cf"])
    pfm = {n: rows for n, _, _, _, rows in G["pf"]}
    cfm = {n: rows for n, _, _, _, rows in G["cf"]}
    P = clist([zrow(G["points"][g][:dim]) for g in piece["points"]], "point")
    cells, cdata = [], []
    for t in piece["types"]:
        cs = [c for c in piece["cells"] if G["cells"][c][0] == t]
        rows = clist([clist([cnat(loc[p]) for p in G["cells"][c][1]], "nat") for c in cs], "(list nat)")
        cells.append(f"({cnat(t)}, {rows})")
        per = [f"({cnat(i)}, {clist([zrow(cfm[n][c]) for c in cs], '(list Z)')})" for i, n in enumerate(cnames)]
        cdata.append(f"({cnat(t)}, {clist(per, '(nat * list (list Z))')})")
    pd = [f"({cnat(i)}, {clist([zrow(pfm[n][g]) for g in piece['points']], '(list Z)')})" for i, n in enumerate(pnames)
          if n not in piece.get("drop_pf", ())]
    return (f"(mk {P} {clist(cells, '(nat * list (list nat))')} {clist(pd, '(nat * list (list Z))')} "
            f"{clist(cdata, '(nat * list (nat * list (list Z)))')})")


def model_expr(G, part, dim=3):
    f = "run_fixed" if REPAIRED["F-C06a"] else "run_pinned"
    return f"{f} {clist([model_piece(G, p, dim) for p in part['pieces']], '(mf (list Z))')}"


def _tolist(x):
    return [list(r) for r in x]


def decode_model(val, G):
    """Coq value -> the same structure as extract() (without dtypes)"""
    assert isinstance(val, tuple) and val[0] == "Some", val
    pts, cells, pdata, cdata = val[1]
    pnames = sorted(n for n, *_ in G["pf"])
    cnames = sorted(n for n, *_ in G["cf"])
    res = {"points": _tolist(pts), "cells": [[t, _tolist(rows)] for t, rows in cells], "pf": {}, "cf": {}}
    for i, rows in pdata:
        res["pf"][pnames[i]] = _tolist(rows)
    for t, per in cdata:
        for i, rows in per:
            res["cf"].setdefault(cnames[i], {})[str(t)] = _tolist(rows)
    return res


def model_vs_impl(mo, im):
    """index-by-index comparison (cell types compared as a dict: their listing order is not an observable)"""
    if "error" in im:
        return f"implementation raised {im['error']}"
    if mo["points"] != im["points"]:
        return "points differ"
    if {t: r for t, r in mo["cells"]} != {t: r for t, r in im["cells"]}:
        return "connectivity differs"
    if mo["pf"] != {n: e["rows"] for n, e in im["pf"].items()}:
        return "point fields differ"
    if mo["cf"] != {n: {t: e["rows"] for t, e in d.items()} for n, d in im["cf"].items()}:
        return "cell fields differ"
    return None


# ================================================================================================
# stream 1: merge()
# ================================================================================================
def canon_case(G, part, **kw):
    return {"G": G, "part": part, **kw}


def judge_merge(ctx, case, im):
    """oracle for one merge() case: content(result) = content(global mesh)"""
    G, part, dim = case["G"], case["part"], case["dim"]
    nf = nofresh_pieces(part)
    diff = oracle_diff(G, im, dim)
    if diff is not None:
        if lost_cells_are_nofresh(G, part, im, dim):
            what = WHAT["F-C06a-merge"]
        elif "error" in diff:
            what = f"merge() raised {diff['error'][:80]}"
        else:
            what = "merge(): content of the result differs from the unpartitioned mesh: " + ", ".join(k_ for k_ in diff if not k_.startswith("missing_"))
        ctx.violation("E4", what, case, impl=im, difference=diff, pieces_without_new_points=nf)
    return diff is None


def long_line(rng):
    """a polyline with more points than a narrow integer type can index, cut into 2-3 contiguous pieces that are small
    enough for their own (piece-local) connectivity to be stored in such a type"""
    n = rng.choice([rng.randint(130, 280), rng.randint(262, 330)])      # (beyond 255: also unsigned 8-bit indices overflow)
    pts = [[i * 8, (i % 3) * 8, 0] for i in range(n + 1)]
    cells = [[3, [i, i + 1]] for i in range(n)]
    G = {"kind": "longline", "points": pts, "cells": cells, "pf": [_field(rng, "u", n + 1)], "cf": [_field(rng, "c", n)]}
    k = rng.choice([2, 3])
    cuts = sorted(rng.sample(range(40, n - 40), k - 1))
    groups = [list(range(a, b)) for a, b in zip([0] + cuts, cuts + [n])]
    rng.shuffle(groups)
    pieces = []
    for g in groups:
        lp = sorted({p for c in g for p in G["cells"][c][1]})
        fit = [dt for dt, mx in (("int8", 127), ("uint8", 255), ("int16", 32767), ("uint16", 65535), ("int32", 2 ** 31 - 1)) if len(lp) - 1 <= mx]
        unsigned = [dt for dt in fit if dt.startswith("u")]
        dt = fit[0] if rng.random() < 0.4 else (unsigned[0] if unsigned and rng.random() < 0.6 else rng.choice(fit[:3]))
        pieces.append({"cells": g, "points": lp, "types": [3], "conn_dtype": dt})
    return G, {"mode": "contiguous", "pieces": pieces}


def stream_merge(ctx, n):
    rng = ctx.rng
    cases = []
    for _ in range(max(10, n // 100)):
        G, part = long_line(rng)
        cases.append((G, part, 3))
    for _ in range(n):
        G = gen_global(rng)
        part = gen_partition(rng, G)
        if rng.random() < 0.3:
            for piece in part["pieces"]:
                piece["conn_dtype"] = rng.choice(["int8", "uint8", "int16", "int32", "uint32", "int64"])
        dim = 3 if (G["kind"] in ("hex", "tet") or rng.random() < 0.7) else 2
        if dim == 2 and len({tuple(p[:2]) for p in G["points"]}) != len(G["points"]):
            dim = 3
        cases.append((G, part, dim))
    impls = [run_merge(G, part, dim) for G, part, dim in cases]
    vals = ctx.coq_eval(HEADER, [model_expr(G, part, dim) for G, part, dim in cases], name="c06merge", shard=60)
    for (G, part, dim), im, val in zip(cases, impls, vals):
        case = canon_case(G, part, stream="merge", dim=dim)
        nf = nofresh_pieces(part)
        k = len(part["pieces"])
        shared = sum(len(p["points"]) for p in part["pieces"]) - len(G["points"])
        ctx.case(case, k >= 2 and shared > 0, sample={"mesh": G["kind"], "cells": len(G["cells"]), "mode": part["mode"],
                                                      "pieces": [p["cells"] for p in part["pieces"]], "nofresh": nf})
        ctx.count("merge:mesh:" + G["kind"])
        ctx.count("merge:mode:" + part["mode"])
        ctx.count(f"merge:k={k}")
        ctx.count("merge:piece-without-new-point:" + ("yes" if nf else "no"))
        ctx.count(f"merge:space-dim={dim}")
        mo = decode_model(val, G)
        judge_merge(ctx, case, im)
        if im.get("reuse"):
            ctx.violation("E4", "merge(): " + im["reuse"], case, impl=im)
        if im.get("float_connectivity"):
            ctx.violation("E4", "merge(): the corner indices of the merged mesh are floating-point numbers", case, impl=im)
        ctx.tie("T2 merge() of piece objects that already went through a merge")
        d2 = model_vs_impl(mo, im)
        if d2 is not None:
            ctx.violation("E2", f"merge(): model != implementation ({d2})", case, found_input=False, impl=im, model=mo)
        ctx.traces_validated += 1
        ctx.tie("T2 merge() vs Model.Merge.merge_all")


def t1_piece_lookup(ctx):
    """T1: where the readers of index files (.pvtu and .pvd) take a named piece from, tabulated over (name absolute?, a file of
    that name in the working directory?, a file of that name next to the index file?) by reading marked files, and proved equal
    to Model.Paths.resolve_fixed in the kernel"""
    from fieldcompare.io import read_field_data, read
    root = os.path.join(str(ctx.workdir), "lookup")
    rows = []
    for kind in ("pvtu", "pvd"):
        for is_abs in (False, True):
            for in_cwd in (False, True):
                for next_to in (False, True):
                    if is_abs and not next_to:
                        continue          # (an absolute name is the file next to the index here; it has to exist to be read at all)
                    if not is_abs and not in_cwd and not next_to:
                        continue          # nothing to read
                    d = os.path.join(root, f"{kind}_{int(is_abs)}{int(in_cwd)}{int(next_to)}")
                    idx_dir, cwd_dir = os.path.join(d, "index_dir"), os.path.join(d, "cwd")
                    os.makedirs(idx_dir)
                    os.makedirs(cwd_dir)

                    def piece(path, marker):
                        V.write_vtu(path, [[0.0, 0.0, 0.0], [1.0, 0.0, 0.0], [0.0, 1.0, 0.0]], [(5, [0, 1, 2])],
                                    [("m", "Float64", 1, [marker, marker, marker])], [], V.Cfg("ascii"))
                    if next_to:
                        piece(os.path.join(idx_dir, "piece.vtu"), 1.0)
                    if in_cwd:
                        piece(os.path.join(cwd_dir, "piece.vtu"), 2.0)
                    name = os.path.join(idx_dir, "piece.vtu") if is_abs else "piece.vtu"
                    if kind == "pvtu":
                        V.write_pvtu(os.path.join(idx_dir, "all.pvtu"), [name], [("m", "Float64", 1, None)], [])
                    else:
                        V.write_pvd(os.path.join(idx_dir, "all.pvd"), [name])
                    old = os.getcwd()
                    os.chdir(cwd_dir)
                    try:
                        with warnings.catch_warnings():
                            warnings.simplefilter("ignore")
                            if kind == "pvtu":
                                fd = read_field_data(os.path.join(idx_dir, "all.pvtu"))
                            else:
                                fd = next(iter(read(os.path.join(idx_dir, "all.pvd"))))
                        marker = float({f.name: f.values for f in fd}["m"][0])
                    except Exception as e:  # noqa: BLE001
                        marker = None
                        ctx.notes.append(f"piece lookup probe {kind} abs={is_abs} cwd={in_cwd} next={next_to}: {type(e).__name__}: {e}")
                    finally:
                        os.chdir(old)
                    # which file was read: marker 1 = the file next to the index, marker 2 = the namesake in the working directory.
                    # an absolute name IS the file next to the index here, so 'as given' and 'next to the index' coincide (marker 1)
                    got = {1.0: "NextToIndex", 2.0: "AsGiven"}.get(marker)
                    if is_abs:
                        got = "AsGiven" if marker == 1.0 else None
                    rows.append((kind, is_abs, in_cwd, next_to, got))
    shutil.rmtree(root, ignore_errors=True)
    body = ["From Coq Require Import Bool List.", "From FC Require Import Model.Paths.", "Import ListNotations.",
            "Definition observed : list (bool * bool * bool * option lookup) := ["]
    body.append(";\n".join(f"  ({lib.cbool(a)}, {lib.cbool(c)}, {lib.cbool(n)}, {'Some ' + g if g else 'None'})" for _, a, c, n, g in rows))
    body.append("].")
    body.append("Definition lookup_eqb (a b : lookup) : bool := match a, b with AsGiven, AsGiven | NextToIndex, NextToIndex => true | _, _ => false end.")
    body.append("Lemma piece_lookup_table : forallb (fun r => match r with (a, c, n, Some g) => lookup_eqb (resolve_fixed a c n) g | _ => false end) observed = true.")
    body.append("Proof. vm_compute. reflexivity. Qed.")
    ok = ctx.table_lemma("t1_piece_lookup", "\n".join(body))
    ctx.count("T1 piece lookup rows", len(rows))
    if not ok:
        for kind, a, c, n, g in rows:
            want = "NextToIndex" if (not a and n) else "AsGiven"
            if g != want:
                ctx.violation("E4", f"{kind}: a piece named {'absolutely' if a else 'relatively'} with a namesake in the working directory: "
                                    f"{c}, a file next to the index file: {n} is read from {g or 'nowhere (error)'}; expected {want}",
                              {"piece_lookup": {"kind": kind, "absolute": a, "in_cwd": c, "next_to_index": n}})


def stream_merge_partial(ctx, n):
    """merge() of pieces whose point-field sets differ (a field missing on one side is zero-filled there): model against
    implementation only — the statement's "unpartitioned data set" is not defined for such pieces"""
    rng = ctx.rng
    cases = []
    for _ in range(n):
        G = gen_global(rng)
        if not G["pf"]:
            continue
        part = gen_partition(rng, G)
        if len(part["pieces"]) < 2:
            continue
        names = [nm for nm, *_ in G["pf"]]
        for piece in part["pieces"]:
            piece["drop_pf"] = sorted(nm for nm in names if rng.random() < 0.35)
        if not any(p["drop_pf"] for p in part["pieces"]):
            part["pieces"][rng.randrange(len(part["pieces"]))]["drop_pf"] = [rng.choice(names)]
        dim = 3
        cases.append((G, part, dim))
    impls = [run_merge(G, part, dim) for G, part, dim in cases]
    vals = ctx.coq_eval(HEADER, [model_expr(G, part, dim) for G, part, dim in cases], name="c06mergepartial", shard=60)
    for (G, part, dim), im, val in zip(cases, impls, vals):
        case = canon_case(G, part, stream="merge_partial_fields", dim=dim)
        ctx.case(case, True, sample={"mesh": G["kind"], "dropped": [p["drop_pf"] for p in part["pieces"]]})
        ctx.count("merge, differing point-field sets:k=%d" % len(part["pieces"]))
        mo = decode_model(val, G)
        ncomp = {nm: nc for nm, _, nc, _, _ in G["pf"]}
        mo["pf"] = {nm: [r if r else [0] * ncomp[nm] for r in rows] for nm, rows in mo["pf"].items()}   # the model's zero row is []
        d2 = model_vs_impl(mo, im)
        if d2 is not None:
            if "error" in im:
                ctx.violation("E4", f"merge() of pieces with differing point-field sets raised {im['error'][:90]}", case, impl=im, model=mo)
            else:
                ctx.violation("E2", f"merge() with differing point-field sets: model != implementation ({d2})", case,
                              found_input=False, impl=im, model=mo)
        ctx.traces_validated += 1
        ctx.tie("T2 merge() with differing point-field sets vs Model.Merge.merge_all")


# ================================================================================================
# stream 2: .pvtu / .pvtp files
# ================================================================================================
def _flat(rows):
    return [x for r in rows for x in r]


def _vtk_fields(G, which, ids):
    out = []
    for n, vt, nc, sc, rows in G[which]:
        vals = [(x / sc if vt.startswith("Float") else x) for g in ids for x in rows[g]]
        out.append((n, vt, nc, vals))
    return out


def write_unstructured(path, G, point_ids, cell_ids, cfg, poly):
    """one .vtu / .vtp file holding the given points (local order) and cells (file order)"""
    loc = {g: i for i, g in enumerate(point_ids)}
    pts = [[x / SCALE for x in G["points"][g]] for g in point_ids]
    pf = _vtk_fields(G, "pf", point_ids)
    if poly:
        lines = [c for c in cell_ids if G["cells"][c][0] == 4]
        polys = [c for c in cell_ids if G["cells"][c][0] == 7]
        order = lines + polys                    # cell data of a .vtp are stored verts, lines, polys, strips
        groups = {}
        if lines:
            groups["Lines"] = [[loc[p] for p in G["cells"][c][1]] for c in lines]
        if polys:
            groups["Polys"] = [[loc[p] for p in G["cells"][c][1]] for c in polys]
        V.write_vtp(path, pts, groups, pf, _vtk_fields(G, "cf", order), cfg)
    else:
        cells = [(G["cells"][c][0], [loc[p] for p in G["cells"][c][1]]) for c in cell_ids]
        V.write_vtu(path, pts, cells, pf, _vtk_fields(G, "cf", cell_ids), cfg)


def run_pfile(G, part, d, cfgd, poly):
    from fieldcompare.io import read_field_data
    os.makedirs(d, exist_ok=True)
    cfg = V.Cfg(**{k: v for k, v in cfgd.items() if k != "decoy"})
    ext = "vtp" if poly else "vtu"
    names = []
    for i, p in enumerate(part["pieces"]):
        nm = f"piece_{i}.{ext}"
        write_unstructured(os.path.join(d, nm), G, p["points"], p["cells"], cfg, poly)
        names.append(nm)
    decl = lambda which: [(n, vt, nc, None) for n, vt, nc, _, _ in G[which]]     # noqa: E731
    V.write_pvtu(os.path.join(d, f"all.p{ext}"), names, decl("pf"), decl("cf"), kind="PolyData" if poly else "UnstructuredGrid")
    write_unstructured(os.path.join(d, f"whole.{ext}"), G, list(range(len(G["points"]))), list(range(len(G["cells"]))), cfg, poly)
    out = {}
    with warnings.catch_warnings():
        warnings.simplefilter("ignore")
        try:
            whole = read_field_data(os.path.join(d, f"whole.{ext}"))
            out["whole"] = extract(whole, G)
        except Exception as e:          # noqa: BLE001
            out["whole"] = {"error": f"{type(e).__name__}: {e}"}
            whole = None
        cwd = os.getcwd()
        try:
            if cfgd.get("decoy") and len(names) >= 2:
                # the working directory holds files named like the pieces but with other content (the pieces in rotated order):
                # piece paths of an index file are relative to the index file, whatever the working directory contains
                dd = os.path.join(d, "cwd_with_decoys")
                os.makedirs(dd)
                for a_, b_ in zip(names, names[1:] + names[:1]):
                    shutil.copy(os.path.join(d, b_), os.path.join(dd, a_))
                os.chdir(dd)
            par = read_field_data(os.path.join(d, f"all.p{ext}"))
            out["parallel"] = extract(par, G)
        except Exception as e:          # noqa: BLE001
            out["parallel"] = {"error": f"{type(e).__name__}: {e}"}
            par = None
        finally:
            os.chdir(cwd)
        try:
            # the reader's remove_duplicate_points=False: every piece's points and cells are kept as they are, one after the other
            from fieldcompare.io.vtk import PVTUReader, PVTPReader
            keep = (PVTPReader if poly else PVTUReader)(os.path.join(d, f"all.p{ext}"), remove_duplicate_points=False).read()
            out["keep_duplicates"] = {"points": int(len(keep.domain.points)),
                                      "cells": int(sum(len(keep.domain.connectivity(ct)) for ct in keep.domain.cell_types))}
        except Exception as e:          # noqa: BLE001
            out["keep_duplicates"] = {"error": f"{type(e).__name__}: {e}"}
        if whole is not None and par is not None:
            try:
                from fieldcompare.mesh import MeshFieldsComparator
                suite = MeshFieldsComparator(source=par, reference=whole)(fieldcomp_callback=lambda *_: None)
                out["comparator"] = bool(suite)
            except Exception as e:          # noqa: BLE001
                out["comparator"] = f"{type(e).__name__}: {e}"
    shutil.rmtree(d, ignore_errors=True)
    return out


def check_pfile(ctx, G, part, cfgd, poly, out, case):
    tag = ".pvtp" if poly else ".pvtu"
    if "error" in out["whole"] or oracle_diff(G, out["whole"]) is not None:
        ctx.notes.append(f"{tag}: the WHOLE file does not read as the ground truth (C05/C07's business): {str(out['whole'])[:120]}")
        ctx.count(f"{tag}:whole-file-unreadable")
        return
    diff = oracle_diff(G, out["parallel"])
    if diff is not None:
        if lost_cells_are_nofresh(G, part, out["parallel"]):
            what = WHAT["F-C06a-file"]
        elif "error" in diff:
            what = f"{tag}: reading the parallel file raised {diff['error'][:80]}"
        else:
            what = f"{tag}: data read from the parallel file differs from the whole file: " + ", ".join(k for k in diff if not k.startswith("missing_"))
        ctx.violation("E4", what, case, impl=out["parallel"], difference=diff, pieces_without_new_points=nofresh_pieces(part))
    elif out.get("comparator") is not True:
        ctx.violation("E4", f"{tag}: MeshFieldsComparator(parallel, whole) does not pass although the contents are equal: {out.get('comparator')}",
                      case, impl=out)
    kd = out.get("keep_duplicates")
    if kd is not None:
        want = {"points": sum(len(p["points"]) for p in part["pieces"]), "cells": sum(len(p["cells"]) for p in part["pieces"])}
        ctx.tie(f"T2 {tag} read with remove_duplicate_points=False keeps every piece's points and cells")
        if kd != want:
            ctx.violation("E4", f"{tag}: read with remove_duplicate_points=False gives {kd}, the pieces hold {want}", case, impl=kd)


def stream_pfiles(ctx, n_vtu, n_vtp):
    rng = ctx.rng
    todo = []
    for k in range(n_vtu + n_vtp):
        poly = k >= n_vtu
        G = gen_polydata(rng) if poly else gen_global(rng)
        part = gen_partition(rng, G)
        if not poly:
            for p in part["pieces"]:
                p["types"] = sorted(p["types"])
        cfgd = rng.choice([dict(fmt="ascii"), dict(fmt="binary"), dict(fmt="appended-base64", compressor="zlib"),
                           dict(fmt="appended-raw", header_type="UInt64")])
        if rng.random() < 0.2:
            cfgd = dict(cfgd, decoy=True)
        todo.append((G, part, cfgd, poly))
    exprs = []
    for i, (G, part, cfgd, poly) in enumerate(todo):
        out = run_pfile(G, part, os.path.join(str(ctx.workdir), f"pf{i}"), cfgd, poly)
        case = canon_case(G, part, stream="pvtp" if poly else "pvtu", cfg=cfgd)
        nf = nofresh_pieces(part)
        ctx.case(case, len(part["pieces"]) >= 2, sample=None)
        ctx.count(("pvtp" if poly else "pvtu") + ":mode:" + part["mode"])
        ctx.count(("pvtp" if poly else "pvtu") + ":piece-without-new-point:" + ("yes" if nf else "no"))
        ctx.count("pfile:encoding:" + cfgd["fmt"])
        if cfgd.get("decoy"):
            ctx.count("pfile:working directory holds same-named decoy pieces")
        check_pfile(ctx, G, part, cfgd, poly, out, case)
        exprs.append((G, part, out))
        ctx.traces_validated += 1
        ctx.tie("T2 read(.pvtu/.pvtp) vs read(.vtu/.vtp) (content) + MeshFieldsComparator")
    # the parallel reader folds merge() over the pieces in listing order: the model must predict what was read, index by index
    vals = ctx.coq_eval(HEADER, [model_expr(G, _file_part(G, part, poly)) for G, part, _ in exprs], name="c06pfile", shard=60)
    for (G, part, out), val, (_, _, cfgd, poly) in zip(exprs, vals, todo):
        if "error" in out["parallel"] or "error" in out["whole"]:
            continue
        mo = decode_model(val, G)
        d2 = model_vs_impl(mo, out["parallel"])
        if d2 is not None:
            ctx.violation("E2", f"parallel file: model != implementation ({d2})", canon_case(G, part, stream="pvtp" if poly else "pvtu", cfg=cfgd),
                          found_input=False, impl=out["parallel"], model=mo)
        ctx.tie("T2 read(.pvtu/.pvtp) vs Model.Merge.merge_all")


def _file_part(G, part, poly):
    """the pieces as the piece READERS deliver them: .vtu groups cells by ascending type id (file order within a type);
    .vtp delivers lines before polygons"""
    pieces = []
    for p in part["pieces"]:
        types = sorted({G["cells"][c][0] for c in p["cells"]})
        pieces.append({"cells": p["cells"], "points": p["points"], "types": types})
    return {"mode": part["mode"], "pieces": pieces}


# ================================================================================================
# stream 3: StructuredFieldMerger, exhaustive over small lattices
# ================================================================================================
def compositions(n):
    if n == 0:
        return [[]]
    return [[a] + r for a in range(1, n + 1) for r in compositions(n - a)]


def all_decompositions(maxext):
    per_axis = [c for e in range(1, maxext + 1) for c in compositions(e)]
    for d in (1, 2, 3):
        yield from itertools.product(per_axis, repeat=d)


def locations(shape):
    """x fastest (written from the statement: the first direction varies fastest)"""
    res = []
    for t in itertools.product(*[range(n) for n in reversed(shape)]):
        res.append(list(reversed(t)))
    return res


def flat(shape, loc):
    k, m = 0, 1
    for s, i in zip(shape, loc):
        k += i * m
        m *= s
    return k


def piece_restriction(dec, loc, is_point):
    """global flat indices of the entities of the piece at `loc` (independent of code and model)"""
    add = 1 if is_point else 0
    mshape = [sum(a) + add for a in dec]
    off = [sum(a[:p]) for a, p in zip(dec, loc)]
    pshape = [a[p] + add for a, p in zip(dec, loc)]
    return [flat(mshape, [i + o for i, o in zip(it, off)]) for it in locations(pshape)]


def cdec(dec):
    return clist([clist([cnat(x) for x in a], "nat") for a in dec], "(list nat)")


SM_HEADER = HEADER + """
Definition sm_fields (dec : list (list nat)) (is_point : bool) (fs : list (list nat)) : list nat :=
  smerge 0 dec is_point (fun loc => nth (flat_index (pieces_shape dec) loc) fs []).
Definition sm_idx (dec : list (list nat)) (is_point : bool) : list (list nat) :=
  map (fun loc => piece_entity_indices dec loc (entity_shape is_point (piece_shape dec loc))
                    (entity_shape is_point (merged_cell_shape dec))) (locations_in (pieces_shape dec)).
"""


def judge_smerge(ctx, case, merger=None, restr=None):
    """consistent pieces (restrictions of a global field): the merged field must be the global field, numeric type included"""
    from fieldcompare.mesh import StructuredFieldMerger
    dec = tuple(tuple(a) for a in case["dec"])
    is_point, ncomp = case["is_point"], case["ncomp"]
    dtype = np.dtype(case["dtype"]).type
    merger = merger or StructuredFieldMerger(dec)
    if restr is None:
        restr = {tuple(l): piece_restriction(dec, l, is_point) for l in locations([len(a) for a in dec])}
    N = int(np.prod([sum(a) + (1 if is_point else 0) for a in dec]))
    glob = np.arange(1, N + 1, dtype=dtype) * (2 if dtype is np.int32 else 0.5)
    if ncomp > 1:
        glob = np.stack([glob + j for j in range(ncomp)], axis=1)
    cb = lambda loc, g=glob: g[restr[tuple(loc)]]          # noqa: E731
    try:
        got = merger.merge_point_fields(cb) if is_point else merger.merge_cell_fields(cb)
    except Exception as e:          # noqa: BLE001
        ctx.violation("E4", f"StructuredFieldMerger raised {type(e).__name__}: {str(e)[:60]}", case)
        return False
    ok = True
    if got.shape != glob.shape or not np.array_equal(got, glob):
        ctx.violation("E4", "StructuredFieldMerger: merging the restrictions of a global field does not give the global field",
                      case, impl=np.asarray(got).tolist(), statement=glob.tolist())
        ok = False
    elif got.dtype != glob.dtype:
        ctx.violation("E4", WHAT["F-C06b-merger"], case, impl_dtype=got.dtype.name, statement_dtype=glob.dtype.name)
        ok = False
    want_dt = glob.dtype.name if REPAIRED["F-C06b"] else "float64"
    if got.dtype.name != want_dt:
        ctx.violation("E2", f"StructuredFieldMerger: model dtype {want_dt} != implementation dtype {got.dtype.name}", case,
                      found_input=False)
    return ok


def stream_smerge(ctx, maxext):
    from fieldcompare.mesh import StructuredFieldMerger
    rng = ctx.rng
    pei_name = "_piece_entity_indices"
    have_pei = hasattr(StructuredFieldMerger, pei_name) and hasattr(StructuredFieldMerger, "_piece_shape")
    if not have_pei:
        ctx.notes.append("refinement tie skipped: StructuredFieldMerger._piece_entity_indices not found")
    decs = [tuple(tuple(a) for a in d) for d in all_decompositions(maxext)]
    exprs_f, exprs_i, recs = [], [], []
    for dec in decs:
        merger = StructuredFieldMerger(dec)
        plocs = locations([len(a) for a in dec])
        for is_point in (True, False):
            add = 1 if is_point else 0
            N = int(np.prod([sum(a) + add for a in dec]))
            restr = {tuple(l): piece_restriction(dec, l, is_point) for l in plocs}
            # (a) consistent pieces: restrictions of a global field; all dtype / shape variants; oracle = the global field
            for dtype, ncomp in ((np.float64, 1), (np.int32, 1), (np.float64, 3), (np.int32, 2)):
                case = {"stream": "smerge", "dec": [list(a) for a in dec], "is_point": is_point, "dtype": np.dtype(dtype).name, "ncomp": ncomp}
                ctx.case(case, len(plocs) >= 2, sample=case if rng.random() < 0.001 else None)
                ctx.count(f"smerge:dim={len(dec)}")
                ctx.count(f"smerge:pieces={min(len(plocs), 9)}{'+' if len(plocs) > 9 else ''}")
                ctx.count(f"smerge:{'point' if is_point else 'cell'}:{np.dtype(dtype).name}:ncomp={ncomp}")
                judge_smerge(ctx, case, merger, restr)
            # (b) arbitrary piece fields (distinct values, NOT consistent on shared points): which piece wins is the model's business
            fs, base = [], 1
            for l in plocs:
                m = len(restr[tuple(l)])
                fs.append(list(range(base, base + m)))
                base += m
            by_loc = {tuple(l): np.array(f, dtype=np.float64) for l, f in zip(plocs, fs)}
            got = (merger.merge_point_fields if is_point else merger.merge_cell_fields)(lambda loc: by_loc[tuple(loc)])
            idx = None
            if have_pei:
                mshape = tuple(sum(a) + add for a in dec)
                idx = [np.asarray(merger._piece_entity_indices(tuple(l), tuple(x + add for x in merger._piece_shape(tuple(l))), mshape)).tolist()
                       for l in plocs]
            exprs_f.append(f"sm_fields {cdec(dec)} {lib.cbool(is_point)} {clist([clist([cnat(x) for x in f], 'nat') for f in fs], '(list nat)')}")
            exprs_i.append(f"sm_idx {cdec(dec)} {lib.cbool(is_point)}")
            recs.append((dec, is_point, [int(x) for x in got.tolist()], idx, [restr[tuple(l)] for l in plocs]))
    vals_f = ctx.coq_eval(SM_HEADER, exprs_f, name="c06smf", shard=250)
    vals_i = ctx.coq_eval(SM_HEADER, exprs_i, name="c06smi", shard=250)
    for (dec, is_point, got, idx, restr), vf, vi in zip(recs, vals_f, vals_i):
        case = {"stream": "smerge-arbitrary", "dec": [list(a) for a in dec], "is_point": is_point}
        ctx.case(case, len(restr) >= 2)
        if list(vf) != got:
            ctx.violation("E2", "StructuredFieldMerger: model != implementation on arbitrary piece fields", case, found_input=False,
                          impl=got, model=list(vf))
        ctx.tie("T2 StructuredFieldMerger vs Model.Structured.smerge")
        mi = [list(x) for x in vi]
        if mi != restr:
            ctx.violation("E2", "piece_entity_indices: model != statement-level index sets", case, found_input=False, model=mi, statement=restr)
        if idx is not None:
            if idx != mi:
                ctx.violation("E2", "_piece_entity_indices: model != implementation", case, found_input=False, impl=idx, model=mi)
            ctx.tie("refinement _piece_entity_indices")
        # the statement about the index sets: cells are partitioned, points are covered
        allidx = [k for r in restr for k in r]
        add = 1 if is_point else 0
        N = int(np.prod([sum(a) + add for a in dec]))
        assert set(allidx) == set(range(N)) and (is_point or len(allidx) == N)
        ctx.traces_validated += 1
    ctx.exhaustive = {"structured decompositions": f"all {len(decs)} decompositions of all lattices with extents <= {maxext} per axis in 1-3 dimensions, "
                                                   "point and cell fields, float64/int32, scalar/vector"}


# ================================================================================================
# stream 4: .pvti / .pvtr / .pvts
# ================================================================================================
def embed_axes(rng, d):
    return sorted(rng.sample([0, 1, 2], d))


def grid_case(rng, dec):
    axes = embed_axes(rng, len(dec))
    ext = [0, 0, 0]
    for a, sizes in zip(axes, dec):
        ext[a] = sum(sizes)
    kind = rng.choice(["vti", "vtr", "vts"])
    origin = [rng.randint(-8, 8) for _ in range(3)]                  # / 4
    spacing = [rng.choice([1, 2, 3, 6]) for _ in range(3)]          # / 4
    ords = [[origin[a] + spacing[a] * i for i in range(ext[a] + 1)] for a in range(3)]
    if kind == "vtr":
        ords = [sorted(rng.sample(range(-20, 40), ext[a] + 1)) for a in range(3)]
    fields = []
    npts = (ext[0] + 1) * (ext[1] + 1) * (ext[2] + 1)
    ncell = max(ext[0], 1) * max(ext[1], 1) * max(ext[2], 1)
    for nm, n in (("p", npts), ("pi", npts), ("c", ncell), ("ci", ncell)):
        vt = "Int32" if nm.endswith("i") else rng.choice(["Float64", "Float32"])
        nc = rng.choice([1, 1, 3])
        vals = [rng.randint(-50, 50) for _ in range(n * nc)]
        fields.append([nm, vt, nc, vals])
    warp = [rng.randint(0, 3) for _ in range(npts)] if kind == "vts" else None
    if (kind == "vts" and len(dec) != 2 and rng.random() < 0.5) or rng.random() < 0.12:
        fields = [f for f in fields if f[0].startswith("p")]      # files without cell data (1-d / 3-d .vts: half of them)
    return {"stream": "pstruct", "kind": kind, "dec": [list(a) for a in dec], "axes": axes, "ext": ext, "origin": origin, "spacing": spacing,
            "ords": ords, "fields": fields, "warp": warp}


def _grid_points(c):
    """ground-truth points (x fastest), exact, in quarters"""
    e = c["ext"]
    pts = []
    for k in range(e[2] + 1):
        for j in range(e[1] + 1):
            for i in range(e[0] + 1):
                if c["kind"] == "vti":
                    pts.append([c["origin"][0] + c["spacing"][0] * i, c["origin"][1] + c["spacing"][1] * j, c["origin"][2] + c["spacing"][2] * k])
                else:
                    pts.append([c["ords"][0][i], c["ords"][1][j], c["ords"][2][k]])
    if c["kind"] == "vts":
        pts = [[p[0] + w, p[1] + 2 * w, p[2] - w] for p, w in zip(pts, c["warp"])]
    return pts


def _sub_indices(ext, sub, is_point):
    """flat indices (whole grid) of the entities of the sub-extent [x0,x1,y0,y1,z0,z1], x fastest"""
    add = 1 if is_point else 0
    shape = [(e + add) if (is_point or e > 0) else 1 for e in ext]
    rng_ = []
    for a in range(3):
        b, e_ = sub[2 * a], sub[2 * a + 1]
        if is_point:
            rng_.append(range(b, e_ + 1))
        else:
            rng_.append(range(b, e_) if e_ > b else range(0, 1))
    return [i + shape[0] * (j + shape[1] * k) for k in rng_[2] for j in rng_[1] for i in rng_[0]]


def write_grid(path, c, sub, cfg):
    """write the sub-extent `sub` of grid case c in its format (the whole grid when sub = whole extent)"""
    e = c["ext"]
    whole = [0, e[0], 0, e[1], 0, e[2]]
    pidx = _sub_indices(e, sub, True)
    cidx = _sub_indices(e, sub, False)
    pf, cf = [], []
    for nm, vt, nc, vals in c["fields"]:
        idx = pidx if nm.startswith("p") else cidx
        sel = [vals[i * nc + j] for i in idx for j in range(nc)]
        sel = [float(x) / 2 for x in sel] if vt.startswith("Float") else sel
        (pf if nm.startswith("p") else cf).append((nm, vt, nc, sel))
    if c["kind"] == "vti":
        V.write_vti(path, sub, [x / 4 for x in c["origin"]], [x / 4 for x in c["spacing"]], None, pf, cf, cfg, whole_extent=whole)
    elif c["kind"] == "vtr":
        ords = [[x / 4 for x in c["ords"][a][sub[2 * a]:sub[2 * a + 1] + 1]] for a in range(3)]
        V.write_vtr(path, sub, ords, pf, cf, cfg, whole_extent=whole)
    else:
        P = _grid_points(c)
        V.write_vts(path, sub, [[x / 4 for x in P[i]] for i in pidx], pf, cf, cfg, whole_extent=whole)


def piece_extents(c):
    """sub-extents of the pieces, x-fastest over the piece lattice"""
    dec, axes = c["dec"], c["axes"]
    out = []
    for loc in locations([len(a) for a in dec]):
        sub = [0, 0, 0, 0, 0, 0]
        for a, sizes, p in zip(axes, dec, loc):
            b = sum(sizes[:p])
            sub[2 * a], sub[2 * a + 1] = b, b + sizes[p]
        out.append(sub)
    return out


def read_struct(path, scale_fields):
    from fieldcompare.io import read_field_data
    with warnings.catch_warnings():
        warnings.simplefilter("ignore")
        f = read_field_data(path)
        dom = f.domain
        res = {"points": _scaled(dom.points, 4), "extents": [int(x) for x in dom.extents], "cells": [], "pf": {}, "cf": {}}
        for ct in dom.cell_types:
            res["cells"].append([ct.id, np.asarray(dom.connectivity(ct)).tolist()])
        for fl in f.point_fields:
            a = np.asarray(fl.values)
            res["pf"][fl.name] = {"dtype": a.dtype.name, "rows": _scaled(a, 2 if scale_fields[fl.name] else 1)}
        for fl, ct in f.cell_fields_types:
            nm = fl.name.rsplit(" @ ", 1)[0]
            a = np.asarray(fl.values)
            res["cf"][nm] = {"dtype": a.dtype.name, "rows": _scaled(a, 2 if scale_fields[nm] else 1)}
    return res


def run_pstruct(c, order, d):
    os.makedirs(d, exist_ok=True)
    cfg = V.Cfg(fmt="ascii")
    e = c["ext"]
    whole = [0, e[0], 0, e[1], 0, e[2]]
    ext_ = c["kind"]
    subs = piece_extents(c)
    names = []
    for i, sub in enumerate(subs):
        nm = f"piece_{i}.{ext_}"
        write_grid(os.path.join(d, nm), c, sub, cfg)
        names.append(nm)
    kindname = {"vti": "ImageData", "vtr": "RectilinearGrid", "vts": "StructuredGrid"}[ext_]
    extra = ""
    if ext_ == "vti":
        extra = (f' Origin="{" ".join(repr(x / 4) for x in c["origin"])}" Spacing="{" ".join(repr(x / 4) for x in c["spacing"])}"')
    decl = lambda pre: [(nm, vt, nc, None) for nm, vt, nc, _ in c["fields"] if nm.startswith(pre)]      # noqa: E731
    V.write_pstructured(os.path.join(d, f"all.p{ext_}"), kindname, whole, [(subs[i], names[i]) for i in order], decl("p"), decl("c"), extra)
    write_grid(os.path.join(d, f"whole.{ext_}"), c, whole, cfg)
    sf = {nm: vt.startswith("Float") for nm, vt, _, _ in c["fields"]}
    out = {}
    for key, fn in (("whole", f"whole.{ext_}"), ("parallel", f"all.p{ext_}")):
        try:
            out[key] = read_struct(os.path.join(d, fn), sf)
        except Exception as ex:          # noqa: BLE001
            out[key] = {"error": f"{type(ex).__name__}: {ex}"}
    # refinement tie: the decomposition computed from the piece extents
    try:
        from fieldcompare.io.vtk import _pvtk_readers as PR
        rd = {"vti": PR.PVTIReader, "vtr": PR.PVTRReader, "vts": PR.PVTSReader}[ext_](os.path.join(d, f"all.p{ext_}"))
        dd = rd._get_structured_decomposition()
        shape = [len(a) for a in c["dec"]]
        out["decomposition"] = {"sizes": [[int(x) for x in s] for s in dd._cells_per_axis],
                                "order": [int(dd._order[tuple(l)]) for l in locations(shape)]}
    except Exception as ex:          # noqa: BLE001
        out["decomposition"] = None
        out["decomposition_note"] = f"{type(ex).__name__}: {ex}"
    shutil.rmtree(d, ignore_errors=True)
    return out


def truth_struct(c):
    sf = {nm: (2 if vt.startswith("Float") else 1) for nm, vt, _, _ in c["fields"]}
    t = {"points": _grid_points(c), "extents": c["ext"], "pf": {}, "cf": {}}
    for nm, vt, nc, vals in c["fields"]:
        rows = [[vals[i * nc + j] for j in range(nc)] for i in range(len(vals) // nc)]
        (t["pf"] if nm.startswith("p") else t["cf"])[nm] = {"dtype": np.dtype(NP_DT[vt]).name, "rows": rows}
    return t


def diff_struct(truth, got):
    if "error" in got:
        return {"error": got["error"]}
    d = {}
    if truth["points"] != got["points"]:
        d["points"] = True
    if list(truth["extents"]) != list(got["extents"]):
        d["extents"] = [truth["extents"], got["extents"]]
    for w in ("pf", "cf"):
        if set(truth[w]) != set(got[w]):
            d[w + "_names"] = [sorted(truth[w]), sorted(got[w])]
            continue
        for nm in truth[w]:
            if truth[w][nm]["rows"] != got[w][nm]["rows"]:
                d[f"{w}:{nm}:values"] = True
            if truth[w][nm]["dtype"] != got[w][nm]["dtype"]:
                d.setdefault("dtypes", {})[f"{w}:{nm}"] = [truth[w][nm]["dtype"], got[w][nm]["dtype"]]
    return d or None


def flat_coordinate_lost(c, truth, got):
    """symptom of F-C06e: the points agree in the meshed directions and are 0 in the flat ones"""
    flat = [a for a in range(3) if a not in c["axes"]]
    if not flat or len(truth["points"]) != len(got["points"]):
        return False
    return all(all(g[a] == (0 if a in flat else t[a]) for a in range(3)) for t, g in zip(truth["points"], got["points"]))


PS_HEADER = HEADER + """
Definition qout (o : option (list qvec)) :=
  match o with Some l => Some (map (map (fun q => (Qnum q, Z.pos (Qden q)))) l) | None => None end.
Definition ps_dec (exts : list (list Z)) :=
  (sizes_along_axis exts, map (domain_id exts) (locations_in (pieces_shape (merger_decomposition exts)))).
Definition ps_field (exts : list (list Z)) (is_point : bool) (fs : list (list nat)) := pmerge 0 exts is_point fs.
"""


def judge_pstruct(ctx, case, out):
    c = case
    truth = truth_struct(c)
    dw = diff_struct(truth, out["whole"])
    dp = diff_struct(truth, out["parallel"])
    if dw is not None and set(dw) - {"dtypes"}:
        ctx.count("pstruct:whole-file-not-ground-truth")
        ctx.notes.append(f"whole .{c['kind']} does not read as the ground truth (C07's business): {str(dw)[:100]}")
        return True
    if dp is None:
        return True
    has_cf = any(not f[0].startswith("p") for f in c["fields"])
    if set(dp) == {"dtypes"}:
        what = WHAT["F-C06b-file"]
    elif not has_cf and dp.get("error", "").startswith("AssertionError"):
        what = WHAT["F-C06d-nocelldata"]
    elif c["kind"] == "vtr" and set(dp) <= {"dtypes", "points"} and "points" in dp and flat_coordinate_lost(c, truth, out["parallel"]):
        what = WHAT["F-C06e-pvtr-flat"]
    elif (c["kind"] == "vtr" and c["axes"] != list(range(len(c["axes"]))) and set(dp) <= {"dtypes", "points", "error"}
          and ("points" in dp or "broadcast" in dp.get("error", "") or dp.get("error", "").startswith("IndexError"))):
        what = WHAT["F-C06c-pvtr"]
    elif "error" in dp:
        what = f".p{c['kind']}: reading the parallel file raised {dp['error'][:80]}"
    else:
        what = f".p{c['kind']}: data read from the parallel file differs from the whole grid: " + ", ".join(sorted(dp))
    ctx.violation("E4", what, case, difference=dp, impl=out["parallel"] if "error" in out["parallel"] else None)
    return False


def stream_pstruct(ctx, n_cases, maxext):
    rng = ctx.rng
    decs = [d for d in all_decompositions(maxext) if int(np.prod([len(a) for a in d])) >= 2]
    single = [d for d in all_decompositions(maxext) if int(np.prod([len(a) for a in d])) == 1]
    jobs = []
    for _ in range(n_cases):
        dec = rng.choice(single) if single and rng.random() < 0.12 else rng.choice(decs)     # (an index file listing ONE piece is legal)
        c = grid_case(rng, dec)
        k = int(np.prod([len(a) for a in dec]))
        orders = list(itertools.permutations(range(k))) if k <= 3 else [tuple(rng.sample(range(k), k)) for _ in range(4)] + [tuple(range(k))]
        for o in orders:
            jobs.append((c, list(o)))
    exprs_d, exprs_f, outs = [], [], []
    for i, (c, order) in enumerate(jobs):
        out = run_pstruct(c, order, os.path.join(str(ctx.workdir), f"ps{i}"))
        case = dict(c, order=order)
        ctx.case(case, True)
        ctx.count("pstruct:" + c["kind"])
        ctx.count(f"pstruct:dim={len(c['dec'])}")
        ctx.count(f"pstruct:pieces={len(order)}")
        ctx.count("pstruct:order:" + ("identity" if order == sorted(order) else "permuted"))
        judge_pstruct(ctx, case, out)
        subs = piece_extents(c)
        listed = [subs[i] for i in order]
        cexts = clist([clist([cz(x) for x in s], "Z") for s in listed], "(list Z)")
        exprs_d.append(f"ps_dec {cexts}")
        # model of the merged point field "order id": piece j (in listing order) holds the constant j+1
        fsp = clist([clist([cnat(j + 1)] * len(_sub_indices(c["ext"], s, True)), "nat") for j, s in enumerate(listed)], "(list nat)")
        exprs_f.append(f"ps_field {cexts} true {fsp}")
        outs.append((case, out, listed))
        ctx.traces_validated += 1
        ctx.tie("T2 read(.pvti/.pvtr/.pvts) vs read(whole) and ground truth")
    vd = ctx.coq_eval(PS_HEADER, exprs_d, name="c06psd", shard=200)
    for (case, out, listed), v in zip(outs, vd):
        dd = out.get("decomposition")
        if dd is None:
            ctx.count("pstruct:decomposition-tie-skipped")
            continue
        msizes, morder = [list(x) for x in v[0]], list(v[1])
        if msizes != dd["sizes"] or morder != dd["order"]:
            ctx.violation("E2", "_get_structured_decomposition: model != implementation", case, found_input=False,
                          impl=dd, model={"sizes": msizes, "order": morder})
        # statement level: sizes are the decomposition, order[loc] is the listing position of the piece at loc
        want_sizes = [[0], [0], [0]]
        for a, s in zip(case["axes"], case["dec"]):
            want_sizes[a] = list(s)
        inv = {p: j for j, p in enumerate(case["order"])}
        want_order = [inv[i] for i in range(len(case["order"]))]
        if dd["sizes"] != want_sizes or dd["order"] != want_order:
            ctx.violation("E4", "structured decomposition computed from the piece extents is wrong", case, impl=dd,
                          statement={"sizes": want_sizes, "order": want_order})
        ctx.tie("refinement _get_structured_decomposition")
    if any(o[1].get("decomposition") is None for o in outs):
        ctx.notes.append("refinement tie skipped for some cases: _get_structured_decomposition not reachable: "
                         + str(next(o[1].get("decomposition_note") for o in outs if o[1].get("decomposition") is None)))
    vf = ctx.coq_eval(PS_HEADER, exprs_f, name="c06psf", shard=200)
    ctx.extra["pstruct_model_fields_evaluated"] = len(vf)
    # PVTRReader._make_structured_mesh: the ordinates assembled from the pieces (model) vs the points read (implementation)
    vtr = [(case, out, listed) for case, out, listed in outs if case["kind"] == "vtr"]
    ex = []
    for case, out, listed in vtr:
        cexts = clist([clist([cz(x) for x in s_], "Z") for s_ in listed], "(list Z)")
        po = clist([clist([clist([lib.cqfrac(Fraction(x, 4)) for x in case["ords"][a][s_[2 * a]:s_[2 * a + 1] + 1]], "Q") for a in range(3)], "(list Q)")
                    for s_ in listed], "(list (list Q))")
        ex.append(f"qout (pvtr_ordinates {lib.cbool(REPAIRED['F-C06c'])} {lib.cbool(REPAIRED['F-C06e'])} {cexts} {po})")
    for (case, out, listed), v in zip(vtr, ctx.coq_eval(PS_HEADER, ex, name="c06pvtr", shard=100)):
        has_cf = any(not f[0].startswith("p") for f in case["fields"])
        readable = REPAIRED["F-C06d"] or has_cf
        err = out["parallel"].get("error")
        if not readable:
            if not (err or "").startswith("AssertionError"):
                ctx.violation("E2", "parallel structured file without cell data: model predicts the AssertionError of _merge_cell_fields, "
                              "the implementation read the file", case, found_input=False)
            continue
        if v == "None":
            if err is None or not ("broadcast" in err or err.startswith("IndexError")):
                ctx.violation("E2", ".pvtr ordinates: model predicts a broadcasting / index error, implementation does not raise it", case, found_input=False, impl=err)
        else:
            o = [[Fraction(n, d) * 4 for n, d in axis] for axis in v[1]]
            mp = [[x, y, z] for z in o[2] for y in o[1] for x in o[0]]
            if err is not None or [list(p) for p in out["parallel"]["points"]] != mp:
                ctx.violation("E2", ".pvtr ordinates: model != implementation", case, found_input=False, impl=err or out["parallel"]["points"][:6], model=mp[:6])
        ctx.tie("T2 PVTRReader ordinates vs Model.Structured.pvtr_ordinates")


# ================================================================================================
# refinement ties of the unstructured merger
# ================================================================================================
RT_HEADER = HEADER + """
Definition rt_maps (n : nat) (d : dict) (off : nat) := (filter_ext n d, map_ext n d off).
Definition rt_dup (src tgt : list point) := dup_map src tgt.
"""


def refinement_ties(ctx, n):
    rng = ctx.rng
    try:
        from fieldcompare.mesh import _transformations as T
    except Exception as e:      # noqa: BLE001
        ctx.notes.append(f"refinement ties skipped: {e}")
        return
    from fieldcompare.mesh import Mesh
    f_filter = getattr(T, "_filter_external_indices", None)
    f_map = getattr(T, "_map_external_indices", None)
    f_dup = getattr(T, "_map_duplicate_points", None)
    for nm, f in (("_filter_external_indices", f_filter), ("_map_external_indices", f_map), ("_map_duplicate_points", f_dup)):
        if f is None:
            ctx.notes.append(f"refinement tie skipped: {nm} not found")
    e1, r1, e2, r2 = [], [], [], []
    for _ in range(n):
        nv = rng.randint(0, 8)
        pairs = [(rng.randrange(max(nv, 1)), rng.randint(0, 12)) for _ in range(rng.randint(0, nv))] if nv else []
        off = rng.randint(0, 9)
        d = {}
        for k, v in pairs:
            d[k] = v
        if f_filter is not None and f_map is not None:
            fi = [int(x) for x in np.asarray(f_filter(nv, d)).tolist()]
            mp = [int(x) for x in np.asarray(f_map(nv, d, off)).tolist()]
            r1.append(({"n": nv, "pairs": pairs, "offset": off}, fi, mp))
            e1.append(f"rt_maps {cnat(nv)} {clist([f'({cnat(k)}, {cnat(v)})' for k, v in pairs], '(nat * nat)')} {cnat(off)}")
        if f_dup is not None:
            dim = rng.choice([1, 2, 3])
            pool = [[rng.randint(-2, 2) for _ in range(dim)] for _ in range(12)]
            pool = [list(t) for t in {tuple(p) for p in pool}]
            rng.shuffle(pool)
            src = rng.sample(pool, rng.randint(1, min(6, len(pool))))
            tgt = rng.sample(pool, rng.randint(1, min(6, len(pool))))
            got = f_dup(source=Mesh(np.array(src, dtype=float) / 4, []), target=Mesh(np.array(tgt, dtype=float) / 4, []))
            r2.append(({"src": src, "tgt": tgt}, {int(k): int(v) for k, v in got.items()}))
            e2.append(f"rt_dup {clist([zrow(p) for p in src], 'point')} {clist([zrow(p) for p in tgt], 'point')}")
    for (case, fi, mp), v in zip(r1, ctx.coq_eval(RT_HEADER, e1, name="c06rt1")):
        ctx.case({"tie": "maps", **case}, True)
        if [list(v[0]), list(v[1])] != [fi, mp]:
            ctx.violation("E2", "_filter_external_indices/_map_external_indices: model != implementation", case, found_input=False,
                          impl=[fi, mp], model=[list(v[0]), list(v[1])])
        # statement-level oracle for the maps: duplicates to their target, fresh to offset + rank
        d = {}
        for k, val in case["pairs"]:
            d[k] = val
        fresh = [i for i in range(case["n"]) if i not in d]
        want = [d[i] if i in d else case["offset"] + fresh.index(i) for i in range(case["n"])]
        if fi != fresh or mp != want:
            ctx.violation("E4", "_map_external_indices does not send fresh indices to offset + rank and duplicates to their partner", case,
                          impl=[fi, mp], statement=[fresh, want])
        ctx.tie("refinement _filter/_map_external_indices")
    for (case, got), v in zip(r2, ctx.coq_eval(RT_HEADER, e2, name="c06rt2")):
        ctx.case({"tie": "dup", **case}, True)
        md = {}
        for k, val in v:
            md[k] = val
        want = {j: case["tgt"].index(p) for j, p in enumerate(case["src"]) if p in case["tgt"]}
        if md != got:
            ctx.violation("E2", "_map_duplicate_points: model != implementation", case, found_input=False, impl=got, model=md)
        if got != want:
            ctx.violation("E4", "_map_duplicate_points does not map exactly the coinciding points", case, impl=got, statement=want)
        ctx.tie("refinement _map_duplicate_points")


# ================================================================================================
def corpus_stream(ctx):
    """minimised past failures (corpus/C06/*.json), always first: the oracle is re-evaluated on each of them"""
    import glob
    import json
    for k, fn in enumerate(sorted(glob.glob(str(lib.VERIF / "corpus" / "C06" / "*.json")))):
        case = json.load(open(fn)).get("case") or {}
        st = case.get("stream")
        d = os.path.join(str(ctx.workdir), f"corpus{k}")
        if st == "merge":
            judge_merge(ctx, case, run_merge(case["G"], case["part"], case["dim"]))
        elif st in ("pvtu", "pvtp"):
            out = run_pfile(case["G"], case["part"], d, case["cfg"], st == "pvtp")
            check_pfile(ctx, case["G"], case["part"], case["cfg"], st == "pvtp", out, case)
        elif st == "smerge":
            judge_smerge(ctx, case)
        elif st == "pstruct":
            judge_pstruct(ctx, case, run_pstruct(case, case["order"], d))
        else:
            continue
        ctx.case({"corpus": os.path.basename(fn)}, True)
        ctx.count("corpus cases")


def run(ctx):
    try:
        return _run(ctx)
    except BaseException:
        shutil.rmtree(ctx.workdir, ignore_errors=True)      # never leave scratch files behind, even when the harness itself fails
        raise


def _run(ctx):
    ctx.prove()
    quick = ctx.tier == "quick"
    corpus_stream(ctx)
    t1_piece_lookup(ctx)
    stream_merge(ctx, 800 if quick else 30000)
    stream_merge_partial(ctx, 60 if ctx.tier == 'quick' else 1500)
    # rotated meshes (columns equal only up to rounding noise) and distinct points closer than the tolerance: shared points
    # are the bit-identical ones (statement-level oracle only; these coordinates are outside the exact model's lattice)
    from fieldcompare.mesh import merge as _merge
    from .meshfam import merge_geometry_stream
    merge_geometry_stream(ctx, 60 if ctx.tier == 'quick' else 1500, _merge)
    stream_pfiles(ctx, 150 if quick else 3000, 50 if quick else 1000)
    refinement_ties(ctx, 300 if quick else 5000)
    stream_smerge(ctx, 3 if quick else 4)
    stream_pstruct(ctx, 40 if quick else 1200, 3 if quick else 4)
    ctx.extra["model_variant"] = {k: ("repaired" if v else "pinned") for k, v in REPAIRED.items()}
    ctx.notes = sorted(set(ctx.notes))
    import json
    ctx.violations.sort(key=lambda v: len(json.dumps(v.get("case"), default=str)))      # the smallest failing case of each kind is the replay
    ctx.rule = ("unstructured: hybrid tri/quad, hexahedral, tetrahedral and line meshes (1-18 cells) with shuffled global numbering, exact dyadic "
                "coordinates (ties in the leading coordinates), 1-2 point and 1-2 cell fields of types float64/float32/int32/int64/uint8 with 1-3 "
                "components; partitions: contiguous, scattered, one cell per piece, k = 1, pieces all of whose points belong to earlier pieces; "
                "piece order, local cell order and local point order shuffled; the same through .pvtu/.pvtp files in four encodings. "
                "structured: every decomposition of every lattice with extents <= 3 (quick) / 4 (thorough) per axis; files in every piece order "
                "(<= 3 pieces) or 5 orders. non-trivial = at least two pieces sharing points")
    return ctx.finish(
        assumptions=["pieces have no internally coincident points and carry the same fields (the statement's quantifier)",
                     "coordinates and values are dyadic so that every float operation of the merger (comparisons only) is exact",
                     "field names are abstracted to ids, cell types to their VTK ids"],
        trusted=["harness/c06.py (generators, content oracle), harness/vtkenc.py (independent VTK XML encoder)",
                 "np.lexsort returns a stable lexicographic sorting permutation (modelled by a stable insertion sort)"])


# ================================================================================================
def replay(pid, rec):
    c = rec["case"]
    if not c:
        print("no case in this replay:", rec["what"])
        return False
    st = c.get("stream")
    if st == "merge":
        im = run_merge(c["G"], c["part"], c["dim"])
        diff = oracle_diff(c["G"], im, c["dim"])
        print("merge(): pieces", [p["cells"] for p in c["part"]["pieces"]], "pieces without new points:", nofresh_pieces(c["part"]))
        print("difference to the unpartitioned mesh:", diff)
        return diff is None
    if st == "merge_partial_fields":
        im = run_merge(c["G"], c["part"], c["dim"])
        print("merge() of pieces with differing point-field sets:", im.get("error", "no exception"))
        return "error" not in im
    if st in ("pvtu", "pvtp"):
        import tempfile
        d = tempfile.mkdtemp(dir=str(lib.WORK))
        out = run_pfile(c["G"], c["part"], d, c["cfg"], st == "pvtp")
        diff = oracle_diff(c["G"], out["parallel"])
        print("parallel file vs ground truth:", diff, "comparator:", out.get("comparator"))
        return diff is None and out.get("comparator") is True
    if st == "smerge":
        from fieldcompare.mesh import StructuredFieldMerger
        dec = tuple(tuple(a) for a in c["dec"])
        add = 1 if c["is_point"] else 0
        N = int(np.prod([sum(a) + add for a in dec]))
        dtype = np.dtype(c["dtype"]).type
        glob = np.arange(1, N + 1, dtype=dtype) * (2 if dtype is np.int32 else 0.5)
        if c["ncomp"] > 1:
            glob = np.stack([glob + j for j in range(c["ncomp"])], axis=1)
        m = StructuredFieldMerger(dec)
        cb = lambda loc: glob[piece_restriction(dec, list(loc), c["is_point"])]      # noqa: E731
        got = m.merge_point_fields(cb) if c["is_point"] else m.merge_cell_fields(cb)
        print("merged dtype:", got.dtype, "piece dtype:", glob.dtype, "values equal:", np.array_equal(got, glob))
        return bool(np.array_equal(got, glob) and got.dtype == glob.dtype)
    if st == "pstruct":
        import tempfile
        d = tempfile.mkdtemp(dir=str(lib.WORK))
        out = run_pstruct(c, c["order"], d)
        dp = diff_struct(truth_struct(c), out["parallel"])
        print("parallel structured file vs ground truth:", dp)
        return dp is None
    print("replay not available for this record:", rec["what"])
    return False
