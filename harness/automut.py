"""Automatic mutation sweep (not a registered check; a self-test of the machinery like harness/mutants.py).

Enumerates small syntactic mutations (one operator, one constant, one condition, one dropped statement) at every site of the
source files the properties are anchored in, keeps the mutants the repository's own test suite does NOT kill, and runs the
quick checks of the properties anchored in the mutated file against each survivor.  A survivor no check catches is either an
equivalent mutant (behaviour unchanged on everything the properties speak about) or a hole in a correspondence run; the
triage is recorded by hand in seeded/automut_triage.json.

Usage (from /verif):
    /venv/bin/python -m harness.automut enumerate                 -> work/automut/mutants.json
    /venv/bin/python -m harness.automut tests   [-j N]            -> work/automut/tests.json     (killed / survived)
    /venv/bin/python -m harness.automut checks  [-j N] [filter]   -> seeded/automut_results.json (caught_by / uncaught)
    /venv/bin/python -m harness.automut checks-all [-j N]         -> second pass: uncaught, not log-only survivors against all checks
Scratch copies of /repo live under /tmp/automut and are removed at the end of each phase.
"""
from __future__ import annotations

import ast
import json
import os
import shutil
import subprocess
import sys
from concurrent.futures import ThreadPoolExecutor
from pathlib import Path

VERIF = Path("/verif")
REPO = Path("/repo")
OUT = VERIF / "work" / "automut"
SCRATCH = Path("/tmp/automut")
PYTEST = ("/venv/bin/python -m pytest -x -q -p no:cacheprovider --timeout=300 "
          "--deselect test/test_examples.py::test_api_examples")


def anchored_files():
    files = {}
    for line in open(VERIF / "properties.jsonl"):
        d = json.loads(line)
        for f in d["anchors"]["files"]:
            files.setdefault(f, []).append(d["id"])
    return files


CMP = {ast.Lt: "<=", ast.LtE: "<", ast.Gt: ">=", ast.GtE: ">", ast.Eq: "!=", ast.NotEq: "==", ast.Is: "is not", ast.IsNot: "is",
       ast.In: "not in", ast.NotIn: "in"}
CMP_TXT = {ast.Lt: "<", ast.LtE: "<=", ast.Gt: ">", ast.GtE: ">=", ast.Eq: "==", ast.NotEq: "!=", ast.Is: "is", ast.IsNot: "is not",
           ast.In: "in", ast.NotIn: "not in"}
NAME_SWAP = {"max": "min", "min": "max", "all": "any", "any": "all", "amax": "amin", "amin": "amax", "maximum": "minimum",
             "minimum": "maximum", "less": "less_equal", "less_equal": "less", "greater": "greater_equal",
             "greater_equal": "greater", "argmax": "argmin", "argmin": "argmax", "zeros": "ones", "floor": "ceil", "ceil": "floor"}


def seg(src_lines, node):
    """(line, col, end_line, end_col) -> text of a single-line node, or None"""
    if node.lineno != node.end_lineno:
        return None
    return src_lines[node.lineno - 1][node.col_offset:node.end_col_offset]


def enumerate_file(rel):
    src = (REPO / rel).read_text()
    lines = src.split("\n")
    tree = ast.parse(src)
    muts = []

    def add(line, col, end_col, new, op):
        old = lines[line - 1][col:end_col]
        if old == new:
            return
        muts.append({"file": rel, "line": line, "col": col, "end_col": end_col, "old": old, "new": new, "op": op,
                     "source_line": lines[line - 1].strip()})

    # parents, to skip annotations / docstrings / default arguments of signatures
    skip = set()
    for node in ast.walk(tree):
        if isinstance(node, (ast.FunctionDef, ast.AsyncFunctionDef)):
            for a in node.args.args + node.args.kwonlyargs + ([node.args.vararg] if node.args.vararg else []) + \
                     ([node.args.kwarg] if node.args.kwarg else []):
                if a.annotation is not None:
                    skip.update(id(n) for n in ast.walk(a.annotation))
            if node.returns is not None:
                skip.update(id(n) for n in ast.walk(node.returns))
        if isinstance(node, ast.AnnAssign):
            skip.update(id(n) for n in ast.walk(node.annotation))
        if isinstance(node, ast.Expr) and isinstance(node.value, ast.Constant) and isinstance(node.value.value, str):
            skip.add(id(node.value))
        if isinstance(node, (ast.Raise, ast.Assert)):
            skip.update(id(n) for n in ast.walk(node))          # messages / assertions: not behaviour the properties speak about
        if isinstance(node, ast.Call) and isinstance(node.func, ast.Attribute) and node.func.attr in ("warn", "debug", "info"):
            skip.update(id(n) for n in ast.walk(node))

    for node in ast.walk(tree):
        if id(node) in skip:
            continue
        if isinstance(node, ast.Compare) and len(node.ops) == 1 and node.lineno == node.end_lineno:
            op = node.ops[0]
            if type(op) in CMP:
                left_end = node.left.end_col_offset
                right_start = node.comparators[0].col_offset
                if node.left.end_lineno == node.lineno and node.comparators[0].lineno == node.lineno:
                    mid = lines[node.lineno - 1][left_end:right_start]
                    txt = CMP_TXT[type(op)]
                    if mid.strip() == txt:
                        add(node.lineno, left_end, right_start, mid.replace(txt, CMP[type(op)]), f"compare {txt} -> {CMP[type(op)]}")
        elif isinstance(node, ast.BoolOp) and node.lineno == node.end_lineno:
            for a, b in zip(node.values, node.values[1:]):
                if a.end_lineno == node.lineno and b.lineno == node.lineno:
                    mid = lines[node.lineno - 1][a.end_col_offset:b.col_offset]
                    word = "and" if isinstance(node.op, ast.And) else "or"
                    if mid.strip() == word:
                        add(node.lineno, a.end_col_offset, b.col_offset, mid.replace(word, "or" if word == "and" else "and"),
                            f"boolop {word}")
        elif isinstance(node, ast.UnaryOp) and isinstance(node.op, ast.Not) and node.lineno == node.end_lineno:
            inner = seg(lines, node.operand)
            if inner is not None:
                add(node.lineno, node.col_offset, node.end_col_offset, f"({inner})", "drop not")
        elif isinstance(node, ast.BinOp) and isinstance(node.op, (ast.Add, ast.Sub)) and node.lineno == node.end_lineno:
            if node.left.end_lineno == node.lineno and node.right.lineno == node.lineno:
                mid = lines[node.lineno - 1][node.left.end_col_offset:node.right.col_offset]
                sym = "+" if isinstance(node.op, ast.Add) else "-"
                if mid.strip() == sym:
                    add(node.lineno, node.left.end_col_offset, node.right.col_offset, mid.replace(sym, "-" if sym == "+" else "+"),
                        f"binop {sym}")
        elif isinstance(node, ast.Constant) and node.lineno == node.end_lineno:
            v = node.value
            if v is True or v is False:
                add(node.lineno, node.col_offset, node.end_col_offset, "False" if v else "True", "bool constant")
            elif isinstance(v, int) and v in (0, 1, 2, 3, 8):
                add(node.lineno, node.col_offset, node.end_col_offset, str({0: 1, 1: 0, 2: 1, 3: 2, 8: 4}[v]), f"int constant {v}")
        elif isinstance(node, ast.Break):
            add(node.lineno, node.col_offset, node.end_col_offset, "continue", "break -> continue")
        elif isinstance(node, ast.Continue):
            add(node.lineno, node.col_offset, node.end_col_offset, "break", "continue -> break")
        elif isinstance(node, ast.Name) and node.id in NAME_SWAP and isinstance(node.ctx, ast.Load):
            add(node.lineno, node.col_offset, node.end_col_offset, NAME_SWAP[node.id], f"name {node.id}")
        elif isinstance(node, ast.Attribute) and node.attr in NAME_SWAP and node.lineno == node.end_lineno:
            add(node.lineno, node.end_col_offset - len(node.attr), node.end_col_offset, NAME_SWAP[node.attr], f"attr {node.attr}")
        elif isinstance(node, (ast.If, ast.While)) and not isinstance(node.test, (ast.Compare, ast.BoolOp, ast.UnaryOp)):
            t = seg(lines, node.test)
            if t is not None:
                add(node.test.lineno, node.test.col_offset, node.test.end_col_offset, f"not ({t})", "negate condition")
        elif isinstance(node, ast.Expr) and isinstance(node.value, ast.Call) and node.lineno == node.end_lineno:
            add(node.lineno, node.col_offset, node.end_col_offset, "pass", "drop call statement")
        elif isinstance(node, ast.AugAssign) and node.lineno == node.end_lineno:
            add(node.lineno, node.col_offset, node.end_col_offset, "pass", "drop augmented assignment")
        elif isinstance(node, ast.Subscript) and isinstance(node.slice, ast.Slice) and node.lineno == node.end_lineno:
            sl = node.slice
            if sl.lower is not None and sl.upper is None and sl.step is None and sl.lower.end_lineno == node.lineno:
                add(node.lineno, sl.lower.col_offset, sl.lower.end_col_offset, "", "drop slice lower bound")
    # unique by position + replacement
    seen, out = set(), []
    for m in muts:
        k = (m["line"], m["col"], m["end_col"], m["new"])
        if k not in seen:
            seen.add(k)
            out.append(m)
    return out


def apply_mutant(root: Path, m):
    p = root / m["file"]
    lines = (REPO / m["file"]).read_text().split("\n")
    # the mutant was enumerated on an earlier revision of the file: accept a shift of a few lines (a repair committed since)
    at = None
    for delta in (0, 1, -1, 2, -2, 3, -3, 4, -4, 5, -5, 6, -6, 8, -8):
        k = m["line"] - 1 + delta
        if 0 <= k < len(lines) and lines[k][m["col"]:m["end_col"]] == m["old"] and \
                (delta == 0 or lines[k].strip() == m.get("source_line", lines[k].strip())):
            at = k
            break
    if at is None:
        raise LookupError(f"mutation site not found any more: {m['file']}:{m['line']}")
    ln = lines[at]
    lines[at] = ln[:m["col"]] + m["new"] + ln[m["end_col"]:]
    p.write_text("\n".join(lines))


def restore(root: Path, m):
    shutil.copyfile(REPO / m["file"], root / m["file"])


def make_copies(n):
    shutil.rmtree(SCRATCH, ignore_errors=True)
    SCRATCH.mkdir(parents=True)
    roots = []
    for i in range(n):
        r = SCRATCH / f"w{i}"
        shutil.copytree(REPO, r, ignore=shutil.ignore_patterns(".git", "__pycache__", "*.pyc", ".pytest_cache"))
        roots.append(r)
    return roots


def sh(cmd, cwd=None, timeout=1800, env=None):
    e = dict(os.environ)
    e.update(env or {})
    try:
        r = subprocess.run(cmd, shell=True, cwd=cwd, capture_output=True, text=True, timeout=timeout, env=e)
        return r.returncode, r.stdout + r.stderr
    except subprocess.TimeoutExpired:
        return 124, "timeout"


def pool_map(fn, items, roots):
    """run fn(root, item) on a pool with one scratch copy per worker"""
    import queue
    q = queue.Queue()
    for r in roots:
        q.put(r)

    def one(it):
        r = q.get()
        try:
            return fn(r, it)
        finally:
            q.put(r)
    with ThreadPoolExecutor(max_workers=len(roots)) as ex:
        return list(ex.map(one, items))


def phase_enumerate():
    OUT.mkdir(parents=True, exist_ok=True)
    files = anchored_files()
    allm = []
    for rel in sorted(files):
        ms = enumerate_file(rel)
        for m in ms:
            m["properties"] = files[rel]
        allm += ms
    for i, m in enumerate(allm):
        m["id"] = i
    (OUT / "mutants.json").write_text(json.dumps(allm, indent=0))
    by = {}
    for m in allm:
        by[m["op"].split(" ")[0]] = by.get(m["op"].split(" ")[0], 0) + 1
    print(len(allm), "mutants", by)


def phase_tests(jobs):
    allm = json.loads((OUT / "mutants.json").read_text())
    done = json.loads((OUT / "tests.json").read_text()) if (OUT / "tests.json").exists() else {}
    todo = [m for m in allm if str(m["id"]) not in done]
    roots = make_copies(jobs)

    def one(root, m):
        apply_mutant(root, m)
        try:
            # does it still compile?
            rc, out = sh(f"/venv/bin/python -m py_compile {m['file']}", cwd=root)
            if rc != 0:
                return m["id"], "does-not-compile"
            rc, out = sh(PYTEST, cwd=root, timeout=900, env={"PYTHONPATH": str(root), "PYTHONDONTWRITEBYTECODE": "1"})
            tail = out.strip().splitlines()[-1] if out.strip() else ""
            return m["id"], ("survived" if rc == 0 else f"killed: {tail[:120]}")
        finally:
            restore(root, m)
    n = 0
    for chunk in [todo[i:i + 4 * jobs] for i in range(0, len(todo), 4 * jobs)]:
        for mid, res in pool_map(one, chunk, roots):
            done[str(mid)] = res
        n += len(chunk)
        (OUT / "tests.json").write_text(json.dumps(done, indent=0))
        s = sum(1 for v in done.values() if v == "survived")
        print(f"{len(done)}/{len(allm)} tested, {s} survived", flush=True)
    shutil.rmtree(SCRATCH, ignore_errors=True)


def phase_checks(jobs, flt=None):
    allm = {m["id"]: m for m in json.loads((OUT / "mutants.json").read_text())}
    tests = json.loads((OUT / "tests.json").read_text())
    respath = VERIF / "seeded" / "automut_results.json"
    res = json.loads(respath.read_text()) if respath.exists() else {}
    todo = [allm[int(k)] for k, v in tests.items() if v == "survived" and k not in res]
    if flt:
        todo = [m for m in todo if flt in m["file"]]
    roots = make_copies(jobs)

    def one(root, m):
        apply_mutant(root, m)
        ran = []
        caught = None
        try:
            for c in m["properties"]:
                rc, out = sh(f"./check {c} quick", cwd=VERIF, timeout=1500,
                             env={"VERIF_REPO": str(root), "VERIF_EVIDENCE_DIR": str(root / "_evid")})
                nv = sum(1 for ln in out.splitlines() if ln.startswith("VIOLATION"))
                ran.append(f"{c}:exit={rc},violations={nv}")
                if rc != 0:
                    caught = c
                    break
            return m["id"], {"file": m["file"], "line": m["line"], "op": m["op"], "old": m["old"], "new": m["new"],
                             "source_line": (REPO / m["file"]).read_text().split("\n")[m["line"] - 1].strip(),
                             "checks": ran, "caught_by": caught}
        finally:
            restore(root, m)
    for chunk in [todo[i:i + 2 * jobs] for i in range(0, len(todo), 2 * jobs)]:
        for mid, r in pool_map(one, chunk, roots):
            res[str(mid)] = r
        respath.write_text(json.dumps(res, indent=0))
        c = sum(1 for v in res.values() if v["caught_by"])
        print(f"{len(res)} survivors checked, {c} caught, {len(res) - c} uncaught", flush=True)
    shutil.rmtree(SCRATCH, ignore_errors=True)


LOG_WORDS = ("log(", "_log_line", "verbosity", "logger", "shortlog", "stdout", "highlighted", "as_error", "as_success", "as_warning",
             "_counted", "_padded", "get_status_string", "warn(", "print(", "colorama", "use_colors", "use_styles", "report +=",
             "_get_indented", "indentation", "cpu_time", "__version__")


def log_only(r):
    """the mutated line only produces console / report text (no property speaks about it)"""
    return any(w in r["source_line"] for w in LOG_WORDS)


def phase_checks_all(jobs):
    """second pass: survivors that the checks anchored in their file did not catch, and that are not log-only, against ALL other checks"""
    allm = {m["id"]: m for m in json.loads((OUT / "mutants.json").read_text())}
    respath = VERIF / "seeded" / "automut_results.json"
    res = json.loads(respath.read_text())
    todo = [k for k, r in res.items() if not r["caught_by"] and not log_only(r) and not r.get("all_checks_run")]
    roots = make_copies(jobs)
    # the checks that can see a change in the file at all (anchored ones first: they may have been strengthened since the first pass)
    AREA = {"_cli/": "C04 C12 C15 C18 C20 C14 C17 C19", "_numpy_utils": "C01 C09 C10 C02 C14 C03 C08 C19 C04",
            "predicates/": "C01 C09 C10 C11 C04 C19", "_field_": "C11 C03 C04 C15 C14 C20", "_matching": "C11 C12 C14",
            "_common.py": "C01 C09 C04", "_format": "C11 C04 C20", "io/": "C05 C13 C06 C07 C15 C18 C12 C04 C19",
            "mesh/": "C02 C03 C08 C16 C17 C06 C07 C14 C19 C13 C04", "tabular/": "C14 C13 C11 C04"}

    def checks_for(m):
        for key, val in AREA.items():
            if key in m["file"]:
                rest = [c for c in val.split() if c not in m["properties"]]
                return list(m["properties"]) + rest
        return list(m["properties"])

    def one(root, k):
        m = dict(allm[int(k)], source_line=res[k]["source_line"])
        r = dict(res[k])
        try:
            apply_mutant(root, m)
        except LookupError as e:
            r["all_checks_run"] = True
            r["note"] = str(e)
            return k, r
        try:
            r["checks"] = []
            for c in checks_for(m):
                rc, out = sh(f"./check {c} quick", cwd=VERIF, timeout=1500,
                             env={"VERIF_REPO": str(root), "VERIF_EVIDENCE_DIR": str(root / "_evid")})
                nv = sum(1 for ln in out.splitlines() if ln.startswith("VIOLATION"))
                r["checks"] = r["checks"] + [f"{c}:exit={rc},violations={nv}"]
                if rc != 0:
                    r["caught_by"] = c
                    break
            r["all_checks_run"] = True
            return k, r
        finally:
            restore(root, m)
    for chunk in [todo[i:i + 2 * jobs] for i in range(0, len(todo), 2 * jobs)]:
        for k, r in pool_map(one, chunk, roots):
            res[k] = r
        respath.write_text(json.dumps(res, indent=0))
        c = sum(1 for v in res.values() if v["caught_by"])
        print(f"second pass: {sum(1 for v in res.values() if v.get('all_checks_run'))}/{len(todo)} done, {c} caught in total", flush=True)
    shutil.rmtree(SCRATCH, ignore_errors=True)


if __name__ == "__main__":
    args = sys.argv[1:]
    jobs = 12
    if "-j" in args:
        i = args.index("-j")
        jobs = int(args[i + 1])
        del args[i:i + 2]
    if args[0] == "enumerate":
        phase_enumerate()
    elif args[0] == "tests":
        phase_tests(jobs)
    elif args[0] == "checks":
        phase_checks(jobs, args[1] if len(args) > 1 else None)
    elif args[0] == "checks-all":
        phase_checks_all(jobs)
