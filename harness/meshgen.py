"""Generators of small meshes with exact (dyadic) coordinates, relabelings, single-site modifications and the
exact-arithmetic content used by the oracles of the mesh family (C02, C03, C08, C14, C16, C17, C19).

A mesh data set is a dict
  {"dim": d, "pts": [[Fraction]*d], "blocks": [[type_name, [[corner,...],...]], ...],
   "pf": {name: [row,...]}, "cf": {name: {type_name: [row,...]}}}
rows are Fractions (scalar fields), lists (vector fields) or lists of lists (tensor fields).
"""
from __future__ import annotations

from fractions import Fraction as Fr

import numpy as np

VTK_ID = {"VERTEX": 1, "LINE": 3, "TRIANGLE": 5, "POLYGON": 7, "PIXEL": 8, "QUAD": 9, "TETRA": 10, "VOXEL": 11,
          "HEXAHEDRON": 12, "PYRAMID": 14}
COMPAT = {"PIXEL": "QUAD", "QUAD": "PIXEL", "VOXEL": "HEXAHEDRON", "HEXAHEDRON": "VOXEL"}


def lattice_points(n, dim, rng, style):
    """points of an (nx+1) x (ny+1) [x (nz+1)] lattice, x fastest; returns (pts, index function)"""
    nx, ny, nz = (list(n) + [0, 0])[:3]
    scale = Fr(2) ** rng.choice([-20, -3, 0, 0, 2, 10, 20])
    off = [Fr(rng.choice([0, 0, 1, -3, 2 ** 10])) * scale for _ in range(3)]
    shear = Fr(1, 2) if style == "sheared" else Fr(0)
    pts = []
    for k in range(nz + 1):
        for j in range(ny + 1):
            for i in range(nx + 1):
                x = (Fr(i) + shear * j) * scale + off[0]
                y = (Fr(j) + (shear * i if style == "sheared2" else 0)) * scale + off[1]
                z = Fr(k) * scale + off[2]
                if style == "jitter":
                    x += Fr(rng.randint(-64, 64), 512) * scale
                    y += Fr(rng.randint(-64, 64), 512) * scale
                    z += Fr(rng.randint(-64, 64), 512) * scale if nz else 0
                pts.append([x, y, z][:dim])
    idx = lambda i, j=0, k=0: k * (ny + 1) * (nx + 1) + j * (nx + 1) + i  # noqa: E731
    return pts, idx


def gen_mesh(rng, max_cells=8, allow=("line", "tri", "quad", "pixel", "tet", "hex", "voxel", "polygon")):
    kind = rng.choice(["2d", "2d", "2d", "1d", "3d", "2d_in_3d", "2d_in_3d"])
    style = rng.choice(["lattice", "lattice", "sheared", "jitter", "sheared2"])
    blocks = {}

    def add(t, c):
        blocks.setdefault(t, []).append(list(c))

    if kind == "1d":
        nx = rng.randint(1, max_cells)
        dim = rng.choice([1, 2, 3])
        pts, I = lattice_points([nx], dim, rng, "lattice" if dim == 1 else style)
        for i in range(nx):
            add("LINE", [I(i), I(i + 1)])
    elif kind in ("2d", "2d_in_3d"):
        nx, ny = rng.randint(1, 3), rng.randint(1, 3)
        dim = 2 if kind == "2d" else 3
        pts, I = lattice_points([nx, ny], dim, rng, style)
        cellkind = rng.choice(["quad", "tri", "mixed", "pixel", "polygon", "mixed"])
        for j in range(ny):
            for i in range(nx):
                q = [I(i, j), I(i + 1, j), I(i + 1, j + 1), I(i, j + 1)]
                # (mixed meshes may hold both members of a compatible pair, QUAD and PIXEL, at once)
                ck = cellkind if cellkind != "mixed" else rng.choice(["quad", "tri", "polygon", "pixel"])
                if ck == "quad":
                    add("QUAD", q)
                elif ck == "pixel":
                    add("PIXEL", [q[0], q[1], q[3], q[2]])
                elif ck == "tri":
                    add("TRIANGLE", [q[0], q[1], q[2]])
                    add("TRIANGLE", [q[0], q[2], q[3]])
                else:
                    if rng.random() < 0.5:
                        add("POLYGON", q)
                    else:
                        add("POLYGON", [q[0], q[1], q[2]])
                        add("POLYGON", [q[0], q[2], q[3]])
    else:
        nx, ny, nz = rng.randint(1, 2), rng.randint(1, 2), rng.randint(1, 2)
        dim = 3
        pts, I = lattice_points([nx, ny, nz], 3, rng, style)
        cellkind0 = rng.choice(["hex", "voxel", "tet", "hexvoxel"])
        for k in range(nz):
            for j in range(ny):
                for i in range(nx):
                    c = [I(i, j, k), I(i + 1, j, k), I(i + 1, j + 1, k), I(i, j + 1, k),
                         I(i, j, k + 1), I(i + 1, j, k + 1), I(i + 1, j + 1, k + 1), I(i, j + 1, k + 1)]
                    cellkind = cellkind0 if cellkind0 != "hexvoxel" else rng.choice(["hex", "voxel"])
                    if cellkind == "hex":
                        add("HEXAHEDRON", c)
                    elif cellkind == "voxel":
                        add("VOXEL", [c[0], c[1], c[3], c[2], c[4], c[5], c[7], c[6]])
                    else:
                        for tet in ([0, 1, 3, 4], [1, 2, 3, 6], [1, 4, 5, 6], [3, 4, 6, 7], [1, 3, 4, 6]):
                            add("TETRA", [c[t] for t in tet])
    order = list(blocks)
    rng.shuffle(order)
    M = {"dim": dim, "pts": pts, "blocks": [[t, blocks[t]] for t in order], "pf": {}, "cf": {}}
    return M


def add_fields(rng, M, kinds=("scalar", "vector", "int")):
    n = len(M["pts"])
    val = lambda: Fr(rng.randint(-1000, 1000), 8)  # noqa: E731
    if "scalar" in kinds:
        M["pf"]["p"] = [val() for _ in range(n)]
    if "vector" in kinds and rng.random() < 0.7:
        M["pf"]["v"] = [[val() for _ in range(M["dim"])] for _ in range(n)]
    if "tensor" in kinds and rng.random() < 0.5:
        M["pf"]["t"] = [[[val() for _ in range(M["dim"])] for _ in range(M["dim"])] for _ in range(n)]
    if "int" in kinds and rng.random() < 0.5:
        M["pf"]["id"] = [rng.randint(0, 99) for _ in range(n)]
    if rng.random() < 0.8:
        M["cf"]["c"] = {t: [val() for _ in rows] for t, rows in M["blocks"]}
    if "vector" in kinds and rng.random() < 0.4:
        M["cf"]["cv"] = {t: [[val() for _ in range(M["dim"])] for _ in rows] for t, rows in M["blocks"]}
    if rng.random() < 0.12:
        # a cell field whose OWN name holds the separator the library puts between a cell field's name and its cell type
        M["cf"]["q @ s"] = {t: [val() for _ in rows] for t, rows in M["blocks"]}
    return M


def add_orphans(rng, M, k=None):
    k = rng.randint(1, 3) if k is None else k
    # orphan points are pairwise distinct, outside the bounding box of the mesh but of comparable magnitude (so that they do
    # not inflate the magnitude-based default tolerance); coinciding unconnected points cannot be ordered (documented)
    lo = [min(p[d] for p in M["pts"]) for d in range(M["dim"])]
    hi = [max(p[d] for p in M["pts"]) for d in range(M["dim"])]
    ext = max([h - l for h, l in zip(hi, lo)] + [Fr(0)])
    if ext == 0:
        ext = max(max_abs_coord(M), Fr(1))
    for _ in range(k):
        pos = rng.randrange(len(M["pts"]) + 1)
        M["_orph"] = M.get("_orph", 0) + 1
        p = [hi[d] + ext * Fr(M["_orph"] * 4 + rng.randint(1, 3), 8) for d in range(M["dim"])]
        insert_point(M, pos, p, rng)
    return M


def insert_point(M, pos, p, rng):
    M["pts"].insert(pos, p)
    for t, rows in M["blocks"]:
        for r in rows:
            for a in range(len(r)):
                if r[a] >= pos:
                    r[a] += 1
    for name, rows in M["pf"].items():
        proto = rows[0] if rows else Fr(0)
        rows.insert(pos, zero_like(proto, rng))


def zero_like(proto, rng):
    if isinstance(proto, list):
        return [zero_like(x, rng) for x in proto]
    if isinstance(proto, int):
        return rng.randint(0, 9)
    return Fr(rng.randint(-9, 9))


def make_discontinuous(rng, M):
    """duplicate every point per cell (coincident points belonging to different cells), as in DG / non-conforming meshes"""
    new_pts, new_pf = [], {k: [] for k in M["pf"]}
    for t, rows in M["blocks"]:
        for r in rows:
            for a in range(len(r)):
                old = r[a]
                new_pts.append(list(M["pts"][old]))
                for k in M["pf"]:
                    new_pf[k].append(M["pf"][k][old])
                r[a] = len(new_pts) - 1
    M["pts"], M["pf"] = new_pts, new_pf
    return M


def make_interface(rng, M):
    """an internal interface (fracture, material boundary, DG patch): the cells are split into two groups and every point used by
    both groups is stored twice, one copy per group — coincident points that each belong to SEVERAL cells"""
    cells = [(bi, j) for bi, (t, rows) in enumerate(M["blocks"]) for j in range(len(rows))]
    if len(cells) < 2:
        return False
    group = {c: rng.random() < 0.5 for c in cells}
    if len(set(group.values())) < 2:
        group[cells[0]] = not group[cells[-1]]
    used = {True: set(), False: set()}
    for (bi, j), g in group.items():
        used[g].update(M["blocks"][bi][1][j])
    shared = sorted(used[True] & used[False])
    if not shared:
        return False
    copy_of = {}
    for p in shared:
        copy_of[p] = len(M["pts"])
        M["pts"].append(list(M["pts"][p]))
        for k in M["pf"]:
            M["pf"][k].append(M["pf"][k][p])
    for (bi, j), g in group.items():
        if g:
            row = M["blocks"][bi][1][j]
            for a in range(len(row)):
                row[a] = copy_of.get(row[a], row[a])
    return True


def copy_mesh(M):
    M = {k: v for k, v in M.items() if k != "_orph"}
    return _copy_mesh(M)


def _copy_mesh(M):
    def cp(x):
        if isinstance(x, list):
            return [cp(v) for v in x]
        if isinstance(x, dict):
            return {k: cp(v) for k, v in x.items()}
        return x
    return cp(M)


def reorder_points(M, order):
    """the same mesh with its points stored in the given order (order[k] = old index of the new point k)"""
    inv = {o: k for k, o in enumerate(order)}
    N = copy_mesh(M)
    N["pts"] = [list(M["pts"][o]) for o in order]
    N["pf"] = {name: [rows[o] for o in order] for name, rows in M["pf"].items()}
    N["blocks"] = [[t, [[inv[c] for c in r] for r in rows]] for t, rows in M["blocks"]]
    return N


def relabel(rng, M, points=True, cells=True, blocks=True, how=None, rotate=False):
    """same mesh, different storage order; returns (new mesh, point perm: new k holds old perm[k], cell perms per type)"""
    N = copy_mesh(M)
    n = len(M["pts"])
    perm = list(range(n))
    if points:
        how = how or rng.choice(["random", "random", "reverse", "swap"])
        if how == "random":
            rng.shuffle(perm)
        elif how == "reverse":
            perm.reverse()
        elif n >= 2:
            i, j = rng.sample(range(n), 2)
            perm[i], perm[j] = perm[j], perm[i]
    inv = [0] * n
    for k, o in enumerate(perm):
        inv[o] = k
    N["pts"] = [list(M["pts"][o]) for o in perm]
    N["pf"] = {name: [rows[o] for o in perm] for name, rows in M["pf"].items()}
    cperms = {}
    newblocks = []
    for t, rows in M["blocks"]:
        cp_ = list(range(len(rows)))
        if cells:
            rng.shuffle(cp_)
        cperms[t] = cp_
        nb = [[inv[c] for c in rows[o]] for o in cp_]
        if rotate and cells and t in ("TRIANGLE", "QUAD", "POLYGON"):
            # the same cell listed from another start corner (a cyclic rotation keeps the cell and its orientation)
            nb = [(r[k:] + r[:k]) if rng.random() < 0.3 else r for r in nb for k in [rng.randrange(len(r))]]
        newblocks.append([t, nb])
    if blocks:
        rng.shuffle(newblocks)
    N["blocks"] = newblocks
    N["cf"] = {name: {t: [per[t][o] for o in cperms[t]] for t in per} for name, per in M["cf"].items()}
    return N, perm, cperms


def add_noise(rng, M, eps):
    """perturb every coordinate independently by at most eps (dyadic)"""
    for p in M["pts"]:
        for d in range(len(p)):
            p[d] = p[d] + eps * Fr(rng.randint(-8, 8), 8)
    return M


def dyadic_tol(M, factor=1):
    """a power of two >= factor * (default mesh tolerance 1e-8 * max|coordinate|)"""
    mx = max(max_abs_coord(M), Fr(1, 2 ** 40))
    t = Fr(1, 2 ** 80)
    while t < mx * factor / 10 ** 8:
        t *= 2
    return t


def max_abs_coord(M):
    return max([abs(x) for p in M["pts"] for x in p] + [Fr(0)])


# ------------------------------------------------------------------------------------------------
def padded(p, dim=3):
    return tuple(list(p) + [Fr(0)] * (dim - len(p)))


def freeze(x):
    if isinstance(x, list):
        return tuple(freeze(v) for v in x)
    return x


def content(M, corner_sets=True, pad=True, type_class=True):
    """exact content: (sorted multiset of (coords, point rows) over CONNECTED points,
                       sorted multiset of (cell type class, corner coords, cell rows))"""
    used = sorted({c for _, rows in M["blocks"] for r in rows for c in r})
    P = lambda p: padded(p) if pad else tuple(p)  # noqa: E731
    pc = sorted((P(M["pts"][i]), tuple((name, freeze(M["pf"][name][i])) for name in sorted(M["pf"]))) for i in used)
    cc = []
    for t, rows in M["blocks"]:
        tc = min(t, COMPAT.get(t, t)) if type_class else t
        for j, r in enumerate(rows):
            coords = [P(M["pts"][c]) for c in r]
            coords = tuple(sorted(coords)) if corner_sets else tuple(coords)
            cc.append((tc, coords, tuple((name, freeze(M["cf"][name][t][j])) for name in sorted(M["cf"]) if t in M["cf"][name])))
    cc.sort()
    return pc, cc


def has_coincident_points(M):
    used = sorted({c for _, rows in M["blocks"] for r in rows for c in r})
    seen = set()
    for i in used:
        k = tuple(M["pts"][i])
        if k in seen:
            return True
        seen.add(k)
    return False


# ------------------------------------------------------------------------------------------------
def to_numpy_rows(rows, dtype=float):
    from .predfam import with_memory_layout
    return with_memory_layout(np.array([to_float(r) for r in rows], dtype=dtype)) if rows else np.zeros((0,), dtype=dtype)


def to_float(x):
    if isinstance(x, list):
        return [to_float(v) for v in x]
    return float(x) if isinstance(x, Fr) else x


def connectivity_array(rows):
    if len({len(r) for r in rows}) <= 1:
        return np.array(rows, dtype=np.int64).reshape(len(rows), len(rows[0]) if rows else 0)
    out = np.empty(len(rows), dtype=object)
    for i, r in enumerate(rows):
        out[i] = np.array(r, dtype=np.int64)
    return out


def to_fieldcompare(M, extra_point=None, extra_cell=None):
    """build fieldcompare.mesh.MeshFields through the public API"""
    from fieldcompare.mesh import Mesh, MeshFields, CellType
    from .predfam import with_memory_layout
    pts = with_memory_layout(np.array([[float(x) for x in p] for p in M["pts"]], dtype=float).reshape(len(M["pts"]), M["dim"]))
    if M.get("ptype") == "float32" and all(float(np.float32(float(x))) == float(x) for p in M["pts"] for x in p):
        pts = with_memory_layout(pts.astype(np.float32))           # coordinates stored in single precision (exactly representable)

    ncorn = {"VERTEX": 1, "LINE": 2, "TRIANGLE": 3, "QUAD": 4, "PIXEL": 4, "TETRA": 4, "HEXAHEDRON": 8, "VOXEL": 8}

    def conn_(t, rows):
        if not rows:
            return np.zeros((0, ncorn.get(t, 0)), dtype=np.int64)       # a cell type without cells
        c = connectivity_array(rows)
        return with_memory_layout(c) if c.dtype != object else c
    mesh = Mesh(pts, [(CellType.from_name(t), conn_(t, rows)) for t, rows in M["blocks"]])
    pd = {}
    for name, rows in M["pf"].items():
        isint = rows and isinstance(first_scalar(rows[0]), int)
        pd[name] = to_numpy_rows(rows, dtype=np.int64 if isint else float)
    if extra_point:
        pd.update(extra_point)
    cd = {}
    for name, per in M["cf"].items():
        cd[name] = [to_numpy_rows(per[t], dtype=np.int64 if (per[t] and isinstance(first_scalar(per[t][0]), int)) else float)
                    for t, _ in M["blocks"]]
    if extra_cell:
        cd.update(extra_cell)
    return MeshFields(mesh, pd, cd)


def first_scalar(x):
    while isinstance(x, list):
        x = x[0]
    return x


def from_fieldcompare(fields, dim=None):
    """exact mesh dict from any MeshFields-like object via the public accessors (values are exact dyadics)"""
    dom = fields.domain
    P = np.asarray(dom.points)
    M = {"dim": P.shape[1] if P.ndim == 2 else (dim or 0), "pts": [[Fr(float(x)) for x in p] for p in P], "blocks": [], "pf": {}, "cf": {}}
    for ct in dom.cell_types:
        conn = dom.connectivity(ct)
        M["blocks"].append([ct.name, [[int(c) for c in row] for row in conn]])
    for f in fields.point_fields:
        M["pf"][f.name] = exact_rows(f.values)
    for f, ct in fields.cell_fields_types:
        name = f.name.rsplit(" @ ", 1)[0]
        M["cf"].setdefault(name, {})[ct.name] = exact_rows(f.values)
    return M


def exact_rows(a):
    a = np.asarray(a)
    if a.dtype.kind in "iu":
        return a.tolist()

    def ex(x):
        if isinstance(x, list):
            return [ex(v) for v in x]
        return Fr(float(x))
    return ex(a.tolist())
