"""Seed regression (not a registered check): every seeded change kept under /verif/seeded/<id>-<k>/ is applied to a scratch copy of the
current /repo and the check that caught it when it was filed is run again.  Usage (from /verif):
    /venv/bin/python -m harness.seedregress [-j N] [filter]      -> seeded/seed_regression.json
A patch that no longer applies (the code it touched was repaired since) is reported as such, not as a miss."""
from __future__ import annotations

import json
import shutil
import subprocess
import sys
from pathlib import Path

from .automut import REPO, VERIF, pool_map, sh

SCRATCH = Path("/tmp/seedregress")


def main():
    args = sys.argv[1:]
    jobs = 8
    if "-j" in args:
        i = args.index("-j")
        jobs = int(args[i + 1])
        del args[i:i + 2]
    flt = args[0] if args else ""
    seeds = sorted(p for p in (VERIF / "seeded").iterdir() if p.is_dir() and (p / "patch.diff").exists() and flt in p.name)
    shutil.rmtree(SCRATCH, ignore_errors=True)
    SCRATCH.mkdir(parents=True)
    roots = []
    for i in range(jobs):
        r = SCRATCH / f"w{i}"
        shutil.copytree(REPO, r, ignore=shutil.ignore_patterns(".git", "__pycache__", "*.pyc", ".pytest_cache"))
        roots.append(r)
    outp = VERIF / "seeded" / "seed_regression.json"
    res = json.loads(outp.read_text()) if outp.exists() and flt else {}

    def one(root, seed):
        meta = json.loads((seed / "meta.json").read_text())
        ran = [c.split(":")[0] for c in meta.get("checks_run_against_change", []) if "exit=1" in c] or [meta["property"]]
        own = meta["property"]
        checks = [own] + [c for c in ran if c != own]
        rc, out = sh(f"patch -p1 --no-backup-if-mismatch -s < {seed / 'patch.diff'}", cwd=root)
        try:
            if rc != 0:
                return seed.name, {"status": "patch no longer applies", "detail": out.strip().splitlines()[-1][:160] if out.strip() else ""}
            results = []
            caught = None
            for c in checks:
                rc, out = sh(f"./check {c} quick", cwd=VERIF, timeout=1500,
                             env={"VERIF_REPO": str(root), "VERIF_EVIDENCE_DIR": str(root / "_evid")})
                nv = sum(1 for ln in out.splitlines() if ln.startswith("VIOLATION"))
                results.append(f"{c}:exit={rc},violations={nv}")
                if rc != 0:
                    caught = c
                    break
            return seed.name, {"status": "caught" if caught else "MISSED", "caught_by": caught, "checks": results}
        finally:
            # restore the scratch copy from /repo
            subprocess.run(["rsync", "-a", "--delete", "--exclude", ".git", "--exclude", "_evid", "--exclude", "__pycache__",
                            str(REPO) + "/", str(root) + "/"], check=False)
    for chunk in [seeds[i:i + 2 * jobs] for i in range(0, len(seeds), 2 * jobs)]:
        for name, r in pool_map(one, chunk, roots):
            res[name] = r
        outp.write_text(json.dumps(res, indent=1, sort_keys=True))
        print(f"{len(res)} seeds re-run: {sum(1 for v in res.values() if v['status'] == 'caught')} caught, "
              f"{sum(1 for v in res.values() if v['status'] == 'MISSED')} missed, "
              f"{sum(1 for v in res.values() if v['status'].startswith('patch'))} patches no longer apply", flush=True)
    shutil.rmtree(SCRATCH, ignore_errors=True)


if __name__ == "__main__":
    main()
