"""C14 — diff output is reference minus source on matching entities.

T2: `a.diff_to(b)` on tabular and mesh pairs with overlapping field sets vs Model.Diff (exact dyadic values);
CLI `--diff`: the written diff_<name> file is decoded independently and compared with reference - source on matched
entities (through the known relabeling for permuted meshes: the written differences must be zero / the known deltas).
Oracle: the statement, in Fractions.
"""
from __future__ import annotations

import base64
import math
import os
import re
import shutil
import struct
import warnings
from fractions import Fraction as Fr

import numpy as np

from . import lib, meshgen as G
from . import vtkenc as V
from .clicommon import run_cli, write_csv, DSV_OPT
from .lib import clist, cnat

HEADER = """From Coq Require Import QArith Arith Bool List.
From FC Require Import Model.Scalar Model.Compare Model.Diff.
Import ListNotations.
Definition qo (o : option Q) : option (Z * Z) := match o with Some q => let r := Qred q in Some (Qnum r, Zpos (Qden r)) | None => None end.
Definition outT (l : list (nat * list (option Q))) := map (fun c => (fst c, map qo (snd c))) l.
Definition outM (o : option (list (nat * list (option Q)))) := match o with Some l => Some (outT l) | None => None end.
"""
NAMES = ["a", "b", "c", "d", "e", "f"]


def cols_expr(cols, nid):
    return clist([f"({cnat(nid[n])}, {clist([lib.cq(v) for v in vals], 'Q')})" for n, vals in cols], "column")


def decode_cols(val, names):
    out = {}
    for n, vals in val:
        out[names[n]] = [None if v == "None" else Fr(v[1][0], v[1][1]) for v in vals]
    return out


def impl_values(arr):
    a = np.asarray(arr).reshape(-1)
    if a.dtype.kind in "iu":
        return [Fr(int(x)) for x in a]
    return [None if math.isnan(x) else Fr(float(x)) for x in np.asarray(a, dtype=float)]


DTYPES = ["f8", "f8", "f8", "f4", "i8", "i4", "i1", "u1", "u2", "u8"]


def draw(rng, dt, big_ok=False):
    """an exactly representable value of the numeric type (big_ok: int64 values that double precision cannot hold — only where
    the difference is formed in integers on both sides)"""
    if dt[0] == "f":
        return Fr(rng.randint(-64, 64), 8)
    info = np.iinfo(dt)
    if rng.random() < 0.3:
        if info.max <= 2 ** 32:
            return rng.choice([info.min, info.max, 0, min(info.max, 200)])
        if info.min < 0 and big_ok:  # int64: also values that double precision cannot hold (their differences stay exact)
            return rng.choice([0, 2 ** 40, -(2 ** 40), 2 ** 53 + 1, 2 ** 60 + 1, 2 ** 60, -(2 ** 60) - 3])    # (differences fit int64)
        if info.min < 0:
            return rng.choice([0, 2 ** 40, -(2 ** 40)])
        return rng.choice([0, 2 ** 40, 7])
    return rng.randint(max(info.min, -100), min(info.max, 100))


def np_col(vals, dt):
    from .predfam import with_memory_layout
    return with_memory_layout(np.array([float(v) if dt[0] == "f" else int(v) for v in vals], dtype=dt))


def gen_table(rng):
    k = rng.randint(1, 5)
    base = rng.sample(NAMES, k)
    ns, nr = rng.randint(0, 4), rng.randint(0, 4)
    if rng.random() < 0.6:
        nr = ns
    dts = {"src": {n: rng.choice(DTYPES) for n in base}, "ref": {n: rng.choice(DTYPES) for n in base}}
    for n in base:
        if rng.random() < 0.6:
            dts["ref"][n] = dts["src"][n]
    src = [(n, [draw(rng, dts["src"][n]) for _ in range(ns)]) for n in base if rng.random() < 0.75]
    ref = [(n, [draw(rng, dts["ref"][n]) for _ in range(nr)]) for n in base if rng.random() < 0.75]
    rng.shuffle(src)
    rng.shuffle(ref)
    c = {"kind": "table", "src_rows": ns, "ref_rows": nr, "src": src, "ref": ref, "src_idx": None, "ref_idx": None, "dtypes": dts}
    # tables may carry a row index map (reordering / filtering view of the stored columns)
    for side, n in (("src", ns), ("ref", nr)):
        if n and rng.random() < 0.4:
            idx = list(range(n))
            rng.shuffle(idx)          # (the constructor requires stored columns as long as the index map: a row permutation)
            stored = n
            c[side + "_idx"] = idx
            c[side + "_stored"] = [(nm, [draw(rng, dts[side][nm]) for _ in range(stored)]) for nm, _ in c[side]]
            # logical columns = stored[idx]
            c[side] = [(nm, [vals[i] for i in idx]) for nm, vals in c[side + "_stored"]]
            c[side + "_rows"] = len(idx)
    return c


def run_table(c):
    from fieldcompare.tabular import Table, TabularFields

    def dt(side, n):
        return c.get("dtypes", {}).get(side, {}).get(n, "f8")

    def mk(side):
        if c.get(side + "_idx") is not None:
            return TabularFields(Table(idx_map=np.array(c[side + "_idx"], dtype=np.int64)),
                                 {n: np_col(vals, dt(side, n)) for n, vals in c[side + "_stored"]})
        return TabularFields(Table(num_rows=c[side + "_rows"]), {n: np_col(vals, dt(side, n)) for n, vals in c[side]})
    a, b = mk("src"), mk("ref")
    d = a.diff_to(b)
    out = {"rows": d.domain.number_of_rows, "fields": {f.name: impl_values(f.values) for f in d}}
    d2 = a.diff_to(b)           # the same objects once more: same difference, and the first result is left alone
    again = {f.name: impl_values(f.values) for f in d2}
    if again != out["fields"] or {f.name: impl_values(f.values) for f in d} != out["fields"]:
        out["repeat_differs"] = True
    return out


EXACT_INT = ("i8", "i4", "i1", "u1", "u2")


def expected_diff(r, s_, dt_r, dt_s):
    """reference minus source: exact when both sides hold integers other than uint64 (the library subtracts them as int64);
    otherwise the double-precision difference of the two values (one side is floating point, or uint64, which the library
    subtracts as floats) — the same thing for all values that double precision holds exactly"""
    if dt_r in EXACT_INT and dt_s in EXACT_INT:
        return r - s_
    return Fr(float(r) - float(s_))


WHAT_TABLE_ROUNDING = ("F-C14b: the difference of two INTEGER table columns is delivered in a double-precision column (tables carry NaN "
                       "for missing rows), so a difference beyond 2^53 comes back rounded to the nearest double")


def table_diff_only_rounded(c, im, orc):
    """every entry in which the implementation deviates from the exact difference belongs to a column that is integer-typed
    (not uint64) on both sides, the exact difference is not a double, and the implementation delivers the nearest double"""
    dts = c.get("dtypes", {})
    seen = False
    for name, want in orc["fields"].items():
        got = im["fields"].get(name)
        if got is None or len(got) != len(want):
            return False
        for g, w in zip(got, want):
            if g == w:
                continue
            if not (dts.get("ref", {}).get(name) in EXACT_INT and dts.get("src", {}).get(name) in EXACT_INT):
                return False
            if g is None or w is None or Fr(float(w)) == w or g != Fr(float(w)):
                return False
            seen = True
    return seen and set(im["fields"]) == set(orc["fields"])


def oracle_table(c):
    n = max(c["src_rows"], c["ref_rows"])
    S, R = dict(c["src"]), dict(c["ref"])
    out = {}
    for name in set(S) | set(R):
        if name in S and name in R:
            m = min(len(S[name]), len(R[name]))
            dr, ds = c.get("dtypes", {}).get("ref", {}).get(name, "f8"), c.get("dtypes", {}).get("src", {}).get(name, "f8")
            out[name] = [expected_diff(R[name][i], S[name][i], dr, ds) for i in range(m)] + [None] * (n - m)
        else:
            out[name] = [None] * n
    return {"rows": n, "fields": out}


def gen_mesh_case(rng):
    M = G.gen_mesh(rng, max_cells=4)
    n = len(M["pts"])
    base = rng.sample(NAMES, rng.randint(1, 4))
    dts = {"src": {nm: rng.choice(DTYPES) for nm in base}, "ref": {nm: rng.choice(DTYPES) for nm in base}}
    for nm in base:
        if rng.random() < 0.6:
            dts["ref"][nm] = dts["src"][nm]

    big = {nm: dts["src"][nm] in EXACT_INT and dts["ref"][nm] in EXACT_INT for nm in base}

    def side(which):
        pf = {nm: [draw(rng, dts[which][nm], big[nm]) for _ in range(n)] for nm in base if rng.random() < 0.6}
        cf = {nm: {t: [draw(rng, dts[which][nm], big[nm]) for _ in rows] for t, rows in M["blocks"]} for nm in base if rng.random() < 0.5}
        return pf, cf
    (ps, cs), (pr, cr) = side("src"), side("ref")
    if rng.random() < 0.2:
        # a cell field whose own name holds the separator that precedes the cell type in a cell field's full name
        nm = "q @ s"
        dts["src"][nm] = dts["ref"][nm] = "f8"
        cs[nm] = {t: [draw(rng, "f8") for _ in rows] for t, rows in M["blocks"]}
        if rng.random() < 0.7:
            cr[nm] = {t: [draw(rng, "f8") for _ in rows] for t, rows in M["blocks"]}
    order = list(range(len(M["blocks"])))
    if rng.random() < 0.5:
        rng.shuffle(order)
    return {"kind": "mesh", "mesh": M, "src": {"pf": ps, "cf": cs}, "ref": {"pf": pr, "cf": cr},
            "same_domain": rng.random() < 0.85, "ref_block_order": order, "dtypes": dts}


def mesh_cols(c, side):
    cols = [(nm, vals) for nm, vals in c[side]["pf"].items()]
    for nm, per in c[side]["cf"].items():
        for t, _ in c["mesh"]["blocks"]:
            cols.append((f"{nm} @ {t}", per[t]))
    return cols


def run_mesh(c):
    A = dict(c["mesh"], pf={}, cf={})
    B = dict(c["mesh"], pf={}, cf={})
    B["blocks"] = [c["mesh"]["blocks"][i] for i in c.get("ref_block_order", range(len(c["mesh"]["blocks"])))]
    if not c["same_domain"]:
        B = G.copy_mesh(B)
        B["pts"][0][0] += 1000

    def arrays(side, X):
        dts = c.get("dtypes", {}).get(side, {})
        pd = {nm: np_col(vals, dts.get(nm, "f8")) for nm, vals in c[side]["pf"].items()}
        cd = {nm: [np_col(per[t], dts.get(nm, "f8")) for t, _ in X["blocks"]] for nm, per in c[side]["cf"].items()}
        return pd, cd
    a, b = G.to_fieldcompare(A, *arrays("src", A)), G.to_fieldcompare(B, *arrays("ref", B))
    try:
        d = a.diff_to(b)
    except RuntimeError as e:
        return {"raised": str(e)}
    out = {f.name: impl_values(f.values) for f in d}
    same_mesh = bool(d.domain.equals(b.domain))
    res = {"fields": out, "domain_is_reference": same_mesh}
    again = {f.name: impl_values(f.values) for f in a.diff_to(b)}
    if again != out or {f.name: impl_values(f.values) for f in d} != out:
        res["repeat_differs"] = True
    return res


def oracle_mesh(c):
    if not c["same_domain"]:
        return {"raised": True}
    S, R = dict(mesh_cols(c, "src")), dict(mesh_cols(c, "ref"))
    out = {}
    for name in set(S) | set(R):
        if name in S and name in R:
            base = name.split(" @ ")[0]
            dts = c.get("dtypes", {})
            dr, ds = dts.get("ref", {}).get(base, "f8"), dts.get("src", {}).get(base, "f8")
            out[name] = [expected_diff(r, s_, dr, ds) for r, s_ in zip(R[name], S[name])]
        else:
            out[name] = [None] * len(S.get(name, R.get(name)))
    return {"fields": out}


# ------------------------------------------------------------------------------------------------
def decode_vtu_inline(path):
    """independent minimal decoder for the writer's output: inline base64 arrays with a UInt64 byte-count header"""
    import xml.etree.ElementTree as ET
    root = ET.parse(path).getroot()
    bo = "<" if root.get("byte_order") == "LittleEndian" else ">"
    out = {"point": {}, "cell": {}}
    piece = root.find("UnstructuredGrid/Piece")

    def arr(e):
        raw = base64.b64decode(e.text.strip())
        n = struct.unpack(bo + "Q", raw[:8])[0]
        code, size = V.VTK_TYPES[e.get("type")]
        vals = struct.unpack(f"{bo}{n // size}{code}", raw[8:8 + n])
        return list(vals), int(e.get("NumberOfComponents", "1"))
    for e in piece.find("PointData"):
        out["point"][e.get("Name")] = arr(e)
    for e in piece.find("CellData"):
        out["cell"][e.get("Name")] = arr(e)
    out["points"] = arr(piece.find("Points/DataArray"))[0]
    cells = {e.get("Name"): arr(e)[0] for e in piece.find("Cells")}
    out["cells"] = cells
    return out


def cli_diff_case(ctx, rng, workdir, idx):
    """fieldcompare file res ref --diff on permuted meshes with a known field perturbation: the written differences must be
    the known deltas at the known coordinates (zero where nothing was changed)"""
    M = G.gen_mesh(rng, max_cells=4)
    if G.has_coincident_points(M) or any(len({len(r) for r in rows}) > 1 for _, rows in M["blocks"]):
        return      # (polygons with differing corner counts inside one .vtu are exercised by C05)
    n = len(M["pts"])
    M["pf"]["u"] = [Fr(rng.randint(-64, 64), 8) for _ in range(n)]
    N, perm, _ = G.relabel(rng, M, blocks=False, rotate=rng.random() < 0.5)
    delta = {}
    if rng.random() < 0.6:
        j = rng.randrange(n)
        d = Fr(rng.randint(1, 16), 4)
        N["pf"]["u"][perm.index(j)] += d          # reference value at original point j is larger by d
        delta[tuple(G.padded(M["pts"][j]))] = d
    d_ = os.path.join(workdir, f"diff{idx}")
    os.makedirs(d_)
    try:
        paths = {}
        for nm, X in (("res", M), ("ref", N)):
            pts = [[float(x) for x in G.padded(p)] for p in X["pts"]]
            cells = [(G.VTK_ID[t], r) for t, rows in X["blocks"] for r in rows]
            V.write_vtu(os.path.join(d_, nm + ".vtu"), pts, cells, [("u", "Float64", 1, [float(v) for v in X["pf"]["u"]])], [], V.Cfg("binary"))
            paths[nm] = os.path.join(d_, nm + ".vtu")
        with warnings.catch_warnings():
            warnings.simplefilter("ignore")
            # mesh options that change nothing for these files (no unconnected points, both sides stored with three coordinates)
            extra = rng.choice([[], [], ["--disable-mesh-orphan-point-removal"], ["--disable-mesh-space-dimension-matching"],
                                ["--disable-mesh-orphan-point-removal", "--disable-mesh-space-dimension-matching"]])
            rc, log, exc = run_cli(["file", paths["res"], paths["ref"], "--diff", "--verbosity", "0"] + extra)
        produced = [f for f in os.listdir(d_) if f.startswith("diff_")]
        ctx.count("cli --diff options:" + (" ".join(extra) or "none"))
        canon = {"cli_diff": {"mesh": G.copy_mesh(M) and None, "npoints": n, "perturbed": [str(k) for k in delta], "delta": [str(v) for v in delta.values()],
                              "options": extra}}
        ctx.case({"cli_diff": idx, "n": n, "delta": [str(v) for v in delta.values()]}, True,
                 sample={"cli_diff": {"points": n, "delta": [str(v) for v in delta.values()], "files": produced, "exit": rc}})
        ctx.count("cli --diff")
        if exc or len(produced) != 1:
            ctx.violation("E4", f"--diff did not write exactly one diff file (escaped={exc}, files={produced})", canon)
            return
        dec = decode_vtu_inline(os.path.join(d_, produced[0]))
        vals, _ = dec["point"]["u"]
        P = dec["points"]
        got = {}
        for k in range(len(vals)):
            got[tuple(Fr(float(x)) for x in P[3 * k:3 * k + 3])] = Fr(float(vals[k]))
        want = {tuple(G.padded(p)): delta.get(tuple(G.padded(p)), Fr(0)) for p in M["pts"]}
        used = {c for _, rows in M["blocks"] for r in rows for c in r}
        want = {tuple(G.padded(M["pts"][i])): want[tuple(G.padded(M["pts"][i]))] for i in used}
        if got != want:
            ctx.violation("E4", "the file written by --diff does not hold reference - source on the matching points "
                          "(zero for data sets equal up to reordering)", canon, got={str(k): str(v) for k, v in got.items()},
                          want={str(k): str(v) for k, v in want.items()})
        ctx.traces_validated += 1
    finally:
        shutil.rmtree(d_, ignore_errors=True)


def cli_diff_sequence_case(ctx, rng, workdir, idx):
    """--diff on a .pvd pair: every step gets its own difference file, also when only a later step's reference is stored in
    another order than the source (step 0 identical ordering)"""
    M = None
    while M is None or G.has_coincident_points(M) or any(len({len(r) for r in rows}) > 1 for _, rows in M["blocks"]):
        M = G.gen_mesh(rng, max_cells=3)
    n = len(M["pts"])
    nsteps = rng.randint(2, 3)
    d_ = os.path.join(workdir, f"diffseq{idx}")
    os.makedirs(d_)
    try:
        deltas = []
        for side in ("res", "ref"):
            steps = []
            for k in range(nsteps):
                X = G.copy_mesh(M)
                X["pf"]["u"] = [Fr(i + 10 * k, 4) for i in range(n)]
                delta = Fr(0)
                if side == "ref":
                    if k >= 1:
                        X = G.relabel(rng, X, blocks=False)[0]          # later steps: the reference is stored in another order
                    delta = Fr(k + 1, 2)
                    X["pf"]["u"] = [v + delta for v in X["pf"]["u"]]
                    deltas.append(delta)
                pts = [[float(x) for x in G.padded(p)] for p in X["pts"]]
                cells = [(G.VTK_ID[t], r) for t, rows in X["blocks"] for r in rows]
                fn = f"{side}_{k}.vtu"
                V.write_vtu(os.path.join(d_, fn), pts, cells, [("u", "Float64", 1, [float(v) for v in X["pf"]["u"]])], [], V.Cfg("binary"))
                steps.append(fn)
            V.write_pvd(os.path.join(d_, f"{side}.pvd"), steps)
        with warnings.catch_warnings():
            warnings.simplefilter("ignore")
            rc, log, exc = run_cli(["file", os.path.join(d_, "res.pvd"), os.path.join(d_, "ref.pvd"), "--diff", "--verbosity", "0"])
        produced = sorted(f for f in os.listdir(d_) if f.startswith("diff_"))
        canon = {"cli_diff_sequence": {"steps": nsteps, "points": n, "deltas": [str(x) for x in deltas]}}
        ctx.case({"cli_diff_sequence": idx, "steps": nsteps, "n": n}, True, sample={"cli_diff_sequence": canon, "files": produced, "exit": rc})
        ctx.count("cli --diff on a sequence")
        if exc or len(produced) != nsteps:
            ctx.violation("E4", f"--diff on a sequence of {nsteps} steps did not write one difference file per step "
                                f"(escaped={exc}, files={produced})", canon)
            return
        for fn in produced:
            dec = decode_vtu_inline(os.path.join(d_, fn))
            vals, _ = dec["point"]["u"]
            got = sorted({Fr(float(v)) for v in vals})
            if len(got) != 1 or got[0] not in deltas:
                ctx.violation("E4", "a difference file of the sequence does not hold reference - source (a constant per step here)",
                              canon, file=fn, values=[str(v) for v in got][:6])
                return
        ctx.traces_validated += 1
    finally:
        shutil.rmtree(d_, ignore_errors=True)


def integer_type_table(ctx):
    """T1-style tie of Model.Diff.int_diff_fixed: for every integer type of at most 32 bits and for int64, the difference the
    implementation reports for two one-row tables holding extreme / small values of the type is the model's value"""
    from fieldcompare.tabular import Table, TabularFields
    exprs, impls, metas = [], [], []
    for dt in ("int8", "uint8", "int16", "uint16", "int32", "uint32", "int64"):
        info = np.iinfo(dt)
        vals = sorted({int(info.min), int(info.max), 0, 1, int(info.max) // 2, int(info.min) // 2 if info.min < 0 else 3})
        for r in vals:
            for s_ in vals:
                if dt == "int64" and not (-2 ** 63 <= r - s_ < 2 ** 63):
                    continue          # (a difference beyond 64 bits is outside the theorem's and the repair's range)
                with warnings.catch_warnings():
                    warnings.simplefilter("ignore")
                    d = TabularFields(Table(num_rows=1), {"x": np.array([s_], dtype=dt)}).diff_to(
                        TabularFields(Table(num_rows=1), {"x": np.array([r], dtype=dt)}))
                impls.append(Fr(float(next(iter(d)).values[0])))
                exprs.append(f"int_diff_fixed {lib.cz(r)} {lib.cz(s_)}")
                metas.append((dt, r, s_))
    vals_ = ctx.coq_eval(HEADER, exprs, name="c14int", shard=200)
    bad = 0
    for (dt, r, s_), im, mo in zip(metas, impls, vals_):
        ctx.tie("T1 integer difference: implementation = Model.Diff.int_diff_fixed")
        exact = abs(r - s_) < 2 ** 53          # (the tabular difference is stored as float64)
        if exact and im != Fr(mo):
            bad += 1
            ctx.violation("E4" if Fr(mo) == r - s_ else "E2", f"{dt}: reference {r} minus source {s_} reported as {im}, model {mo}",
                          {"integer_difference": {"dtype": dt, "reference": r, "source": s_}}, found_input=Fr(mo) == r - s_)
    ctx.count("integer difference table rows", len(metas))


def run(ctx):
    ctx.prove()
    q = ctx.tier == "quick"
    integer_type_table(ctx)
    rng = ctx.rng
    n = 1200 if q else 30000
    cases = [restore_table(lib.json.loads(f.read_text())["case"]) for f in sorted((lib.VERIF / "corpus" / "C14").glob("found-*.json"))]
    cases = [c for c in cases if c is not None]
    ctx.count("corpus cases", len(cases))
    cases += [gen_table(rng) if rng.random() < 0.5 else gen_mesh_case(rng) for _ in range(n)]
    exprs, nms = [], []
    for c in cases:
        if c["kind"] == "table":
            names = sorted({n_ for n_, _ in c["src"]} | {n_ for n_, _ in c["ref"]})
            nid = {n_: i for i, n_ in enumerate(names)}
            exprs.append(f"outM (Some (diff_table {cnat(c['src_rows'])} {cnat(c['ref_rows'])} {cols_expr(c['src'], nid)} {cols_expr(c['ref'], nid)}))")
        else:
            S, R = mesh_cols(c, "src"), mesh_cols(c, "ref")
            names = sorted({n_ for n_, _ in S} | {n_ for n_, _ in R})
            nid = {n_: i for i, n_ in enumerate(names)}
            exprs.append(f"outM (diff_mesh {lib.cbool(c['same_domain'])} {cols_expr(S, nid)} {cols_expr(R, nid)})")
        nms.append(names)
    vals = ctx.coq_eval(HEADER, exprs, name="c14")
    for c, val, names in zip(cases, vals, nms):
        try:
            with warnings.catch_warnings():
                warnings.simplefilter("ignore")
                im = run_table(c) if c["kind"] == "table" else run_mesh(c)
        except Exception as e:  # noqa: BLE001
            im = {"exception": f"{type(e).__name__}: {e}"}
        orc = oracle_table(c) if c["kind"] == "table" else oracle_mesh(c)
        mo = None if val == "None" else decode_cols(val[1], names)
        canon = {k: (v if k != "mesh" else {"blocks": v["blocks"], "npts": len(v["pts"])}) for k, v in c.items()}
        canon = lib.json.loads(lib.json.dumps(canon, default=str))
        nontrivial = ({n_ for n_, _ in (c["src"] if c["kind"] == "table" else mesh_cols(c, "src"))}
                      != {n_ for n_, _ in (c["ref"] if c["kind"] == "table" else mesh_cols(c, "ref"))})
        ctx.case(canon, nontrivial, sample={"case": canon, "impl": lib.json.loads(lib.json.dumps(im, default=str))})
        ctx.count(f"kind:{c['kind']}")
        if "exception" in im:
            ctx.violation("E4", f"diff_to raised {im['exception']}", canon)
            continue
        if c["kind"] == "mesh" and not c["same_domain"]:
            if "raised" not in im:
                ctx.violation("E4", "diff_to of field data on different meshes did not refuse", canon)
            elif mo is not None:
                ctx.violation("E2", "model computes a diff for different domains", canon, found_input=False)
            continue
        if "raised" in im:
            ctx.violation("E4", f"diff_to raised on comparable data: {im['raised']}", canon)
            continue
        if im.get("repeat_differs"):
            ctx.violation("E4", "computing the difference of the same two objects a second time gives other values (or changes "
                                "the first result)", canon, impl=lib.json.loads(lib.json.dumps(im, default=str)))
        if c["kind"] == "table" and im["rows"] == orc["rows"] and im["fields"] != orc["fields"] and table_diff_only_rounded(c, im, orc):
            ctx.violation("E4", WHAT_TABLE_ROUNDING, canon, impl=lib.json.loads(lib.json.dumps(im, default=str)))
        elif im["fields"] != orc["fields"] or (c["kind"] == "table" and im["rows"] != orc["rows"]) or \
                (c["kind"] == "mesh" and not im["domain_is_reference"]):
            ctx.violation("E4", "diff_to is not reference - source on matching entities / NaN for one-sided fields / on the common domain",
                          canon, impl=lib.json.loads(lib.json.dumps(im, default=str)))
        elif mo != im["fields"]:
            ctx.violation("E2", "model diff != implementation diff", canon, found_input=False)
        ctx.traces_validated += 1
    # fields present on one side only keep their layout: a vector / tensor field comes back as NaN in every component, with the
    # shape it has on the side that carries it (point and cell fields, either side, through diff_to and through the written file)
    for it in range(20 if q else 400):
        M = G.gen_mesh(rng, max_cells=4)
        npts = len(M["pts"])
        side = rng.choice(["src", "ref"])
        comp = rng.choice([(3,), (2,), (3, 3), (2, 2)])
        where = rng.choice(["point", "cell"])
        canon = {"one_sided_field_layout": {"side": side, "components": list(comp), "on": where, "mesh": {"blocks": M["blocks"], "npts": npts}}}
        try:
            with warnings.catch_warnings():
                warnings.simplefilter("ignore")
                ep = {"w": np.arange(float(npts * int(np.prod(comp)))).reshape((npts,) + comp)} if where == "point" else None
                ec = {"w": [np.arange(float(len(rows) * int(np.prod(comp)))).reshape((len(rows),) + comp) for _, rows in M["blocks"]]} \
                    if where == "cell" else None
                plain = G.to_fieldcompare(M, {"u": np.arange(float(npts))}, None)
                rich = G.to_fieldcompare(M, dict({"u": np.arange(float(npts))}, **(ep or {})), ec)
                a, b = (rich, plain) if side == "src" else (plain, rich)
                dfld = a.diff_to(b)
                shapes = {f.name: tuple(np.asarray(f.values).shape) for f in dfld if f.name.split(" @ ")[0] == "w"}
                allnan = all(bool(np.all(np.isnan(np.asarray(f.values, dtype=float)))) for f in dfld if f.name.split(" @ ")[0] == "w")
                want = {f.name: tuple(np.asarray(f.values).shape) for f in rich if f.name.split(" @ ")[0] == "w"}
        except Exception as e:  # noqa: BLE001
            ctx.violation("E4", f"diff_to with a one-sided {where} field of {comp} components raised {type(e).__name__}: {e}", canon)
            continue
        ctx.case(canon, True, sample={"case": canon, "shapes": {k: list(v) for k, v in shapes.items()}})
        ctx.count(f"one-sided field layout:{where}:{len(comp)}-index components")
        if shapes != want or not allnan:
            ctx.violation("E4", f"a {where} field with components {comp} present on one side only comes back with shapes "
                                f"{ {k: list(v) for k, v in shapes.items()} } (all NaN: {allnan}) instead of NaN in the layout "
                                f"{ {k: list(v) for k, v in want.items()} }", canon)
        ctx.traces_validated += 1
    # directed probe: integer table columns whose difference is no double (one finding class when it deviates)
    probe = {"kind": "table", "src_rows": 2, "ref_rows": 2, "src": [["a", [17, 2 ** 53 + 1]], ["t", [Fr(1, 2), Fr(3, 2)]]],
             "ref": [["a", [2 ** 62 + 1, -50]], ["t", [Fr(1), Fr(1)]]], "src_idx": None, "ref_idx": None,
             "dtypes": {"src": {"a": "i8", "t": "f8"}, "ref": {"a": "i8", "t": "f8"}}}
    try:
        with warnings.catch_warnings():
            warnings.simplefilter("ignore")
            im = run_table(probe)
        orc = oracle_table(probe)
        pc = lib.json.loads(lib.json.dumps(probe, default=str))
        ctx.case(pc, True)
        ctx.count("kind:table probe (integer differences beyond 2^53)")
        if im.get("fields") != orc["fields"]:
            ctx.violation("E4", WHAT_TABLE_ROUNDING if table_diff_only_rounded(probe, im, orc) else
                          "diff_to of integer table columns is not reference - source", pc, impl=lib.json.loads(lib.json.dumps(im, default=str)))
    except Exception as e:  # noqa: BLE001
        ctx.violation("E4", f"diff_to of integer table columns raised {type(e).__name__}: {e}", {"probe": "integer table columns"})
    for i in range(60 if q else 1500):
        cli_diff_case(ctx, rng, str(ctx.workdir), i)
    for i in range(12 if q else 300):
        cli_diff_sequence_case(ctx, rng, str(ctx.workdir), i)
    ctx.rule = ("tabular pairs (0-4 rows per side, overlapping column sets) and mesh pairs (same mesh or a moved point; overlapping "
                "point and cell field sets on 1-3 cell types) with arbitrary dyadic values of the numeric types float64/float32/"
                "int64/int32/int8/uint8/uint16/uint64 (the two sides of a field may differ in type; integer extremes included); CLI --diff on relabeled meshes with one "
                "known field delta. non-trivial = the two sides have different field sets")
    return ctx.finish(assumptions=["values are dyadic so that reference - source is exact in binary64"],
                      trusted=["harness/c14.py (incl. its independent decoder of the written .vtu)"])


def restore_table(c):
    """a tabular case from its JSON form (values back to exact numbers)"""
    if not c or c.get("kind") != "table":
        return None
    c = dict(c)

    def num(v):
        return Fr(v) if isinstance(v, str) else v
    for key in ("src", "ref", "src_stored", "ref_stored"):
        if c.get(key) is not None:
            c[key] = [(n, [num(v) for v in vals]) for n, vals in c[key]]
    return c


def replay(pid, rec):
    c = restore_table(rec.get("case"))
    if c is None:
        print("re-run ./check C14 quick with the same VERIF_SEED to reproduce:", rec["what"])
        return False
    with warnings.catch_warnings():
        warnings.simplefilter("ignore")
        im, orc = run_table(c), oracle_table(c)
    print("diff_to:", {k: [str(x) for x in v] for k, v in im["fields"].items()})
    print("reference - source:", {k: [str(x) for x in v] for k, v in orc["fields"].items()})
    return im["fields"] == orc["fields"] and im["rows"] == orc["rows"]
    return False
