"""Shared machinery of the /verif checks (see DESIGN.md sections 2-4, 11).

A check is `./check Cxx quick|thorough` (or `--replay file`).  It
  1. re-checks the Coq obligations of the property (Properties/Cxx.v + per-run T1 table lemmas),
  2. runs the correspondence between the Coq model (evaluated by `vm_compute` inside coqc) and the
     implementation imported from /repo's working tree,
  3. evaluates the independent statement oracle on the implementation's results,
  4. classifies events, writes evidence/Cxx.json and prints VIOLATION / KNOWN-FINDING lines.
"""
from __future__ import annotations

import fcntl
import hashlib
import json
import os
import random
import re
import shutil
import subprocess
import sys
import time
from concurrent.futures import ThreadPoolExecutor
from fractions import Fraction
from pathlib import Path

VERIF = Path(__file__).resolve().parent.parent
COQ = VERIF / "coq"
REPO = Path(os.environ.get("VERIF_REPO", "/repo"))
WORK = VERIF / "work"
EVID = Path(os.environ.get("VERIF_EVIDENCE_DIR", str(VERIF / "evidence")))   # mutation experiments write elsewhere

HYGIENE_RE = re.compile(
    r"\b(Admitted|admit|Axiom|Axioms|Parameter|Parameters|Conjecture|Conjectures|Admit Obligations|"
    r"Unset Guard Checking|Unset Positivity Checking|Unset Universe Checking|bypass_check|"
    r"type-in-type|impredicative-set|native_compute)\b"
)

# standard-library axioms that may appear under Print Assumptions (DESIGN.md section 5)
ALLOWED_AXIOMS = {
    "functional_extensionality_dep",
    "FunctionalExtensionality.functional_extensionality_dep",
}
# primitive float / int operations are kernel primitives, reported by Print Assumptions but not axioms of ours
PRIMITIVE_PREFIXES = ("PrimFloat.", "Uint63.", "PrimInt63.", "FloatOps.", "FloatAxioms.", "SpecFloat.",
                      "float", "int", "Float64", "Int63")


def assert_repo_import():
    import fieldcompare  # noqa

    f = os.path.realpath(fieldcompare.__file__)
    if not f.startswith(str(REPO) + "/"):
        raise SystemExit(f"harness error: fieldcompare imported from {f}, not from {REPO}")


# --------------------------------------------------------------------------------------------
# Coq term printing (Python -> Gallina literals)
# --------------------------------------------------------------------------------------------
def cz(z: int) -> str:
    return f"({z})%Z" if z < 0 else f"{z}%Z"


def cnat(n: int) -> str:
    assert 0 <= n < 100000
    return f"{n}%nat"


def cbool(b: bool) -> str:
    return "true" if b else "false"


def clist(items, ty: str | None = None) -> str:
    items = list(items)
    if not items:
        return f"(@nil {ty})" if ty else "[]"
    return "[" + "; ".join(items) + "]"


def cstr(s: str) -> str:
    assert all(32 <= ord(c) < 127 for c in s), "ascii only in Coq string literals"
    return '"' + s.replace('"', '""') + '"%string'


def frac_to_dy(q: Fraction) -> tuple[int, int]:
    """q = m * 2^e with m odd (or 0); q must be dyadic."""
    q = Fraction(q)
    if q == 0:
        return 0, 0
    den = q.denominator
    assert den & (den - 1) == 0, f"not dyadic: {q}"
    e = -(den.bit_length() - 1)
    m = q.numerator
    while m % 2 == 0:
        m //= 2
        e += 1
    return m, e


def cq(q) -> str:
    """Gallina literal of a dyadic rational (dy m e)."""
    m, e = frac_to_dy(Fraction(q))
    return f"(dy {cz(m)} {cz(e)})"


def cqfrac(q) -> str:
    q = Fraction(q)
    return f"(Qmake {cz(q.numerator)} {q.denominator}%positive)"


# --------------------------------------------------------------------------------------------
# Coq output parsing (Gallina values printed by `Eval vm_compute` -> Python)
# --------------------------------------------------------------------------------------------
_TOK = re.compile(r'\s*(?:(\[|\]|\(|\)|;|,)|("(?:[^"]|"")*")|(-?\d+)|([A-Za-z_][A-Za-z_0-9\.\']*)|(%[A-Za-z_]+)|(#))')


def _tokenize(s: str):
    pos, out = 0, []
    s = s.strip()
    while pos < len(s):
        m = _TOK.match(s, pos)
        if not m:
            raise ValueError(f"cannot tokenize Coq output at: {s[pos:pos+60]!r}")
        pos = m.end()
        if m.group(5):
            continue  # scope annotation
        out.append(m.group(0).strip())
    return out


def parse_coq_value(text: str):
    toks = _tokenize(text)
    val, i = _parse_app(toks, 0)
    if i != len(toks):
        raise ValueError(f"trailing tokens in Coq value: {toks[i:i+8]}")
    return val


def _parse_app(toks, i):
    head, i = _parse_atom(toks, i)
    args = []
    while i < len(toks) and toks[i] not in ("]", ")", ";", ",", "#"):
        a, i = _parse_atom(toks, i)
        args.append(a)
    if i < len(toks) and toks[i] == "#":
        den, i = _parse_atom(toks, i + 1)
        assert not args
        return Fraction(head, den), i
    if args:
        return (head, *args), i
    return head, i


def _parse_atom(toks, i):
    t = toks[i]
    if t == "[":
        items = []
        i += 1
        if toks[i] == "]":
            return items, i + 1
        while True:
            v, i = _parse_app(toks, i)
            items.append(v)
            if toks[i] == ";":
                i += 1
                continue
            if toks[i] == "]":
                return items, i + 1
            raise ValueError("bad list")
    if t == "(":
        items = []
        i += 1
        while True:
            v, i = _parse_app(toks, i)
            items.append(v)
            if toks[i] == ",":
                i += 1
                continue
            if toks[i] == ")":
                i += 1
                break
            raise ValueError(f"bad tuple near {toks[i-3:i+3]}")
        return (items[0] if len(items) == 1 else tuple(items)), i
    if t.startswith('"'):
        return t[1:-1].replace('""', '"'), i + 1
    if re.fullmatch(r"-?\d+", t):
        return int(t), i + 1
    if t == "true":
        return True, i + 1
    if t == "false":
        return False, i + 1
    return t, i + 1


def parse_eval_outputs(stdout: str):
    """Split coqc stdout into the values printed by successive `Eval ... in` commands."""
    vals = []
    cur = None
    for line in stdout.splitlines():
        if line.startswith("     = "):
            cur = [line[7:]]
        elif line.startswith("     : ") and cur is not None:
            vals.append(" ".join(cur))
            cur = None
        elif cur is not None:
            cur.append(line.strip())
    return [parse_coq_value(v) for v in vals]


# --------------------------------------------------------------------------------------------
def run_coqc(vfile: Path, timeout=600, extra_q: list[tuple[Path, str]] = ()):
    cmd = ["coqc", "-Q", str(COQ), "FC"]
    for d, name in extra_q:
        cmd += ["-Q", str(d), name]
    cmd.append(str(vfile))
    p = subprocess.run(cmd, capture_output=True, text=True, timeout=timeout, cwd=str(vfile.parent))
    return p.returncode, p.stdout, p.stderr


class Ctx:
    def __init__(self, pid: str, tier: str, seed: int):
        self.pid, self.tier, self.seed = pid, tier, seed
        self.t0 = time.time()
        self.rng = random.Random(f"{seed}:{pid}:{tier}")
        self.workdir = WORK / f"{pid}-{os.getpid()}"
        if self.workdir.exists():
            shutil.rmtree(self.workdir)
        self.workdir.mkdir(parents=True)
        (WORK / "replay").mkdir(parents=True, exist_ok=True)
        self.obligations = 0
        self.discharged = 0
        self.obligation_names: list[str] = []
        self.failed_obligations: list[str] = []
        self.axioms: set[str] = set()
        self.checker_cmds: list[str] = []
        self.evaluations = 0
        self.case_hashes: set[str] = set()
        self.samples: list = []
        self.dist: dict[str, int] = {}
        self.violations: list[dict] = []   # unexplained
        self.known_hits: dict[str, int] = {}
        self.notes: list[str] = []
        self.ties: dict[str, int] = {}
        self.extra: dict = {}
        self.rule = ""
        self.exhaustive = None
        self.traces_validated = 0
        self.findings = load_findings(pid)

    # ---------------------------------------------------------------- bookkeeping
    def count(self, key: str, n: int = 1):
        self.dist[key] = self.dist.get(key, 0) + n

    def tie(self, key: str, n: int = 1):
        self.ties[key] = self.ties.get(key, 0) + n

    def case(self, canon, nontrivial: bool, sample=None):
        """Register one explored case; `canon` is a canonical (hashable / json-able) form."""
        self.evaluations += 1
        if nontrivial:
            h = hashlib.sha1(json.dumps(canon, sort_keys=True, default=str).encode()).hexdigest()
            self.case_hashes.add(h)
        if sample is not None and len(self.samples) < 6:
            self.samples.append(sample)

    # ---------------------------------------------------------------- Coq side
    def make(self):
        """Bring the committed development up to date (no-op when fresh).  Serialised by a lock."""
        WORK.mkdir(exist_ok=True)
        with open(WORK / ".make.lock", "w") as lk:
            fcntl.flock(lk, fcntl.LOCK_EX)
            if not (COQ / "Makefile").exists():
                subprocess.run(["coq_makefile", "-f", "_CoqProject", "-o", "Makefile"], cwd=COQ, check=True,
                               capture_output=True)
            p = subprocess.run(["make", "-j16"], cwd=COQ, capture_output=True, text=True, timeout=3000)
        if p.returncode != 0:
            self.failed_obligations.append("make -C coq (the committed development does not build)")
            self.notes.append("make failed: " + (p.stdout + p.stderr)[-1500:])
            return False
        return True

    def hygiene(self):
        bad = []
        for f in sorted(COQ.rglob("*.v")):
            txt = f.read_text()
            txt = re.sub(r"\(\*.*?\*\)", " ", txt, flags=re.S)
            for m in HYGIENE_RE.finditer(txt):
                bad.append(f"{f.relative_to(VERIF)}: {m.group(0)}")
        self.obligations += 1
        self.obligation_names.append("hygiene: no Admitted/admit/Axiom/Parameter/... in coq/")
        if bad:
            self.failed_obligations.append("hygiene grep: " + "; ".join(bad[:5]))
        else:
            self.discharged += 1

    def prove(self):
        """Proof step: build, hygiene, recompile Properties/<pid>.v and read its Print Assumptions."""
        ok = self.make()
        self.hygiene()
        src = COQ / "Properties" / f"{self.pid}.v"
        text = src.read_text()
        theorems = re.findall(r"^\s*(?:Theorem|Corollary)\s+([A-Za-z_0-9']+)", text, flags=re.M)
        printed = re.findall(r"^\s*Print Assumptions\s+([A-Za-z_0-9'\.]+)\s*\.", text, flags=re.M)
        missing = [t for t in theorems if t not in printed]
        dst = self.workdir / f"{self.pid}.v"
        shutil.copy(src, dst)
        cmd = f"coqc -Q {COQ} FC {src}"
        self.checker_cmds.append(cmd)
        self.obligations += len(theorems)
        self.obligation_names += [f"Properties/{self.pid}.v:{t}" for t in theorems]
        if not ok:
            self.failed_obligations += [f"{t} (not checked: build failed)" for t in theorems]
            return
        rc, out, err = run_coqc(dst)
        if rc != 0:
            self.failed_obligations.append(f"Properties/{self.pid}.v does not compile: {err.strip()[-600:]}")
            return
        if missing:
            self.failed_obligations.append(f"theorems without Print Assumptions: {missing}")
        # parse the Print Assumptions blocks
        blocks = re.split(r"\n(?=Closed under the global context|Axioms:)", "\n" + out)
        n_closed = out.count("Closed under the global context")
        axioms = set()
        for m in re.finditer(r"^([A-Za-z_][A-Za-z_0-9\.']*)\s*:", out, flags=re.M):
            if m.group(1) != "Axioms":          # (the header line of a Print Assumptions block)
                axioms.add(m.group(1))
        bad = []
        for a in sorted(axioms):
            short = a.split(".")[-1]
            if a in ALLOWED_AXIOMS or short in ALLOWED_AXIOMS:
                self.axioms.add(a)
            elif a.startswith(PRIMITIVE_PREFIXES) or short in ("float", "int"):
                self.axioms.add(a + " (kernel primitive)")
            else:
                bad.append(a)
        if bad:
            self.failed_obligations.append(f"assumptions outside the allow-list: {bad}")
            self.discharged += 0
        else:
            self.discharged += len(theorems) - (1 if missing else 0)
        self.extra["print_assumptions"] = {"closed": n_closed, "theorems": len(theorems),
                                           "axioms": sorted(self.axioms)}

    def table_lemma(self, name: str, source: str, timeout=600) -> bool:
        """T1: compile a generated file that defines a table dumped from the implementation and proves
        (by vm_compute inside the kernel) that the model agrees with it on the whole finite domain."""
        f = self.workdir / f"{name}.v"
        f.write_text(source)
        self.obligations += 1
        self.obligation_names.append(f"T1 {name} (generated from /repo this run)")
        rc, out, err = run_coqc(f, timeout=timeout)
        self.checker_cmds.append(f"coqc -Q {COQ} FC work/.../{name}.v")
        if rc == 0:
            self.discharged += 1
            return True
        self.failed_obligations.append(f"T1 {name}: {err.strip()[-500:]}")
        return False

    def coq_eval(self, header: str, exprs: list[str], shard=400, timeout=900, name="cases"):
        """Evaluate Gallina expressions with vm_compute; returns the parsed values in order.
        One `Eval` per shard of expressions (as a list) to keep coqc start-up cost amortised."""
        if not exprs:
            return []
        shards = [exprs[i:i + shard] for i in range(0, len(exprs), shard)]
        files = []
        for k, sh in enumerate(shards):
            f = self.workdir / f"{name}_{len(self.checker_cmds)}_{k}.v"
            body = header + "\nEval vm_compute in [\n" + ";\n".join(sh) + "\n].\n"
            f.write_text(body)
            files.append(f)

        def _one(f):
            rc, out, err = run_coqc(f, timeout=timeout)
            if rc != 0:
                raise RuntimeError(f"model evaluation failed ({f}): {err[-800:]}")
            vals = parse_eval_outputs(out)
            assert len(vals) == 1, (f, out[:300])
            return vals[0]

        with ThreadPoolExecutor(max_workers=12) as ex:
            res = list(ex.map(_one, files))
        self.checker_cmds.append(f"coqc -Q {COQ} FC work/.../{name}_*.v   ({len(files)} shards, vm_compute)")
        out = []
        for r, sh in zip(res, shards):
            assert len(r) == len(sh), (len(r), len(sh))
            out += r
        for f in files:
            for ext in (".v", ".vo", ".glob", ".vok", ".vos"):
                p = f.with_suffix(ext)
                if p.exists():
                    p.unlink()
        return out

    # ---------------------------------------------------------------- events
    def violation(self, kind: str, what: str, case, found_input: bool = True, **detail):
        """Register an event (E1..E4).  Known open findings are recognised by their classifier."""
        rec = {"property": self.pid, "event": kind, "what": what, "case": case, "seed": self.seed,
               "tier": self.tier, "found_failing_input": found_input, **detail}
        if found_input:
            for f in self.findings:
                if f["status"] == "open" and f["classifier"](rec):
                    self.known_hits[f["id"]] = self.known_hits.get(f["id"], 0) + 1
                    return
        if len(self.violations) < 20000:
            self.violations.append(rec)

    # ---------------------------------------------------------------- finish
    def finish(self, level="proof", assumptions=(), trusted=()):
        n = 0
        for fobl in self.failed_obligations:
            # a broken obligation without any concrete failing input found by the search
            has_input = any(v["found_failing_input"] for v in self.violations)
            if not has_input:
                self.violations.append({"property": self.pid, "event": "E1", "what": fobl, "case": None,
                                        "seed": self.seed, "tier": self.tier, "found_failing_input": False})
        for f in self.findings:
            if f["status"] == "open" and self.known_hits.get(f["id"]):
                print(f"KNOWN-FINDING: property={self.pid} {f['id']}: {f['description']} "
                      f"({self.known_hits[f['id']]} cases this run)")
        # one replay per distinct kind of failure first, then further instances, at most 10 lines.
        # When the search found concrete failing inputs, those are the replays; broken obligations / model diffs of the
        # same run are listed in the evidence only.
        with_input = [v for v in self.violations if v["found_failing_input"]]
        reported = with_input if with_input else self.violations
        self.extra["events_without_failing_input"] = [v["what"][:200] for v in self.violations if not v["found_failing_input"]][:20]
        groups: dict = {}
        for v in reported:
            groups.setdefault((v["event"], re.sub(r"[0-9]+", "#", v["what"])[:70]), []).append(v)
        ordered = [g[0] for g in groups.values()] + [v for g in groups.values() for v in g[1:3]]
        printed = 0
        for v in ordered[:10]:
            n += 1
            path = WORK / "replay" / f"{self.pid}-{self.seed}-{printed}.json"
            path.write_text(json.dumps(v, indent=1, default=str))
            tail = "" if v["found_failing_input"] else " no-failing-input-found"
            print(f"VIOLATION property={self.pid} replay={path}{tail}   # {v['event']}: {v['what'][:110]}")
            printed += 1
        self.extra["violation_kinds"] = {f"{k[0]} {k[1]}": len(g) for k, g in groups.items()}
        wall = time.time() - self.t0
        trusted_base = [
            "Coq 8.16.1 kernel (coqc, full .vo build), vm_compute; no native_compute",
            "axioms reported by Print Assumptions this run: " + (", ".join(sorted(self.axioms)) or "none (closed under the global context)"),
            "hand-written Gallina model tied to /repo by the correspondence run of this check (harness/*.py)",
            *trusted,
        ]
        ev = {
            "property_id": self.pid,
            "tier": self.tier,
            "seed": self.seed,
            "level": level,
            "coverage": {
                "obligations": self.obligations,
                "discharged": self.discharged,
                "obligation_names": self.obligation_names,
                "failed_obligations": self.failed_obligations,
                "checker_cmd": "; ".join(dict.fromkeys(self.checker_cmds)) or "none",
                "trusted_base": trusted_base,
                "evaluations": self.evaluations,
                "distinct_nontrivial": len(self.case_hashes),
                "rule": self.rule,
                "samples": self.samples or ["(no case generated)"],
                "traces_validated_against_impl": self.traces_validated,
                "input_distribution": self.dist,
                "ties": self.ties,
                "known_finding_hits": self.known_hits,
                "notes": self.notes,
                **({"exhaustive": True} if self.exhaustive is True else
                   {"exhaustively_enumerated_parts": self.exhaustive} if self.exhaustive is not None else {}),
                **self.extra,
            },
            "assumptions": list(assumptions),
            "wall_s": round(wall, 2),
            "violations": n,
        }
        EVID.mkdir(exist_ok=True)
        (EVID / f"{self.pid}.json").write_text(json.dumps(ev, indent=1, default=str))
        shutil.rmtree(self.workdir, ignore_errors=True)
        print(f"[{self.pid} {self.tier}] obligations {self.discharged}/{self.obligations}, "
              f"{self.evaluations} cases ({len(self.case_hashes)} distinct non-trivial), "
              f"known-finding hits {sum(self.known_hits.values())}, violations {n}, {wall:.1f}s")
        return 1 if n else 0


# --------------------------------------------------------------------------------------------
def load_findings(pid: str):
    from . import findings as F

    path = VERIF / "known_findings.json"
    if not path.exists():
        return []
    out = []
    for e in json.loads(path.read_text())["findings"]:
        if e["property"] != pid:
            continue
        e = dict(e)
        e["classifier"] = getattr(F, e["classifier_name"]) if e.get("classifier_name") else (lambda rec: False)
        out.append(e)
    return out
