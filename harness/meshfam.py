"""Mesh family: C02 (no false FAIL), C03 (no false PASS), C08 (transformations only relabel), C16 (mesh equality),
C17 (space-dimension matching).

Tie to /repo: T2 exact — PermutedMesh views with explicit index maps and Mesh.equals on exact dyadic meshes against
Model.Mesh (`permute_points`, `permute_cells`, `mesh_equal`); T3 — the index maps that strip_orphan_points / sort_points
actually produce are checked by the Coq-verified checkers `check_strip` / `is_perm`; the retry ladder of
MeshFieldsComparator is replayed stage by stage through the public transformations and each stage's Mesh.equals verdict
is compared with the model.  Oracles: exact-arithmetic content (multisets of points-with-values and cells-with-values),
construction knowledge (relabeling => must pass; single-site modification changing the content => must fail).
"""
from __future__ import annotations

import io
import json
import os
import warnings
from fractions import Fraction as Fr

import numpy as np

from . import lib, meshgen as G
from .lib import clist, cnat, cq

HEADER = """From Coq Require Import QArith Arith Bool List.
From FC Require Import Model.Scalar Model.Mesh.
Import ListNotations.
Definition MK (p : list point) (c : list (nat * list (list nat))) : mesh := {| pts := p; cells := c |}.
Definition idpts (n : nat) : list point := map (fun i => [inject_Z (Z.of_nat i)]) (seq 0 n).
Definition ptids (M : mesh) : list Z := map (fun p => match p with [q] => Qnum q | _ => (-1)%Z end) (pts M).
Definition view (n : nat) (c : list (nat * list (list nat))) (p : list nat) (k : list (list nat)) :=
  match permute_points (MK (idpts n) c) p with
  | Some M' => let M2 := permute_cells M' k in Some (ptids M2, cells M2)
  | None => None
  end.
"""


def coq_mesh(M, with_points=True):
    pts = clist([clist([lib.cqfrac(x) for x in p], "Q") for p in M["pts"]], "point") if with_points else "[]"
    return f"(MK {pts} {coq_blocks(M)})"


def coq_blocks(M):
    return clist([f"({cnat(G.VTK_ID[t])}, {clist([clist([cnat(c) for c in r], 'nat') for r in rows], '(list nat)')})"
                  for t, rows in M["blocks"]], "(nat * list (list nat))")


def quiet():
    return warnings.catch_warnings()


# ------------------------------------------------------------------------------------------------
# observing index maps of views through marker fields (public API only)
# ------------------------------------------------------------------------------------------------
def with_markers(M):
    n = len(M["pts"])
    extra_p = {"__pid": np.arange(n, dtype=np.int64)}
    extra_c = {"__cid": [np.arange(len(rows), dtype=np.int64) for _, rows in M["blocks"]]}
    return G.to_fieldcompare(M, extra_p, extra_c)


def markers_of(fields):
    pid = None
    cid = {}
    for f in fields.point_fields:
        if f.name == "__pid":
            pid = [int(x) for x in f.values]
    for f, ct in fields.cell_fields_types:
        if f.name.startswith("__cid"):
            cid[ct.name] = [int(x) for x in f.values]
    return pid, cid


def strip_markers(M):
    M = G.copy_mesh(M)
    M["pf"].pop("__pid", None)
    M["cf"].pop("__cid", None)
    return M


# ------------------------------------------------------------------------------------------------
# exact oracle of mesh equality (from the statement of C16 / C03)
# ------------------------------------------------------------------------------------------------
def close(a, b, rel, ab):
    return abs(a - b) <= max(rel * max(abs(a), abs(b)), ab)


def oracle_equal(A, B, rel, ab, band=4):
    """True / False / None (None: some coordinate difference lies within a factor `band` of the threshold)"""
    if len(A["pts"]) != len(B["pts"]) or A["dim"] != B["dim"]:
        return False
    verdict = True
    for p, q in zip(A["pts"], B["pts"]):
        for a, b in zip(p, q):
            thr = max(rel * max(abs(a), abs(b)), ab)
            d = abs(a - b)
            if d > thr * band:
                return False
            if d > thr / band and d != 0:
                verdict = None
    ta = {t: rows for t, rows in A["blocks"]}
    tb = {t: rows for t, rows in B["blocks"]}
    if len(ta) != len(tb):
        return False
    used = set()
    for t, rows in ta.items():
        u = t if t in tb else G.COMPAT.get(t)
        if u is None or u not in tb or u in used:
            return False
        used.add(u)
        if len(rows) != len(tb[u]):
            return False
        for r1, r2 in zip(rows, tb[u]):
            if sorted(r1) != sorted(r2):
                return False
    return verdict


def tol_of(fields_or_mesh):
    d = getattr(fields_or_mesh, "domain", fields_or_mesh)
    return Fr(float(d.relative_tolerance)), Fr(float(d.absolute_tolerance))


# ------------------------------------------------------------------------------------------------
# C08
# ------------------------------------------------------------------------------------------------
def run_c08(ctx):
    from fieldcompare.mesh import (sort, sort_points, sort_cells, strip_orphan_points, merge, extend_space_dimension_to,
                                   CellType)
    try:   # refinement tie by name: the view class is not re-exported by fieldcompare.mesh
        from fieldcompare.mesh._permuted_mesh import PermutedMesh
    except Exception as e:  # noqa: BLE001
        PermutedMesh = None
        ctx.notes.append(f"refinement tie PermutedMesh skipped (name not found: {e})")

    q = ctx.tier == "quick"
    rng = ctx.rng
    # (1) PermutedMesh with EXPLICIT index maps vs the model
    n1 = (500 if q else 12000) if PermutedMesh is not None else 0
    exprs, impls, canons = [], [], []
    for _ in range(n1):
        M = G.gen_mesh(rng)
        if rng.random() < 0.4:
            G.add_orphans(rng, M)
        n = len(M["pts"])
        used = sorted({c for _, rows in M["blocks"] for r in rows for c in r})
        mode = rng.choice(["perm", "perm", "cover", "missing"])
        p = list(range(n))
        rng.shuffle(p)
        if mode == "cover":      # injective map covering all referenced points (as produced by stripping)
            p = [i for i in p if i in used or rng.random() < 0.5]
        elif mode == "missing" and used:   # a referenced point is NOT reachable: the view is ill-defined (model: None)
            drop = rng.choice(used)
            p = [i for i in p if i != drop]
        k = []
        for t, rows in M["blocks"]:
            kp = list(range(len(rows)))
            rng.shuffle(kp)
            k.append(kp)
        fc = G.to_fieldcompare(M)
        view = PermutedMesh(fc.domain, point_permutation=np.array(p, dtype=np.int64),
                            cell_permutations={CellType.from_name(t): np.array(kp, dtype=np.int64) for (t, _), kp in zip(M["blocks"], k)})
        im = None
        if mode != "missing":
            try:
                pts_ids = [int(x) for x in view.transform_point_data(np.arange(n))]
                conn = [[G.VTK_ID[t], [[int(c) for c in row] for row in view.connectivity(CellType.from_name(t))]] for t, _ in M["blocks"]]
                same_pts = np.array_equal(view.points, np.asarray(fc.domain.points)[p])
                im = [pts_ids, conn, same_pts]
            except Exception as e:  # noqa: BLE001
                im = f"raised {type(e).__name__}: {e}"
        exprs.append(f"view {cnat(n)} {coq_blocks(M)} {clist([cnat(i) for i in p], 'nat')} "
                     f"{clist([clist([cnat(i) for i in kp], 'nat') for kp in k], '(list nat)')}")
        impls.append(im)
        canons.append({"mesh": json_mesh(M), "point_map": p, "cell_maps": k, "mode": mode})
    vals = ctx.coq_eval(HEADER, exprs, name="c08view")
    for im, val, c in zip(impls, vals, canons):
        ctx.case(c, c["point_map"] != sorted(c["point_map"]), sample={"case": c, "impl": im, "model": val})
        ctx.count(f"view:{c['mode']}")
        ctx.tie("PermutedMesh view vs model")
        if c["mode"] == "missing":
            if val != "None":
                ctx.violation("E2", "model does not flag a view that reads an unmapped point", c, found_input=False)
            continue
        if val == "None":
            ctx.violation("E2", "model says the view is ill-defined but all referenced points are mapped", c, found_input=False)
            continue
        if isinstance(im, str):
            ragged = any(len({len(r) for r in rows}) > 1 for _, rows in c["mesh"]["blocks"])
            ctx.violation("E4", "PermutedMesh view of a well-formed mesh raises"
                          + (" (cells of one type with differing numbers of corners)" if ragged else "") + f": {im}", c)
            continue
        _, (mp, mc) = val
        mo = [list(mp), [[t, [list(r) for r in rows]] for t, rows in mc]]
        # oracle: the view only relabels: geometry of every cell (via ids) and point data are transported consistently
        ok = im[2]
        for (t, rows), (_, vrows), kp in zip(c["mesh"]["blocks"], im[1], c["cell_maps"]):
            for j, vr in enumerate(vrows):
                orig = rows[kp[j]]
                if [im[0][x] for x in vr] != orig:
                    ok = False
        if not ok:
            ctx.violation("E4", "PermutedMesh view changes the geometry of a cell or mis-transports point data", c, impl=im)
        elif [im[0], im[1]] != mo:
            ctx.violation("E2", f"PermutedMesh view: model {mo} != implementation {im[:2]}", c, found_input=False)
        ctx.traces_validated += 1
    # (2) public transformations and compositions: content conserved; index maps checked by the verified checkers
    n2 = 500 if q else 15000
    exprs, metas = [], []
    ops = ["sort_points", "sort_cells", "strip", "sort", "extend", "merge_split"]
    for _ in range(n2):
        M = G.add_fields(rng, G.gen_mesh(rng), kinds=("scalar", "vector", "int", "tensor"))
        if rng.random() < 0.3:
            # field names that themselves contain the annotation separator: "flux @ face" and "flux @ center" are two fields
            val_ = lambda: Fr(rng.randint(-1000, 1000), 8)  # noqa: E731
            M["cf"]["flux @ face"] = {t: [val_() for _ in rows] for t, rows in M["blocks"]}
            M["cf"]["flux @ center"] = {t: [val_() for _ in rows] for t, rows in M["blocks"]}
            M["pf"]["q @ node"] = [val_() for _ in M["pts"]]
        if rng.random() < 0.5:
            # integer vector / tensor fields whose entries need all 64 bits (a detour through float64 would change them)
            iv = lambda: rng.choice([2 ** 53 + 1, -(2 ** 53) - 3, 2 ** 62 + 5, 7, -1])  # noqa: E731
            M["pf"]["iv"] = [[iv() for _ in range(M["dim"])] for _ in M["pts"]]
            if rng.random() < 0.5:
                M["pf"]["it"] = [[[iv() for _ in range(M["dim"])] for _ in range(M["dim"])] for _ in M["pts"]]
            M["cf"]["civ"] = {t: [[iv() for _ in range(M["dim"])] for _ in rows] for t, rows in M["blocks"]}
        if rng.random() < 0.4:
            G.add_orphans(rng, M)
        if rng.random() < 0.15:
            G.make_discontinuous(rng, M)
        if rng.random() < 0.15:      # twin cells: two cells of one type connecting exactly the same points
            t, rows = rng.choice(M["blocks"])
            j = rng.randrange(len(rows))
            rows.append(list(rows[j]))
            for per in M["cf"].values():
                if t in per:
                    per[t].append(per[t][j])
        seq = [rng.choice(ops) for _ in range(rng.randint(1, 4))]
        before = G.content(M)
        canon = {"mesh": json_mesh(M), "ops": seq}
        try:
            with quiet():
                warnings.simplefilter("ignore")
                f = with_markers(M)
                cur_dim = M["dim"]
                applied = []
                for op in seq:
                    Mb_before = G.from_fieldcompare(f)
                    if op == "sort_points":
                        g = sort_points(f)
                    elif op == "sort_cells":
                        g = sort_cells(f)
                    elif op == "strip":
                        g = strip_orphan_points(f)
                    elif op == "sort":
                        g = sort(f)
                    elif op == "extend":
                        g = extend_space_dimension_to(3, f)
                    else:
                        g = split_and_merge(rng, f, merge)
                        if g is None:
                            continue
                    # per-step checks
                    Mb = G.from_fieldcompare(f)
                    Ma = G.from_fieldcompare(g)
                    if Mb != Mb_before:
                        ctx.violation("E4", f"transformation '{op}' modified the data set it was given", canon)
                    pid_b, _ = markers_of(f)
                    pid_a, cid_a = markers_of(g)
                    if op in ("strip", "sort_points", "sort", "sort_cells"):
                        # index map of the step, observed through the marker field: positions in the input numbering
                        pos = {v: i for i, v in enumerate(pid_b)}
                        pmap = [pos[v] for v in pid_a]
                        Mb_nom = strip_markers(Mb)
                        if op == "strip":
                            exprs.append(f"check_strip (MK (idpts {cnat(len(Mb['pts']))}) {coq_blocks(Mb_nom)}) {clist([cnat(i) for i in pmap], 'nat')}")
                            metas.append(("check_strip", canon, pmap))
                        elif op in ("sort_points", "sort_cells"):
                            exprs.append(f"is_perm {cnat(len(Mb['pts']))} {clist([cnat(i) for i in pmap], 'nat')}")
                            metas.append(("is_perm", canon, pmap))
                        else:
                            exprs.append(f"check_strip (MK (idpts {cnat(len(Mb['pts']))}) {coq_blocks(Mb_nom)}) {clist([cnat(i) for i in pmap], 'nat')}")
                            metas.append(("check_strip(sort)", canon, pmap))
                    if op == "extend":
                        bad = extend_violation(Mb, Ma)
                        if bad:
                            ctx.violation("E4", f"extend_space_dimension_to does more than append zeros: {bad}", canon)
                    applied.append(op)
                    f = g
                after_M = strip_markers(G.from_fieldcompare(f))
        except InputModified as e:
            ctx.violation("E4", str(e), canon)
            continue
        except Exception as e:  # noqa: BLE001
            if G.has_coincident_points(M) and "uniquely sort duplicate" in str(e):
                ctx.count("c08:duplicate orphan points (documented limitation)")
                continue
            ctx.violation("E4", f"public transformation raised {type(e).__name__}: {e}", canon)
            continue
        try:
            after = G.content(after_M)
        except (IndexError, KeyError) as e:
            ctx.case(canon, True)
            ctx.violation("E4", f"the result of the transformations is not a consistent data set ({type(e).__name__}: a corner index or "
                                "a field row points outside the points / cells)", canon, applied=applied)
            continue
        ctx.case(canon, True, sample={"case": canon, "applied": applied})
        for op in applied:
            ctx.count(f"op:{op}")
        if "extend" in applied:
            # extension changes vector/tensor rows by appended zeros only: compare scalar content + geometry, rows checked per step
            same = [(p, ) for p, _ in before[0]] == [(p, ) for p, _ in after[0]] and \
                   [(t, c) for t, c, _ in before[1]] == [(t, c) for t, c, _ in after[1]]
        else:
            same = before == after
        if not same:
            ctx.violation("E4", "a transformation changed the data set as a geometric object (content before != after)", canon,
                          applied=applied)
        ctx.traces_validated += 1
    merge_partial_fields_stream(ctx, 150 if q else 4000, merge)
    merge_narrow_index_stream(ctx, 10 if q else 200, merge)
    merge_geometry_stream(ctx, 120 if q else 3000, merge)
    merge_many_stream(ctx, 100 if q else 3000, merge)
    composition_refinement_stream(ctx, 150 if q else 4000)
    vals = ctx.coq_eval(HEADER, exprs, name="c08chk")
    for (kind, canon, pmap), v in zip(metas, vals):
        ctx.tie(f"T3 {kind}")
        if v is not True:
            ctx.violation("E3", f"verified checker {kind} rejects the index map {pmap} produced by the implementation", canon,
                          found_input=False)
    ctx.rule = ("(1) PermutedMesh views with explicit random point/cell index maps (permutations, injective covers, and maps "
                "missing a referenced point) on meshes of all generated kinds; (2) compositions of 1-4 public transformations "
                "(sort_points, sort_cells, strip_orphan_points, sort, extend_space_dimension_to, split+merge) on meshes with "
                "orphan / coincident points, mixed cell types, scalar/vector/tensor/int fields. non-trivial = map is not the identity")

HEADER_COMPOSE = HEADER + """From FC Require Import Model.Compose.
Definition runview (n : nat) (c : list (nat * list (list nat))) (ops : list op) :=
  match run (MK (idpts n) c) ops with
  | Some M => Some (ptids M, cells M)
  | None => None
  end.
"""


def composition_refinement_stream(ctx, n):
    """T2 tie of Model/Compose.v `run` (C08_any_composition_keeps_cells is a theorem about it): sequences of 1-6 public
    reordering transformations; the index maps of every step are observed through marker fields and handed to the model as
    one OPoints / OCells / OStrip step each; the model's final point numbering and connectivity must be the implementation's"""
    from fieldcompare.mesh import sort, sort_points, sort_cells, strip_orphan_points
    rng = ctx.rng
    fns = {"sort_points": sort_points, "sort_cells": sort_cells, "strip": strip_orphan_points, "sort": sort}
    exprs, metas = [], []
    for _ in range(n):
        M = G.gen_mesh(rng)
        if rng.random() < 0.5:
            G.add_orphans(rng, M)
        if G.has_coincident_points(M):
            continue
        seq = [rng.choice(list(fns)) for _ in range(rng.randint(1, 6))]
        canon = {"mesh": json_mesh(M), "ops": seq, "stream": "composition refinement"}
        types = [t for t, _ in M["blocks"]]
        try:
            with quiet():
                warnings.simplefilter("ignore")
                f = with_markers(M)
                mops = []
                for op in seq:
                    pid_b, cid_b = markers_of(f)
                    used_b = sorted({c for _, rows in G.from_fieldcompare(f)["blocks"] for r in rows for c in r})
                    g = fns[op](f)
                    pid_a, cid_a = markers_of(g)
                    pos = {v: i for i, v in enumerate(pid_b)}
                    pmap = [pos[v] for v in pid_a]
                    if op == "strip" and pmap == used_b:
                        mops.append("OStrip")
                    else:
                        mops.append(f"(OPoints {clist([cnat(i) for i in pmap], 'nat')})")
                    kmaps = []
                    for t in types:
                        cpos = {v: i for i, v in enumerate(cid_b[t])}
                        kmaps.append([cpos[v] for v in cid_a[t]])
                    if any(k != sorted(k) for k in kmaps) or rng.random() < 0.3:
                        mops.append(f"(OCells {clist([clist([cnat(i) for i in k], 'nat') for k in kmaps], '(list nat)')})")
                    f = g
                final = strip_markers(G.from_fieldcompare(f))
                pid_final, _ = markers_of(f)
        except Exception as e:  # noqa: BLE001
            if "uniquely sort duplicate" in str(e):
                ctx.count("c08:duplicate orphan points (documented limitation)")
                continue
            ctx.case(canon, True)
            ctx.violation("E4", f"public transformation raised {type(e).__name__}: {e}", canon)
            continue
        exprs.append(f"runview {cnat(len(M['pts']))} {coq_blocks(M)} {clist(mops, 'op')}")
        for m_ in mops:
            ctx.count("composition model step:" + m_.strip("(").split(" ")[0])
        metas.append((canon, pid_final, {G.VTK_ID[t]: [list(r) for r in rows] for t, rows in final["blocks"]}, len(mops)))
    vals = ctx.coq_eval(HEADER_COMPOSE, exprs, name="c08run")
    for (canon, pid_final, blocks, nops), v in zip(metas, vals):
        ctx.tie("T2 Model.Compose.run = composition of the public reordering transformations")
        ctx.case(canon, True, sample={"case": canon, "impl": [pid_final, blocks], "model": v})
        ctx.count(f"composition:{len(canon['ops'])} transformations")
        if v == "None":
            ctx.violation("E2", "composition model: a step the implementation performed is not defined in the model (a referenced "
                                "point missing from a point map, or a cell map that is no permutation)", canon, found_input=False)
            continue
        _, (mp, mc) = v
        mblocks = {int(t): [list(r) for r in rows] for t, rows in mc}
        if [int(x) for x in mp] != pid_final or mblocks != blocks:
            ctx.violation("E2", f"composition model: final numbering / connectivity of the model ({list(mp)}, {mblocks}) is not the "
                                f"implementation's ({pid_final}, {blocks})", canon, found_input=False)
        ctx.traces_validated += 1


def split_pieces(rng, M):
    """two pieces of the cells of M, each with exactly its own points (None if M cannot be split that way)"""
    ncells = sum(len(rows) for _, rows in M["blocks"])
    if ncells < 2 or G.has_coincident_points(M):
        return None
    pieces = [{"dim": M["dim"], "pts": [], "blocks": [], "pf": {k: [] for k in M["pf"]}, "cf": {}} for _ in range(2)]
    local = [{}, {}]
    assign = {}
    for t, rows in M["blocks"]:
        for j in range(len(rows)):
            assign[(t, j)] = rng.randrange(2)
    # the first piece must own at least one cell; the second must contribute a new point (documented precondition of this oracle)
    first = next(iter(assign))
    assign[first] = 0
    for t, rows in M["blocks"]:
        for k in range(2):
            sel = [j for j in range(len(rows)) if assign[(t, j)] == k]
            if not sel:
                continue
            newrows = []
            for j in sel:
                r = []
                for c in rows[j]:
                    if c not in local[k]:
                        local[k][c] = len(pieces[k]["pts"])
                        pieces[k]["pts"].append(M["pts"][c])
                        for nm in M["pf"]:
                            pieces[k]["pf"][nm].append(M["pf"][nm][c])
                    r.append(local[k][c])
                newrows.append(r)
            pieces[k]["blocks"].append([t, newrows])
            for nm, per in M["cf"].items():
                pieces[k]["cf"].setdefault(nm, {})[t] = [per[t][j] for j in sel]
    if not pieces[1]["blocks"] or not (set(local[1]) - set(local[0])):
        return None
    return pieces, local


def split_and_merge(rng, f, merge):
    """split the cells of f into two pieces (each with exactly its own points) and merge them again"""
    from fieldcompare.mesh import Mesh, MeshFields
    M = G.from_fieldcompare(f)
    sp = split_pieces(rng, M)
    if sp is None:
        return None
    pieces, local = sp
    # orphan points are dropped by this reconstruction; content only covers connected points
    fs = []
    for P in pieces:
        extra_p = {nm: np.array(P["pf"].pop(nm), dtype=np.int64) for nm in list(P["pf"]) if nm == "__pid"}
        extra_c = {}
        if "__cid" in P["cf"]:
            per = P["cf"].pop("__cid")
            extra_c["__cid"] = [np.array(per[t], dtype=np.int64) for t, _ in P["blocks"]]
        fs.append(G.to_fieldcompare(P, extra_p, extra_c))
    before = [G.from_fieldcompare(x) for x in fs]
    merged = merge(fs[0], fs[1])
    first = G.from_fieldcompare(merged)
    # the pieces must be left exactly as they were, and merging them again must give the same result
    if [G.from_fieldcompare(x) for x in fs] != before:
        raise InputModified("merge modified the data of a piece it was given")
    if G.from_fieldcompare(merge(fs[0], fs[1])) != first:
        raise InputModified("merging the same pieces a second time gives a different result")
    return merged


def true_zero(proto):
    if isinstance(proto, list):
        return [true_zero(x) for x in proto]
    return 0 if isinstance(proto, int) else Fr(0)


def partial_merge_verdict(pieces, dedup, merge):
    """None if merge(pieces[0], pieces[1]) meets the zero-fill specification, else what is wrong"""
    try:
        with quiet():
            warnings.simplefilter("ignore")
            fs = [G.to_fieldcompare(P) for P in pieces]
            merged = G.from_fieldcompare(merge(fs[0], fs[1], remove_duplicate_points=dedup))
    except Exception as e:  # noqa: BLE001
        return f"raised {type(e).__name__}: {e}"
    ptsA = [tuple(p) for p in pieces[0]["pts"]]
    setA = set(ptsA)
    newB = [j for j, p in enumerate(pieces[1]["pts"]) if not dedup or tuple(p) not in setA]
    exp_pts = [list(p) for p in pieces[0]["pts"]] + [pieces[1]["pts"][j] for j in newB]
    if merged["pts"] != exp_pts:
        return "points of the merged data set are not (first piece, then the new points of the second)"
    for nm in sorted(set(pieces[0]["pf"]) | set(pieces[1]["pf"])):
        proto = (pieces[0]["pf"].get(nm) or pieces[1]["pf"].get(nm))[0]
        zero = true_zero(proto)
        a_rows = pieces[0]["pf"][nm] if nm in pieces[0]["pf"] else [zero] * len(ptsA)
        b_rows = [pieces[1]["pf"][nm][j] for j in newB] if nm in pieces[1]["pf"] else [zero] * len(newB)
        got = merged["pf"].get(nm)
        if got is None:
            return f"point field {nm} is missing in the merged data set"
        if got != list(a_rows) + list(b_rows):
            return (f"point field {nm}: merged rows are not (rows on the first piece's points, rows on the new points; "
                    "zeros where the field is missing)")
        if isinstance(G.first_scalar(proto), int) != isinstance(G.first_scalar(got[0]), int):
            return f"point field {nm} changed between integer and floating point"
    return None


def merge_partial_fields_stream(ctx, n, merge):
    """merge of two pieces whose point-field sets differ: a field missing on one side is filled with zeros of the field's
    type and shape on that side's points; everything else is carried over exactly (points of the first piece, then the new
    points of the second one)"""
    rng = ctx.rng
    todo = []
    for f in sorted((lib.VERIF / "corpus" / "C08").glob("found-merge-partial*.json")):
        c = json.loads(f.read_text())["case"]
        todo.append(([restore_mesh(x) for x in c["pieces"]], c["remove_duplicate_points"], "corpus"))
    for _ in range(n):
        M = G.add_fields(rng, G.gen_mesh(rng), kinds=("scalar", "vector", "int", "tensor"))
        M["pf"]["q"] = [Fr(rng.randint(1, 500), 4) for _ in M["pts"]]
        M["pf"]["k"] = [rng.randint(1, 90) for _ in M["pts"]]
        sp = split_pieces(rng, M)
        if sp is None:
            continue
        pieces, local = sp
        names = sorted(M["pf"])
        drop = {0: set(), 1: set()}
        for nm in names:
            r = rng.random()
            if r < 0.3:
                drop[0].add(nm)
            elif r < 0.6:
                drop[1].add(nm)
        if not drop[0] and not drop[1]:
            drop[rng.randrange(2)].add(rng.choice(names))
        for k in range(2):
            for nm in drop[k]:
                pieces[k]["pf"].pop(nm)
        todo.append((pieces, rng.random() < 0.75, "generated"))
    for pieces, dedup, origin in todo:
        canon = {"pieces": [json_mesh(P) for P in pieces], "remove_duplicate_points": dedup}
        only1 = sorted(set(pieces[0]["pf"]) - set(pieces[1]["pf"]))
        only2 = sorted(set(pieces[1]["pf"]) - set(pieces[0]["pf"]))
        bad = partial_merge_verdict(pieces, dedup, merge)
        ctx.case(canon, True, sample={"only in first": only1, "only in second": only2, "dedup": dedup, "origin": origin})
        ctx.count(f"c08 merge, differing field sets:{'dedup' if dedup else 'keep duplicates'}:{origin}")
        ctx.tie("T2 merge with differing point-field sets = zero-fill specification")
        if bad:
            ctx.violation("E4", "merge of pieces with different point-field sets: " + bad, canon, only_in_first=only1, only_in_second=only2)
        ctx.traces_validated += 1


def merge_geometry_stream(ctx, n, merge):
    """split + merge on coordinates that are not a tidy lattice: rotated meshes (columns equal only up to rounding noise) and
    meshes with two DISTINCT points closer to each other than the mesh tolerance (a thin fracture): shared points are the
    bit-identical ones — nothing else may be fused, nothing may be kept twice"""
    import math
    rng = ctx.rng
    for it in range(n):
        M = G.add_fields(rng, G.gen_mesh(rng, max_cells=6), kinds=("scalar", "int"))
        if G.has_coincident_points(M) or M["dim"] < 2:
            continue
        variant = rng.choice(["rotated", "rotated", "near-coincident", "rotated+near-coincident"])
        if "rotated" in variant:
            ang = rng.choice([-math.pi / 2, math.pi / 4, math.pi / 2, 0.3, 2.0])
            c_, s_ = math.cos(ang), math.sin(ang)
            for p in M["pts"]:
                x, y = float(p[0]), float(p[1])
                p[0], p[1] = Fr(c_ * x - s_ * y), Fr(s_ * x + c_ * y)
        if "near-coincident" in variant:
            cells = [(bi, j) for bi, (t, rows) in enumerate(M["blocks"]) for j in range(len(rows))]
            bi, j = rng.choice(cells)
            row = M["blocks"][bi][1][j]
            a = rng.randrange(len(row))
            old = row[a]
            scale = max(max(abs(x) for x in p) for p in M["pts"]) or Fr(1)
            newp = list(M["pts"][old])
            d_ = rng.randrange(M["dim"])
            newp[d_] = Fr(float(newp[d_] + scale * Fr(1, 2 ** 28)))        # ~4e-9 of the mesh size: below the default tolerance
            if any(tuple(newp) == tuple(p) for p in M["pts"]):
                continue
            M["pts"].append(newp)
            for k in M["pf"]:
                proto = M["pf"][k][old]
                M["pf"][k].append(proto + 1 if not isinstance(proto, list) else [v + 1 for v in proto])
            row[a] = len(M["pts"]) - 1
        canon = {"mesh": json_mesh(M), "variant": variant}
        try:
            with quiet():
                warnings.simplefilter("ignore")
                g = split_and_merge(rng, G.to_fieldcompare(M), merge)
                if g is None:
                    continue
                after = G.content(G.from_fieldcompare(g))
        except InputModified as e:
            ctx.violation("E4", str(e), canon)
            continue
        except Exception as e:  # noqa: BLE001
            ctx.case(canon, True)
            ctx.violation("E4", f"split + merge raised {type(e).__name__}: {e} ({variant})", canon)
            continue
        ctx.case(canon, True, sample={"variant": variant, "points": len(M["pts"])})
        ctx.count(f"c08 merge geometry:{variant}")
        npts_after = len(G.from_fieldcompare(g)["pts"])
        used = len({c for _, rows in M["blocks"] for r in rows for c in r})
        if after != G.content(M):
            ctx.violation("E4", f"split + merge changed the data set as a geometric object ({variant}: {used} connected points before, "
                                f"{npts_after} points after)", canon)
        elif npts_after != used:
            ctx.violation("E4", f"split + merge keeps {npts_after} points for {used} connected points ({variant}): a shared point is "
                                "stored twice or distinct points were fused", canon)
        ctx.traces_validated += 1


def merge_many_stream(ctx, n, merge):
    """merge() handed three to seven pieces in ONE call (the pieces of a decomposed mesh, each with exactly its own points):
    the merged data set must hold every cell of every piece (type, corner coordinates, cell-field values) and, with duplicate
    points removed, exactly the connected points of the whole mesh with their values"""
    rng = ctx.rng
    todo = []
    for f in sorted((lib.VERIF / "corpus" / "C08").glob("found-merge-many*.json")):
        c = json.loads(f.read_text())["case"]
        todo.append(([restore_mesh(x) for x in c["pieces"]], c["remove_duplicate_points"], "corpus"))
    done = tries = 0
    while done < n and tries < 20 * n:
        tries += 1
        M = G.add_fields(rng, G.gen_mesh(rng, max_cells=9), kinds=("scalar", "vector", "int"))
        cells_ = [(t, j) for t, rows in M["blocks"] for j in range(len(rows))]
        if len(cells_) < 3 or G.has_coincident_points(M):
            continue
        k = rng.randint(3, min(7, len(cells_)))
        rng.shuffle(cells_)
        assign = {c: (i if i < k else rng.randrange(k)) for i, c in enumerate(cells_)}      # every piece owns a cell
        pieces = [{"dim": M["dim"], "pts": [], "blocks": [], "pf": {nm: [] for nm in M["pf"]}, "cf": {}} for _ in range(k)]
        local = [{} for _ in range(k)]
        for t, rows in M["blocks"]:
            for i in range(k):
                sel = [j for j in range(len(rows)) if assign[(t, j)] == i]
                if not sel:
                    continue
                newrows = []
                for j in sel:
                    r = []
                    for c in rows[j]:
                        if c not in local[i]:
                            local[i][c] = len(pieces[i]["pts"])
                            pieces[i]["pts"].append(M["pts"][c])
                            for nm in M["pf"]:
                                pieces[i]["pf"][nm].append(M["pf"][nm][c])
                        r.append(local[i][c])
                    newrows.append(r)
                pieces[i]["blocks"].append([t, newrows])
                for nm, per in M["cf"].items():
                    pieces[i]["cf"].setdefault(nm, {})[t] = [per[t][j] for j in sel]
        done += 1
        todo.append((pieces, rng.random() < 0.8, "generated"))
    for pieces, dedup, origin in todo:
        k = len(pieces)
        canon = {"kind": "merge_many", "pieces": [json_mesh(P) for P in pieces], "remove_duplicate_points": dedup}
        try:
            with quiet():
                warnings.simplefilter("ignore")
                fs = [G.to_fieldcompare(P) for P in pieces]
                got = G.content(G.from_fieldcompare(merge(*fs, remove_duplicate_points=dedup)))
                per_piece = [G.content(P) for P in pieces]
        except Exception as e:  # noqa: BLE001
            ctx.case(canon, True)
            ctx.violation("E4", f"merge of {k} pieces raised {type(e).__name__}: {e}", canon)
            continue
        want_cells = sorted(c for pc in per_piece for c in pc[1])
        want_points = sorted(set(p for pc in per_piece for p in pc[0]))      # shared points carry the same values in every piece
        ctx.case(canon, True, sample={"pieces": k, "remove_duplicate_points": dedup, "origin": origin,
                                      "cells": [sum(len(r) for _, r in P["blocks"]) for P in pieces]})
        ctx.count(f"c08:merge of {k} pieces in one call")
        # pieces all of whose points already exist in the pieces before them (open finding F-C06a: merge drops their cells)
        seen, nofresh = set(), []
        for i, P in enumerate(pieces):
            own = {tuple(pt) for pt in P["pts"]}
            if i > 0 and own <= seen:
                nofresh.append(i)
            seen |= own
        if nofresh:
            ctx.count("c08:merge of several pieces, some piece without new points")
        if want_cells != got[1]:
            kept = sorted(c for i, pc in enumerate(per_piece) if i not in nofresh for c in pc[1])
            if nofresh and dedup and kept == got[1]:
                ctx.violation("E4", f"F-C06a (seen through C08) merge of {k} pieces: exactly the cells of the pieces {nofresh}, which "
                                    "contribute no new point, are missing from the merged data set", canon, pieces_without_new_points=nofresh)
            else:
                ctx.violation("E4", f"merge of {k} pieces in one call loses or alters cells: {len(got[1])} cells after, {len(want_cells)} "
                                    "in the pieces", canon)
        elif dedup and want_points != got[0]:
            ctx.violation("E4", f"merge of {k} pieces in one call (duplicate points removed) does not hold exactly the connected points "
                                "of the pieces with their values", canon)
        ctx.traces_validated += 1


def merge_narrow_index_stream(ctx, n, merge):
    """two polyline pieces whose connectivity is stored in a narrow integer type (each piece is small enough for it, the merged
    point count is not): the merged cells still connect the same coordinates"""
    from fieldcompare.mesh import Mesh, MeshFields, CellTypes
    rng = ctx.rng
    for _ in range(n):
        dt = rng.choice(["int8", "uint8"])
        cap = 127 if dt == "int8" else 255
        n1, n2 = rng.randint(cap // 2 + 10, cap), rng.randint(20, cap)
        shared = rng.random() < 0.5
        p1 = [[float(i), 0.0] for i in range(n1)]
        p2 = [[float(n1 - 1 + i) if shared else float(n1 + 5 + i), 0.0 if shared and i == 0 else 1.0] for i in range(n2)]
        canon = {"narrow_index_merge": {"dtype": dt, "points": [n1, n2], "pieces_share_a_point": shared}}
        try:
            with quiet():
                warnings.simplefilter("ignore")
                a = MeshFields(Mesh(np.array(p1), [(CellTypes.line, np.array([[i, i + 1] for i in range(n1 - 1)], dtype=dt))]),
                               {"u": np.arange(float(n1))}, {"c": [np.arange(float(n1 - 1))]})
                b = MeshFields(Mesh(np.array(p2), [(CellTypes.line, np.array([[i, i + 1] for i in range(n2 - 1)], dtype=dt))]),
                               {"u": 1000.0 + np.arange(float(n2))}, {"c": [1000.0 + np.arange(float(n2 - 1))]})
                m = merge(a, b)
                P = np.asarray(m.domain.points)
                conn = np.asarray(m.domain.connectivity(CellTypes.line))
                got = sorted(tuple(sorted(tuple(P[int(c)]) for c in row)) for row in conn)
        except Exception as e:  # noqa: BLE001
            ctx.case(canon, True)
            ctx.violation("E4", f"merge of pieces with {dt} connectivity raised / gave unusable indices: {type(e).__name__}: {e}", canon)
            continue
        want = sorted([tuple(sorted((tuple(p1[i]), tuple(p1[i + 1])))) for i in range(n1 - 1)]
                      + [tuple(sorted((tuple(p2[i]), tuple(p2[i + 1])))) for i in range(n2 - 1)])
        ctx.case(canon, True, sample=canon)
        ctx.count(f"c08 merge, {dt} connectivity")
        if got != want:
            ctx.violation("E4", f"merge of pieces with {dt} connectivity: the merged cells do not connect the same coordinates "
                                f"(largest corner index {int(conn.max())}, {len(P)} merged points)", canon)
        ctx.traces_validated += 1


class InputModified(Exception):
    pass


def extend_violation(Mb, Ma):
    if [(t, rows) for t, rows in Mb["blocks"]] != [(t, rows) for t, rows in Ma["blocks"]]:
        return "connectivity changed"
    for p, q in zip(Mb["pts"], Ma["pts"]):
        if q[:len(p)] != p or any(x != 0 for x in q[len(p):]) or len(q) != 3:
            return f"point {p} -> {q}"
    d = Mb["dim"]
    for nm, rows in Mb["pf"].items():
        for r, s in zip(rows, Ma["pf"][nm]):
            if not isinstance(r, list):
                if r != s:
                    return f"scalar field {nm} changed"
            elif r and isinstance(r[0], list):
                ok = all(s[i][:len(r[i])] == r[i] and all(x == 0 for x in s[i][len(r[i]):]) for i in range(len(r))) and \
                     all(all(x == 0 for x in row) for row in s[len(r):])
                if not ok:
                    return f"tensor field {nm}: {r} -> {s}"
            else:
                if s[:len(r)] != r or any(x != 0 for x in s[len(r):]):
                    return f"vector field {nm}: {r} -> {s}"
    return None


def json_mesh(M):
    return json.loads(json.dumps({k: v for k, v in M.items() if k != "_orph"}, default=str))


# ------------------------------------------------------------------------------------------------
# replaying the retry ladder through the public transformations
# ------------------------------------------------------------------------------------------------
def ladder(src, ref, disable_reorder=False, disable_orphans=False, disable_dim=False):
    """-> (final domain verdict, list of (stage, source view, reference view, impl verdict))"""
    from fieldcompare.mesh import strip_orphan_points, sort_points, sort_cells, extend_space_dimension_to
    stages = []

    def eq(a, b, name):
        v = bool(a.domain.equals(b.domain))
        stages.append((name, a, b, v))
        return v
    if eq(src, ref, "as-is"):
        return True, stages
    ds, dr = src.domain.points.shape[1], ref.domain.points.shape[1]
    if ds != dr and not disable_dim:
        m = max(ds, dr)
        src, ref = extend_space_dimension_to(m, src), extend_space_dimension_to(m, ref)
        if eq(src, ref, "extended"):
            return True, stages
    if not disable_reorder:
        def perm(f):
            if not disable_orphans:
                f = strip_orphan_points(f)
            return sort_points(f)
        src, ref = perm(src), perm(ref)
        if eq(src, ref, "sorted points"):
            return True, stages
        src, ref = sort_cells(src), sort_cells(ref)
        if eq(src, ref, "sorted cells"):
            return True, stages
    return False, stages


def compare_impl(src, ref, predicate_selector=None, **kw):
    from fieldcompare.mesh import MeshFieldsComparator
    msgs = []
    call_kw = {"predicate_selector": predicate_selector} if predicate_selector else {}
    with quiet():
        warnings.simplefilter("ignore")
        suite = MeshFieldsComparator(src, ref, **kw)(fieldcomp_callback=lambda c: None, reordering_callback=msgs.append, **call_kw)
    stage = 0
    for m in msgs:
        for key, idx in (("extended points", 1), ("sorted points", 2), ("sorted cells", 3)):
            if f"Retrying with {key}" in m:
                stage = idx
    return {"domain": bool(suite.domain_equality_check), "bool": bool(suite), "stage": stage,
            "fields": sorted((c.name, c.status.name) for c in suite)}


def ladder_expr(A, B, opts):
    """Gallina expression: Model.Mesh.ladder on the four view pairs built with the public transformations"""
    from fieldcompare.mesh import strip_orphan_points, sort_points, sort_cells, extend_space_dimension_to
    src, ref = G.to_fieldcompare(A), G.to_fieldcompare(B)
    dd = opts.get("disable_space_dimension_matching", False)
    dr = opts.get("disable_mesh_reordering", False)
    do = opts.get("disable_orphan_point_removal", False)
    views = [(src, ref)]
    if A["dim"] != B["dim"] and not dd:
        m = max(A["dim"], B["dim"])
        src, ref = extend_space_dimension_to(m, src), extend_space_dimension_to(m, ref)
    views.append((src, ref))

    def perm(f):
        return sort_points(f if do else strip_orphan_points(f))
    src, ref = perm(src), perm(ref)
    views.append((src, ref))
    src, ref = sort_cells(src), sort_cells(ref)
    views.append((src, ref))
    rel = min(tol_of(views[0][0])[0], tol_of(views[0][1])[0])
    ab = min(tol_of(views[0][0])[1], tol_of(views[0][1])[1])
    pairs = [f"({coq_mesh(G.from_fieldcompare(a))}, {coq_mesh(G.from_fieldcompare(b))})" for a, b in views]
    return (f"ladder (mesh_equal {lib.cqfrac(rel)} {lib.cqfrac(ab)}) {lib.cbool(dd)} {lib.cbool(dr)} false "
            f"{{| lv_as_is := {pairs[0]}; lv_extended := {pairs[1]}; lv_sorted_points := {pairs[2]}; lv_sorted_cells := {pairs[3]} |}}")


def run_ladder_batch(ctx, batch):
    """T2: verdict and last stage of MeshFieldsComparator vs Model.Mesh.ladder over Model.Mesh.mesh_equal"""
    exprs = [e for _, e, _ in batch]
    vals = ctx.coq_eval(HEADER, exprs, name="ladder", shard=40)
    for (canon, _, im), (verdict, stage) in zip(batch, vals):
        ctx.tie("MeshFieldsComparator vs Model.Mesh.ladder")
        if verdict != im["domain"] or (stage != im["stage"]):
            ctx.violation("E2", f"ladder: model (verdict {verdict}, stage {stage}) != implementation (verdict {im['domain']}, stage {im['stage']})",
                          canon, found_input=False)


def stage_exprs(stages):
    """Gallina expressions evaluating Model.Mesh.mesh_equal on the views of every ladder stage"""
    exprs, impl = [], []
    for name, a, b, v in stages:
        A, B = strip_markers(G.from_fieldcompare(a)), strip_markers(G.from_fieldcompare(b))
        rel = min(tol_of(a)[0], tol_of(b)[0])
        ab = min(tol_of(a)[1], tol_of(b)[1])
        if name != "as-is" or type(a.domain).__name__ != "Mesh":
            # views (PermutedMesh) use the receiver's tolerances
            rel, ab = tol_of(a)
        exprs.append((f"mesh_equal {lib.cqfrac(rel)} {lib.cqfrac(ab)} {coq_mesh(A)} {coq_mesh(B)}", oracle_equal(A, B, rel, ab), v, name))
    return exprs


# ------------------------------------------------------------------------------------------------
# C02
# ------------------------------------------------------------------------------------------------
def gen_pair_equal(rng, noise=True):
    M = G.add_fields(rng, G.gen_mesh(rng), kinds=("scalar", "vector", "int"))
    flavour = []
    r_ = rng.random()
    if r_ < 0.2:
        G.make_discontinuous(rng, M)
        flavour.append("discontinuous")
    elif r_ < 0.4 and G.make_interface(rng, M):
        flavour.append("discontinuous")          # (coincident points along an internal interface, several cells per copy)
        flavour.append("interface")
    rot = rng.random() < 0.3          # cells listed from another start corner on one side
    N, perm, cperms = G.relabel(rng, M, rotate=rot)
    if rot:
        flavour.append("rotated_corners")
    if rng.random() < 0.35:
        G.add_orphans(rng, M)
        flavour.append("orphans_src")
    if rng.random() < 0.35:
        G.add_orphans(rng, N)
        flavour.append("orphans_ref")
    eps = Fr(0)
    if noise and rng.random() < 0.6:
        tol = min(G.dyadic_tol(M), G.dyadic_tol(N))
        if tol > 0:
            eps = tol / 4096
            G.add_noise(rng, M, eps)
            G.add_noise(rng, N, eps)
            flavour.append("noise")
    if eps == 0 and rng.random() < 0.25:
        # coordinates stored in single precision on both sides (to_fieldcompare does so only when every coordinate is representable)
        M["ptype"] = N["ptype"] = "float32"
        flavour.append("float32_coordinates")
    return M, N, flavour, eps


def run_c02(ctx):
    from fieldcompare.mesh import sort
    q = ctx.tier == "quick"
    n = 900 if q else 25000
    rng = ctx.rng
    stage_batch = []
    sort_batch = []
    noisy_batch = []
    for it in range(n):
        M, N, flavour, eps = gen_pair_equal(rng)
        if (eps > 0 and "discontinuous" not in flavour and len(M["pts"]) <= 24
                and len(noisy_batch) < (60 if q else 1500)):
            noisy_batch.append(({"source": json_mesh(M), "reference": json_mesh(N), "flavour": flavour}, M, N))
        canon = {"source": json_mesh(M), "reference": json_mesh(N), "flavour": flavour}
        nontrivial = sum(len(r) for _, r in M["blocks"]) >= 2
        try:
            with quiet():
                warnings.simplefilter("ignore")
                src, ref = G.to_fieldcompare(M), G.to_fieldcompare(N)
                res = compare_impl(src, ref)
                final, stages = ladder(with_markers(M), with_markers(N))
        except Exception as e:  # noqa: BLE001
            ctx.case(canon, nontrivial)
            ctx.violation("E4", f"comparison of two equal-up-to-reordering data sets raised {type(e).__name__}: {e}", canon)
            continue
        ctx.case(canon, nontrivial, sample={"case": canon, "impl": res, "stages": [(s[0], s[3]) for s in stages]})
        for fl in flavour or ["plain"]:
            ctx.count(f"c02:{fl}")
        ctx.count(f"c02:stage:{stages[-1][0]}")
        ctx.count(f"c02:dim{M['dim']}")
        bad_fields = [f for f in res["fields"] if f[1] != "passed"]
        if not res["domain"] or bad_fields:
            ctx.violation("E4", "equal-up-to-reordering data sets do not pass: "
                          + ("domains reported unequal" if not res["domain"] else f"fields {bad_fields[:3]}"), canon, impl=res)
        elif final != res["domain"]:
            ctx.violation("E2", "MeshFieldsComparator verdict differs from the documented retry ladder replayed with the public transformations",
                          canon, found_input=False)
        if it % 3 == 0:
            stage_batch.append((canon, stage_exprs(stages)))
        # canonical sorting: identical sorted representations in the absence of noise
        if eps == 0 and not G.has_coincident_points(M) and "rotated_corners" not in flavour:
            # (sorting brings points, cells and type blocks into one order; it does not choose a start corner within a cell)
            try:
                with quiet():
                    warnings.simplefilter("ignore")
                    SA = G.from_fieldcompare(sort(G.to_fieldcompare(M)))
                    SB = G.from_fieldcompare(sort(G.to_fieldcompare(N)))
                # cell-type block order is the mesh's own; compare per type
                same = SA["pts"] == SB["pts"] and dict(map(tuple_block, SA["blocks"])) == dict(map(tuple_block, SB["blocks"])) \
                    and SA["pf"] == SB["pf"] and SA["cf"] == SB["cf"]
                ctx.count("c02:canonical sort compared")
                if it % 2 == 0:
                    sort_batch.append((canon, M))
                    sort_batch.append((canon, N))
                if not same:
                    ctx.violation("E4", "sorted representations of two noise-free equal data sets are not identical", canon)
            except Exception as e:  # noqa: BLE001
                ctx.violation("E4", f"sort raised {type(e).__name__}: {e}", canon)
        ctx.traces_validated += 1
    structured_vs_permuted_stream(ctx, 80 if q else 2500)
    run_stage_batch(ctx, stage_batch)
    run_sort_checkers(ctx, sort_batch)
    run_noisy_checkers(ctx, noisy_batch)
    large_mesh_stream(ctx, 3 if q else 12)
    ctx.rule = ("pairs (M, relabel(M)): random / reversed / swapped point order, shuffled cells within type, shuffled type blocks, "
                "optional orphan points on either side, coincident points (discontinuous meshes), coordinate noise <= tol/2000 on "
                "both sides; 1d/2d/3d and 2d-in-3d meshes of lines, triangles, quads, pixels, polygons, tets, hexes, voxels; "
                "lattice / sheared / jittered coordinates, scales 2^-20..2^20 with offsets. non-trivial = at least 2 cells")


def large_mesh_stream(ctx, n):
    """meshes of about 1.6e5 cells of one type (a lattice of quads, triangles or hexahedra) against a copy with points and cells
    in another random order: sort keys of limited width (a 32-bit checksum per cell, say) only collide at this size.  The
    implementation alone is run (the model is not evaluated on meshes of this size): domains equal, every field passed, and the
    sorted representations identical."""
    from fieldcompare.mesh import Mesh, MeshFields, MeshFieldsComparator, CellTypes, sort
    for it in range(n):
        kind = ["quad", "quad", "triangle", "hexahedron"][it % 4] if n > 2 else "quad"
        s1, s2 = ctx.rng.randrange(2 ** 31), ctx.rng.randrange(2 ** 31)
        if kind == "hexahedron":
            m = 54
            i, j, k = np.meshgrid(np.arange(m + 1), np.arange(m + 1), np.arange(m + 1), indexing="ij")
            points = np.stack([i.ravel(), j.ravel(), k.ravel()], axis=1).astype(float)
            ci, cj, ck = np.meshgrid(np.arange(m), np.arange(m), np.arange(m), indexing="ij")
            p0 = ((ci * (m + 1) + cj) * (m + 1) + ck).ravel()
            dx, dy, dz = (m + 1) * (m + 1), m + 1, 1
            cells = np.stack([p0, p0 + dx, p0 + dx + dy, p0 + dy, p0 + dz, p0 + dx + dz, p0 + dx + dy + dz, p0 + dy + dz], axis=1)
            ctype = CellTypes.hexahedron
        else:
            m = 400 if kind == "quad" else 283
            i, j = np.meshgrid(np.arange(m + 1), np.arange(m + 1), indexing="ij")
            points = np.stack([i.ravel(), j.ravel()], axis=1).astype(float)
            ci, cj = np.meshgrid(np.arange(m), np.arange(m), indexing="ij")
            p0 = (ci * (m + 1) + cj).ravel()
            if kind == "quad":
                cells = np.stack([p0, p0 + m + 1, p0 + m + 2, p0 + 1], axis=1)
                ctype = CellTypes.quad
            else:
                cells = np.concatenate([np.stack([p0, p0 + m + 1, p0 + m + 2], axis=1), np.stack([p0, p0 + m + 2, p0 + 1], axis=1)])
                ctype = CellTypes.triangle
        if it % 4 != 1:
            # the lattice's topology with distinct random first coordinates: the sorted point numbering is then a random one
            # (on the regular lattice the corner ids of the sorted mesh are so regular that a linear checksum may never, or
            # very often, collide, depending on the lattice size)
            points[:, 0] = np.random.default_rng(s1 ^ 0x5EED).permutation(len(points)).astype(float)
        pdata = points @ np.array([1000.0, 1.0, 0.001][:points.shape[1]])
        cdata = points[cells].mean(axis=1) @ np.array([1000.0, 1.0, 0.001][:points.shape[1]])

        def copy(seed):
            r = np.random.default_rng(seed)
            pp = r.permutation(len(points))
            inv = np.empty(len(points), dtype=np.int64)
            inv[pp] = np.arange(len(points))
            cp = r.permutation(len(cells))
            return MeshFields(Mesh(points[pp], [(ctype, inv[cells][cp])]), point_data={"pd": pdata[pp]}, cell_data={"cd": [cdata[cp]]})
        canon = {"kind": "large lattice", "cell_type": kind, "cells_per_direction": m, "cells": int(len(cells)),
                 "numpy_permutation_seeds": [s1, s2], "random_first_coordinate": it % 4 != 1,
                 "recipe": "lattice points (i, j[, k]) as floats (random_first_coordinate: x replaced by numpy default_rng(seed1 ^ "
                           "0x5EED).permutation(number of points)), cells in VTK corner order; copy(seed): numpy default_rng(seed) "
                           "permutation of the points, then of the cells; point field 1000x+y(+0.001z), cell field the same of the "
                           "cell centre"}
        ctx.case(canon, True, sample={"case": canon})
        ctx.count(f"c02:large lattice:{kind}")
        try:
            with quiet():
                warnings.simplefilter("ignore")
                A, B = copy(s1), copy(s2)
                suite = MeshFieldsComparator(A, B)(fieldcomp_callback=lambda _: None, reordering_callback=lambda _: None)
                bad = [(c.name, c.status.name) for c in suite if c.status.name != "passed"]
                dom = bool(suite.domain_equality_check)
                SA, SB = sort(A), sort(B)
                same = (np.array_equal(SA.domain.points, SB.domain.points)
                        and np.array_equal(SA.domain.connectivity(ctype), SB.domain.connectivity(ctype))
                        and all(np.array_equal(f1.values, f2.values) for f1, f2 in zip(SA, SB)))
        except Exception as e:  # noqa: BLE001
            ctx.violation("E4", f"comparison / sort of a large mesh and its reordered copy raised {type(e).__name__}: {e}", canon)
            continue
        if not dom or bad:
            ctx.violation("E4", f"a mesh of {len(cells)} {kind} cells and its reordered copy do not pass: "
                          + ("domains reported unequal" if not dom else f"fields {bad[:3]}"), canon)
        elif not same:
            ctx.violation("E4", f"sorted representations of a mesh of {len(cells)} {kind} cells and its reordered copy are not identical", canon)
        ctx.traces_validated += 1


def structured_vs_permuted_stream(ctx, n):
    """the same lattice held as a structured mesh (image / rectilinear / structured grid, as the .vti/.vtr/.vts readers hand
    it out) on one side and as an unstructured mesh with points, cells and type blocks stored in another order on the other:
    domains equal and every field passed, in both roles"""
    from fieldcompare.mesh import MeshFields
    rng = ctx.rng
    for _ in range(n):
        meta, a, _b, _P1, _P2 = structured_variants(rng)
        if max(meta["extents"]) > 8:
            continue
        npts = len(np.asarray(a.points))
        ncells = sum(len(a.connectivity(ct)) for ct in a.cell_types)
        pd = {"p": np.array([float(rng.randint(-64, 64)) / 8 for _ in range(npts)]),
              "v": np.array([[float(rng.randint(-64, 64)) / 8 for _ in range(3)] for _ in range(npts)])}
        cd = {"c": [np.array([float(rng.randint(-64, 64)) / 8 for _ in range(ncells)])]}
        S = MeshFields(a, pd, cd)
        M = G.from_fieldcompare(S)
        how = rng.choice(["all", "all", "points", "cells"])
        N = G.relabel(rng, M, points=how != "cells", cells=how != "points")[0]
        if rng.random() < 0.3:
            N = G.add_orphans(rng, N)
        role = rng.choice(["structured_is_source", "structured_is_reference"])
        canon = {"kind": "structured_vs_permuted", "structured": meta, "explicit": json_mesh(N), "role": role, "reordered": how}
        try:
            with quiet():
                warnings.simplefilter("ignore")
                U = G.to_fieldcompare(N)
                res = compare_impl(S, U) if role == "structured_is_source" else compare_impl(U, S)
        except Exception as e:  # noqa: BLE001
            ctx.case(canon, True)
            ctx.violation("E4", f"comparison of a structured mesh with its reordered unstructured copy raised {type(e).__name__}: {e}", canon)
            continue
        ctx.case(canon, ncells >= 2, sample={"case": canon, "impl": res})
        ctx.count(f"c02:structured_vs_permuted:{meta['kind']}:{role}")
        bad_fields = [f for f in res["fields"] if f[1] != "passed"]
        if not res["domain"] or bad_fields:
            ctx.violation("E4", "a structured mesh and its reordered unstructured copy do not pass: "
                          + ("domains reported unequal" if not res["domain"] else f"fields {bad_fields[:3]}"), canon, impl=res)
        ctx.traces_validated += 1


def run_sort_checkers(ctx, batch):
    """T3: the point map of sort_points(strip_orphan_points(.)) must arrange the points in strictly increasing exact
    lexicographic order (noise-free data without coincident points), checked by Model.SortSpec.check_point_sort"""
    from fieldcompare.mesh import sort_points, strip_orphan_points
    header = """From Coq Require Import ZArith Arith Bool List.
From FC Require Import Model.SortSpec.
Import ListNotations.
"""
    exprs, metas = [], []
    for canon, M in batch:
        with quiet():
            warnings.simplefilter("ignore")
            view = sort_points(strip_orphan_points(with_markers(M)))
            pid, _ = markers_of(view)
        den = 1
        for p in M["pts"]:
            for x in p:
                den = max(den, x.denominator)
        P = clist([clist([lib.cz(int(x * den)) for x in p], "Z") for p in M["pts"]], "(list Z)")
        exprs.append(f"check_point_sort {P} {clist([cnat(i) for i in pid], 'nat')}")
        metas.append((canon, pid))
    vals = ctx.coq_eval(header, exprs, name="sortchk", shard=150)
    for (canon, pid), v in zip(metas, vals):
        ctx.tie("T3 check_point_sort on sort_points' index map")
        if v is not True:
            ctx.violation("E3", f"sort_points does not arrange noise-free points in lexicographic order (index map {pid})", canon,
                          found_input=False)


def cluster_boundaries(values, gap):
    """boundaries strictly between clusters of nearly-equal values (consecutive sorted values further apart than `gap`)"""
    vs = sorted(set(values))
    return [(a + b) / 2 for a, b in zip(vs, vs[1:]) if b - a > gap]


def run_noisy_checkers(ctx, batch):
    """T3 (noisy data): the sorted views of both sides must meet the class-vector specification and its premises
    (Model.FuzzySort.check_noisy_sorted, proved to imply pointwise closeness of the two point lists)"""
    from fieldcompare.mesh import sort_points, strip_orphan_points
    header = """From Coq Require Import QArith ZArith Arith Bool List.
From FC Require Import Model.Scalar Model.Mesh Model.SortSpec Model.FuzzySort Model.FuzzySortAlgo.
Import ListNotations.
Definition chk bss rel abs v1 v2 (inp : list point) (d : nat) : bool :=
  check_noisy_sorted bss rel abs v1 v2 && zlist_eqb (map (cls bss) v1) (fuzzy_lex_sort isort_by d (map (cls bss) inp)).
"""
    exprs, metas = [], []
    for canon, M, N in batch:
        with quiet():
            warnings.simplefilter("ignore")
            va = sort_points(strip_orphan_points(G.to_fieldcompare(M)))
            vb = sort_points(strip_orphan_points(G.to_fieldcompare(N)))
            A, B = G.from_fieldcompare(va), G.from_fieldcompare(vb)
            rel, ab = tol_of(va)
        gap = min(G.dyadic_tol(M), G.dyadic_tol(N)) / 16
        bss = [cluster_boundaries([p[d] for p in A["pts"] + B["pts"]], gap) for d in range(M["dim"])]
        Q = lambda x: lib.cqfrac(x)  # noqa: E731
        P = lambda X: clist([clist([Q(x) for x in p], "Q") for p in X["pts"]], "point")  # noqa: E731
        used = sorted({c for _, rows in M["blocks"] for r in rows for c in r})
        inp = {"pts": [M["pts"][i] for i in used]}       # connected points of the source in their storage order
        exprs.append(f"chk {clist([clist([Q(b) for b in bs], 'Q') for bs in bss], '(list Q)')} {Q(rel)} {Q(ab)} {P(A)} {P(B)} {P(inp)} {cnat(M['dim'])}")
        metas.append(canon)
    vals = ctx.coq_eval(header, exprs, name="noisychk", shard=100)
    for canon, v in zip(metas, vals):
        ctx.tie("T3 check_noisy_sorted on the sorted views of noisy pairs + class vectors equal to Model.FuzzySortAlgo's output")
        if v is not True:
            ctx.violation("E3", "the sorted views of a noisy equal pair do not meet the class-vector sorting specification "
                          "(check_noisy_sorted rejects them)", canon, found_input=False)


def tuple_block(b):
    return (b[0], tuple(tuple(r) for r in b[1]))


def run_stage_batch(ctx, stage_batch):
    exprs = [e[0] for _, st in stage_batch for e in st]
    vals = ctx.coq_eval(HEADER, exprs, name="stages", shard=150)
    i = 0
    for canon, st in stage_batch:
        for (expr, orc, implv, name) in st:
            mo = vals[i]
            i += 1
            ctx.tie("Mesh.equals vs Model.Mesh.mesh_equal (ladder stage)")
            if orc is not None and implv and not orc:
                ctx.violation("E4", f"Mesh.equals answers 'equal' at stage '{name}' but the meshes differ beyond tolerance", canon)
            elif orc is not None and implv != mo:
                ctx.violation("E2", f"stage '{name}': model mesh_equal = {mo}, implementation = {implv}", canon, found_input=False)


# ------------------------------------------------------------------------------------------------
# C03
# ------------------------------------------------------------------------------------------------
def modifications(rng, M, all_sites):
    """single-site modifications of a copy of M; yields (description, modified mesh)"""
    tol = G.dyadic_tol(M)
    npts = len(M["pts"])
    sites = []
    used = sorted({c for _, rows in M["blocks"] for r in rows for c in r})
    for i in (used if all_sites else rng.sample(used, min(3, len(used)))):
        for d in range(M["dim"]):
            sites.append(("move", i, d, rng.choice([16, 1000, 10 ** 6])))
    for bi, (t, rows) in enumerate(M["blocks"]):
        for j in (range(len(rows)) if all_sites else [rng.randrange(len(rows))]):
            sites.append(("rewire", bi, j, rng.randrange(len(rows[j]))))
            sites.append(("remove_cell", bi, j))
            sites.append(("duplicate_cell", bi, j))
        sites.append(("drop_block", bi))
    for name in M["pf"]:
        for i in (used if all_sites else rng.sample(used, min(2, len(used)))):
            sites.append(("pfield", name, i))
    for name, per in M["cf"].items():
        for t in per:
            if per[t]:
                sites.append(("cfield", name, t, rng.randrange(len(per[t]))))
    if not all_sites:
        keep = [x for x in sites if x[0] == "cfield" and " @ " in x[1]]      # (names holding the annotation separator: always tried)
        sites = rng.sample(sites, min(6, len(sites)))
        sites += [x for x in keep if x not in sites]
    for s in sites:
        N = G.copy_mesh(M)
        if s[0] == "move":
            _, i, d, k = s
            N["pts"][i][d] += tol * k
        elif s[0] == "rewire":
            _, bi, j, a = s
            row = N["blocks"][bi][1][j]
            cand = [c for c in range(npts) if c not in row]
            if not cand:
                continue
            row[a] = rng.choice(cand)
        elif s[0] == "remove_cell":
            _, bi, j = s
            t = N["blocks"][bi][0]
            if len(N["blocks"][bi][1]) == 1:
                continue
            N["blocks"][bi][1].pop(j)
            for per in N["cf"].values():
                if t in per:
                    per[t].pop(j)
        elif s[0] == "duplicate_cell":
            _, bi, j = s
            t = N["blocks"][bi][0]
            N["blocks"][bi][1].append(list(N["blocks"][bi][1][j]))      # a twin cell connecting exactly the same points
            for per in N["cf"].values():
                if t in per:
                    per[t].append(per[t][j])
        elif s[0] == "drop_block":
            _, bi = s
            if len(N["blocks"]) == 1:
                continue
            t = N["blocks"][bi][0]
            N["blocks"].pop(bi)
            for per in N["cf"].values():
                per.pop(t, None)
        elif s[0] == "pfield":
            _, name, i = s
            N["pf"][name][i] = bump(N["pf"][name][i])
        elif s[0] == "cfield":
            _, name, t, j = s
            N["cf"][name][t][j] = bump(N["cf"][name][t][j])
        yield list(s), N


def bump(v):
    if isinstance(v, list):
        return [bump(v[0])] + v[1:]
    return v + 1 if isinstance(v, int) else v + Fr(3, 2)


def run_c03(ctx):
    q = ctx.tier == "quick"
    n = 220 if q else 6000
    rng = ctx.rng
    stage_batch = []
    ladder_batch = []
    for it in range(n):
        M = G.add_fields(rng, G.gen_mesh(rng, max_cells=5), kinds=("scalar", "vector", "int"))
        if rng.random() < 0.2:
            G.add_orphans(rng, M)
        base = G.content(M)
        small = len(M["pts"]) + sum(len(r) for _, r in M["blocks"]) <= 14
        for desc, N in modifications(rng, M, all_sites=small and it % 4 == 0):
            role = rng.choice(["mod_is_source", "mod_is_reference"])
            reorder = rng.random() < 0.6
            Nr = G.relabel(rng, N)[0] if reorder else N
            padded = False
            sep_name = desc[0] == "cfield" and " @ " in desc[1]
            if M["dim"] < 3 and rng.random() < (0.7 if sep_name else 0.15) and "t" not in M["pf"]:
                Nr = pad_mesh(Nr)          # the modified data set is stored with zero-padded 3-component coordinates / vectors
                padded = True
            opts = {}
            if rng.random() < 0.2:
                opts["disable_orphan_point_removal"] = True
            if rng.random() < 0.1:
                opts["disable_mesh_reordering"] = True
            canon = {"mesh": json_mesh(M), "modification": desc, "modified": json_mesh(Nr), "role": role, "opts": opts}
            if padded:
                ctx.count("c03:modified side stored with padded coordinates (space dimension differs)")
            differs = G.content(N) != base
            ctx.case(canon, True, sample={"case": {"modification": desc, "role": role, "opts": opts, "reordered": reorder}})
            ctx.count(f"c03:{desc[0]}")
            ctx.count(f"c03:differs:{differs}")
            if not differs:
                continue      # the modification happens to give an equivalent data set: no requirement
            A, B = (Nr, M) if role == "mod_is_source" else (M, Nr)
            try:
                with quiet():
                    warnings.simplefilter("ignore")
                    res = compare_impl(G.to_fieldcompare(A), G.to_fieldcompare(B), **opts)
                    direct = bool(G.to_fieldcompare(A).domain.equals(G.to_fieldcompare(B).domain))
                    if it % 5 == 0 and not padded:
                        _, stages = ladder(with_markers(A), with_markers(B), disable_reorder=opts.get("disable_mesh_reordering", False),
                                           disable_orphans=opts.get("disable_orphan_point_removal", False))
                        stage_batch.append((canon, stage_exprs(stages)))
            except Exception as e:  # noqa: BLE001
                if "uniquely sort duplicate" in str(e) or "duplicate" in str(e):
                    ctx.count("c03:raised on coincident orphan points (documented limitation)")
                    continue
                ctx.violation("E4", f"comparison raised {type(e).__name__}: {e} instead of failing", canon)
                continue
            if (not padded and len(ladder_batch) < (50 if q else 1200) and len(A["pts"]) <= 14 and not G.has_coincident_points(A)
                    and not G.has_coincident_points(B) and desc[0] not in ("pfield", "cfield")):
                try:
                    with quiet():
                        warnings.simplefilter("ignore")
                        ladder_batch.append((canon, ladder_expr(A, B, opts), res))
                except Exception:  # noqa: BLE001
                    pass
            if res["bool"]:
                ctx.violation("E4", f"comparison PASSES although the data sets differ ({desc[0]})", canon, impl=res)
            elif desc[0] in ("move", "rewire", "remove_cell", "duplicate_cell", "drop_block") and direct and not reorder and not padded:
                ctx.violation("E4", f"Mesh.equals answers 'equal' although the meshes differ ({desc[0]})", canon)
            ctx.traces_validated += 1
    reused_reference_stream(ctx, 60 if q else 1500)
    changed_in_place_stream(ctx, 60 if q else 1500)
    structured_modification_stream(ctx, 150 if q else 4000)
    compat_twins_stream(ctx, 60 if q else 1500)
    erroring_comparison_stream(ctx, 60 if q else 1500)
    nonfinite_entry_stream(ctx, 80 if q else 2000)
    exact_mesh_tolerance_stream(ctx, 60 if q else 1500)
    flat_direction_stream(ctx, 40 if q else 1000)
    shared_predicate_selector_stream(ctx, 40 if q else 1000)
    run_stage_batch(ctx, stage_batch)
    run_ladder_batch(ctx, ladder_batch)
    ctx.rule = ("meshes as in C02 with exactly one single-site modification on one side (move a point along one axis by 16..1e6 "
                "tolerances, rewire one corner, remove one cell, drop a whole cell-type block, change one point/cell field entry), "
                "at EVERY site for small meshes and random sites otherwise, with and without relabeling, in both roles, with the "
                "disable_* options; modifications that leave the exact content unchanged carry no requirement")


def erroring_comparison_stream(ctx, n):
    """a deviating field whose comparison does not end in a negative answer but in an error (the predicate raises, as
    numpy.testing-style predicates do; the value array became text; a fuzzy predicate is selected for a boolean field): the
    suite must fail all the same (C03 mechanism: 'suite fails if the domain check fails or any comparison failed/errored')"""
    from fieldcompare.predicates import FuzzyEquality
    rng = ctx.rng
    for it in range(n):
        M = G.add_fields(rng, G.gen_mesh(rng, max_cells=5), kinds=("scalar", "vector"))
        N = G.copy_mesh(M)
        names = sorted(M["pf"])
        if not names:
            continue
        name = rng.choice(names)
        i = rng.randrange(len(M["pts"]))
        kind = rng.choice(["raising_predicate", "text_values", "fuzzy_on_bool"])
        role = rng.choice(["mod_is_source", "mod_is_reference"])
        reorder = rng.random() < 0.5
        extra_m, extra_n, kw = None, None, {}
        if kind == "raising_predicate":
            N["pf"][name][i] = bump(N["pf"][name][i])

            def sel(_s, _r):
                def pred(a, b):
                    np.testing.assert_allclose(np.asarray(a, dtype=float), np.asarray(b, dtype=float), rtol=1e-9, atol=0)
                    return FuzzyEquality(rel_tol=1e-9, abs_tol=0.0)(a, b)
                return pred
            kw["predicate_selector"] = sel
        elif kind == "text_values":
            vals = [str(float(rng.randint(-9, 9))) for _ in M["pts"]]
            bad = list(vals)
            bad[i] = "n/a"
            extra_m = {"txt": np.array([float(v) for v in vals])}
            extra_n = {"txt": np.array(bad)}
        else:
            flags = [rng.random() < 0.5 for _ in M["pts"]]
            other = list(flags)
            other[i] = not other[i]
            extra_m = {"flag": np.array(flags, dtype=bool)}
            extra_n = {"flag": np.array(other, dtype=bool)}
            kw["predicate_selector"] = lambda _s, _r: FuzzyEquality(rel_tol=1e-9, abs_tol=0.0)
        perm = None
        Nr = N
        if reorder:
            Nr, perm, _ = G.relabel(rng, N)
            if extra_n:
                extra_n = {k: v[perm] for k, v in extra_n.items()}
        canon = {"kind": "erroring_comparison", "how": kind, "mesh": json_mesh(M), "modified": json_mesh(Nr), "field": name, "entry": i,
                 "role": role, "reordered": reorder}
        try:
            with quiet():
                warnings.simplefilter("ignore")
                fm, fn = G.to_fieldcompare(M, extra_point=extra_m), G.to_fieldcompare(Nr, extra_point=extra_n)
                A, B = (fn, fm) if role == "mod_is_source" else (fm, fn)
                res = compare_impl(A, B, **kw)
        except Exception as e:  # noqa: BLE001
            if "duplicate" in str(e):
                continue
            ctx.case(canon, True)
            ctx.violation("E4", f"comparison raised {type(e).__name__}: {e} instead of failing", canon)
            continue
        ctx.case(canon, True, sample={"case": {"how": kind, "role": role, "reordered": reorder}, "impl": res})
        stat = sorted({st for _, st in res["fields"]})
        ctx.count(f"c03:erroring_comparison:{kind}:statuses={'/'.join(stat)}")
        if res["bool"]:
            ctx.violation("E4", f"comparison PASSES although a deviating field's comparison ended in an error ({kind}; statuses "
                                f"{res['fields']})", canon, impl=res)
        ctx.traces_validated += 1


def nonfinite_entry_stream(ctx, n):
    """one entry of a floating-point field replaced by +inf or -inf on one side (a result that blew up), or +inf on one side
    against -inf on the other: an infinite deviation is beyond every tolerance, the comparison must fail — with the default
    tolerances and with user-given relative / absolute tolerances, in both roles, with and without reordering"""
    from fieldcompare.predicates import DefaultEquality, FuzzyEquality
    rng = ctx.rng
    for it in range(n):
        M = G.add_fields(rng, G.gen_mesh(rng, max_cells=5), kinds=("scalar", "vector"))
        npts = len(M["pts"])
        i = rng.randrange(npts)
        where = rng.choice(["scalar", "vector"])
        base = np.array([float(rng.randint(-64, 64)) / 8 for _ in range(npts)]) if where == "scalar" else \
            np.array([[float(rng.randint(-64, 64)) / 8 for _ in range(3)] for _ in range(npts)])
        other = base.copy()
        kind = rng.choice(["finite_vs_inf", "finite_vs_inf", "finite_vs_minus_inf", "inf_vs_minus_inf", "finite_vs_nan", "finite_vs_nan"])
        idx = (i,) if where == "scalar" else (i, rng.randrange(3))
        if kind == "inf_vs_minus_inf":
            base[idx], other[idx] = np.inf, -np.inf
        elif kind == "finite_vs_nan":
            other[idx] = np.nan          # an undefined value on one side is a deviation, too
        else:
            other[idx] = np.inf if kind == "finite_vs_inf" else -np.inf
        pred = rng.choice(["default", "default_rel", "fuzzy_rel", "fuzzy_abs", "huge_rel"])
        sel = {"default": None,
               "default_rel": lambda _s, _r: DefaultEquality(rel_tol=1e-6, abs_tol=0.0),
               "fuzzy_rel": lambda _s, _r: FuzzyEquality(rel_tol=1e-9, abs_tol=0.0),
               "fuzzy_abs": lambda _s, _r: FuzzyEquality(rel_tol=0.0, abs_tol=1e-3),
               "huge_rel": lambda _s, _r: FuzzyEquality(rel_tol=0.5, abs_tol=1e6)}[pred]
        role = rng.choice(["mod_is_source", "mod_is_reference"])
        reorder = rng.random() < 0.5
        N = G.copy_mesh(M)
        extra_n = {"blown": other}
        if reorder:
            N, perm, _ = G.relabel(rng, N)
            extra_n = {"blown": other[perm]}
        canon = {"kind": "nonfinite_entry", "how": kind, "field": where, "entry": list(idx), "predicate": pred, "role": role,
                 "reordered": reorder, "mesh": json_mesh(M)}
        try:
            with quiet():
                warnings.simplefilter("ignore")
                fm, fn = G.to_fieldcompare(M, extra_point={"blown": base}), G.to_fieldcompare(N, extra_point=extra_n)
                A, B = (fn, fm) if role == "mod_is_source" else (fm, fn)
                res = compare_impl(A, B, predicate_selector=sel)
        except Exception as e:  # noqa: BLE001
            if "duplicate" in str(e):
                continue
            ctx.case(canon, True)
            ctx.violation("E4", f"comparison raised {type(e).__name__}: {e} instead of failing", canon)
            continue
        ctx.case(canon, True, sample={"case": {k: canon[k] for k in ("how", "field", "predicate", "role", "reordered")}, "impl": res})
        ctx.count(f"c03:nonfinite entry:{kind}:{pred}")
        if res["bool"]:
            ctx.violation("E4", f"comparison PASSES although one entry of a field is infinite / undefined on one side ({kind}, predicate {pred})",
                          canon, impl=res)
        ctx.traces_validated += 1


def exact_mesh_tolerance_stream(ctx, n):
    """the user asks for an EXACT domain check (set_tolerances(abs_tol=0, rel_tol=0) on both meshes): a coordinate moved by a
    relative 2^-30 (below the default 1e-8) must make the comparison fail, as stored and reordered, in both roles; the unmoved
    pair passes"""
    rng = ctx.rng
    for it in range(n):
        M = G.add_fields(rng, G.gen_mesh(rng, max_cells=4), kinds=("scalar",))
        used = sorted({c for _, rows in M["blocks"] for r in rows for c in r})
        cand = [(i, d) for i in used for d in range(M["dim"]) if M["pts"][i][d] != 0]
        if not cand or G.has_coincident_points(M):
            continue
        i, d = rng.choice(cand)
        moved = rng.random() < 0.7
        N = G.copy_mesh(M)
        if moved:
            N["pts"][i][d] = M["pts"][i][d] * (1 + Fr(1, 2 ** 30))
        reorder = rng.random() < 0.5
        Nr = G.relabel(rng, N)[0] if reorder else N
        role = rng.choice(["mod_is_source", "mod_is_reference"])
        canon = {"kind": "exact_mesh_tolerances", "mesh": json_mesh(M), "moved": [i, d] if moved else None, "reordered": reorder, "role": role}
        try:
            with quiet():
                warnings.simplefilter("ignore")
                fa, fb = G.to_fieldcompare(M), G.to_fieldcompare(Nr)
                for f in (fa, fb):
                    f.domain.set_tolerances(abs_tol=0.0, rel_tol=0.0)
                A, B = (fb, fa) if role == "mod_is_source" else (fa, fb)
                res = compare_impl(A, B)
        except Exception as e:  # noqa: BLE001
            if "duplicate" in str(e):
                continue
            ctx.violation("E4", f"comparison with exact mesh tolerances raised {type(e).__name__}: {e}", canon)
            continue
        ctx.case(canon, moved, sample={"case": {k: canon[k] for k in ("moved", "reordered", "role")}, "impl": res})
        ctx.count(f"c03:exact mesh tolerances:{'moved' if moved else 'same'}")
        if res["bool"] == moved:
            ctx.violation("E4", f"meshes with tolerances set to exactly zero: comparison {'PASSES although a coordinate differs by 2^-30 relative' if moved else 'fails for identical coordinates'}",
                          canon, impl=res)
        ctx.traces_validated += 1


def flat_direction_stream(ctx, n):
    """two image grids with the same numbers of points and cells, the same origin and spacing and the same field values — one lies
    in the x-y plane, the other in the x-z (or y-z) plane: half their points differ, the comparison must fail in both roles"""
    from fieldcompare.mesh import ImageMesh, MeshFields
    rng = ctx.rng
    for it in range(n):
        e1, e2 = rng.randint(1, 3), rng.randint(1, 3)
        exts = [(e1, e2, 0), (e1, 0, e2), (0, e1, e2)]
        ea, eb = rng.sample(exts, 2)
        sp = float(rng.choice([1, 2])) / rng.choice([1, 2])
        npts, ncells = (e1 + 1) * (e2 + 1), e1 * e2
        u = np.array([float(rng.randint(-8, 8)) / 4 for _ in range(npts)])
        c_ = np.array([float(rng.randint(-8, 8)) / 4 for _ in range(ncells)])
        canon = {"kind": "flat_direction", "extents_a": list(ea), "extents_b": list(eb), "spacing": sp}
        try:
            with quiet():
                warnings.simplefilter("ignore")
                fa = MeshFields(ImageMesh(ea, (0.0, 0.0, 0.0), (sp, sp, sp)), {"u": u}, {"c": [c_]})
                fb = MeshFields(ImageMesh(eb, (0.0, 0.0, 0.0), (sp, sp, sp)), {"u": u.copy()}, {"c": [c_.copy()]})
                res = (compare_impl(fa, fb), compare_impl(fb, fa), bool(fa.domain.equals(fb.domain)), bool(fb.domain.equals(fa.domain)))
        except Exception as e:  # noqa: BLE001
            ctx.violation("E4", f"comparison of image grids flat in different directions raised {type(e).__name__}: {e}", canon)
            continue
        ctx.case(canon, True, sample={"case": canon, "impl": [res[0]["bool"], res[1]["bool"], res[2], res[3]]})
        ctx.count("c03:image grids flat in different directions")
        if res[0]["bool"] or res[1]["bool"] or res[2] or res[3]:
            ctx.violation("E4", f"image grids with extents {ea} and {eb} (flat in different directions) compare as equal", canon,
                          impl=[res[0]["bool"], res[1]["bool"], res[2], res[3]])
        ctx.traces_validated += 1


def shared_predicate_selector_stream(ctx, n):
    """a predicate selector that hands ONE predicate object (tolerances derived from the data: default relative tolerance, scaled
    absolute tolerance) to every field of the data set: a field of magnitude 1e5 is compared first, then a field of magnitude 1
    with one entry off by 1e-3 — beyond its own tolerance, inside the large field's — the comparison must fail"""
    from fieldcompare.predicates import FuzzyEquality, ScaledTolerance
    rng = ctx.rng
    for it in range(n):
        M = G.gen_mesh(rng, max_cells=4)
        npts = len(M["pts"])
        big = np.array([1.0e5 + 8.0 * rng.randint(0, 9) for _ in range(npts)])
        small = np.array([1.0 + rng.randint(0, 8) / 8.0 for _ in range(npts)])
        off = small.copy()
        i = rng.randrange(npts)
        off[i] += 1.0e-3
        deviates = rng.random() < 0.7
        pred = FuzzyEquality(abs_tol=ScaledTolerance(1.0e-6), rel_tol=0.0)
        reorder = rng.random() < 0.5
        N = G.copy_mesh(M)
        extra_n = {"a_pressure": big.copy(), "b_saturation": off if deviates else small.copy()}
        if reorder:
            N, perm, _ = G.relabel(rng, N)
            extra_n = {k: v[perm] for k, v in extra_n.items()}
        canon = {"kind": "shared_predicate_selector", "mesh": json_mesh(M), "entry": i, "deviates": deviates, "reordered": reorder}
        try:
            with quiet():
                warnings.simplefilter("ignore")
                fm = G.to_fieldcompare(M, extra_point={"a_pressure": big, "b_saturation": small})
                fn = G.to_fieldcompare(N, extra_point=extra_n)
                res = compare_impl(fn, fm, predicate_selector=lambda _s, _r: pred)
        except Exception as e:  # noqa: BLE001
            if "duplicate" in str(e):
                continue
            ctx.violation("E4", f"comparison raised {type(e).__name__}: {e}", canon)
            continue
        ctx.case(canon, deviates, sample={"case": {k: canon[k] for k in ("entry", "deviates", "reordered")}, "impl": res})
        ctx.count(f"c03:one predicate object for all fields:{'deviating' if deviates else 'equal'}")
        if res["bool"] == deviates:
            ctx.violation("E4", "one predicate object (scaled tolerance) handed to every field: the comparison "
                                + ("PASSES although a field of magnitude 1 deviates by 1e-3 (allowed: 2e-6)" if deviates else "fails for equal data"),
                          canon, impl=res)
        ctx.traces_validated += 1


def reused_reference_stream(ctx, n):
    """one reference object (plain, or sorted once with fieldcompare.mesh.sort) serving several comparisons in a row: an equal
    (relabeled) result first, then results with one modified entry each — every modified result must still fail"""
    from fieldcompare.mesh import sort
    rng = ctx.rng
    for it in range(n):
        M = G.add_fields(rng, G.gen_mesh(rng, max_cells=5), kinds=("scalar", "vector", "int"))
        if not M["cf"]:
            M["cf"]["c"] = {t: [Fr(rng.randint(-1000, 1000), 8) for _ in rows] for t, rows in M["blocks"]}
        base = G.content(M)
        presorted = rng.random() < 0.6
        mods = [(d, N) for d, N in modifications(rng, M, all_sites=False) if d[0] in ("pfield", "cfield", "move") and G.content(N) != base]
        if not mods:
            continue
        canon0 = {"mesh": json_mesh(M), "reference_sorted_once": presorted}
        try:
            with quiet():
                warnings.simplefilter("ignore")
                ref = G.to_fieldcompare(M)
                if presorted:
                    ref = sort(ref)
                first = compare_impl(G.to_fieldcompare(G.relabel(rng, M)[0]), ref)
        except Exception as e:  # noqa: BLE001
            if "duplicate" in str(e):
                continue
            ctx.violation("E4", f"comparison against a reused reference raised {type(e).__name__}: {e}", canon0)
            continue
        ctx.case(canon0, True, sample={"presorted": presorted, "modifications": [d for d, _ in mods]})
        ctx.count(f"c03:reused reference:{'sorted once' if presorted else 'plain'}")
        if not first["bool"]:
            ctx.violation("E4", "a relabeled copy does not compare equal to the reference object", canon0, impl=first)
            continue
        for desc, N in mods:
            canon = dict(canon0, modification=desc, modified=json_mesh(N))
            try:
                with quiet():
                    warnings.simplefilter("ignore")
                    res = compare_impl(G.to_fieldcompare(G.relabel(rng, N)[0]), ref)
            except Exception as e:  # noqa: BLE001
                ctx.violation("E4", f"comparison against a reused reference raised {type(e).__name__}: {e}", canon)
                break
            ctx.tie("T2 reference object reused for several comparisons")
            if res["bool"]:
                ctx.violation("E4", f"comparison against a reference object that already served an earlier comparison PASSES although "
                                    f"the data sets differ ({desc[0]})", canon, impl=res)
                break
        ctx.traces_validated += 1


def structured_modification_stream(ctx, n):
    """image / rectilinear / structured grids (as read from .vti / .vtr / .vts) with one changed ordinate, origin, spacing or
    position along a flat direction on one side: the comparison of the field data must fail whenever the points differ by
    more than the tolerance, in both roles"""
    from fieldcompare.mesh import MeshFields
    rng = ctx.rng
    for it in range(n):
        try:
            with quiet():
                warnings.simplefilter("ignore")
                canon, a, b, P1, P2 = structured_variants(rng)
        except Exception:  # noqa: BLE001
            continue
        if canon["changed"] is None or canon["changed"][0] == "spacing-below-tolerance":
            continue
        worst = max((abs(x - y) for p, r in zip(P1, P2) for x, y in zip(p, r)), default=Fr(0))
        mxc = max([abs(x) for p in P1 + P2 for x in p] + [Fr(0)])
        try:
            with quiet():
                warnings.simplefilter("ignore")
                rel, ab = tol_of(a)
                relb, abb = tol_of(b)
                thr = max(max(rel, relb) * mxc, max(ab, abb))
                if worst <= 4 * thr:
                    continue
                n_pts = len(P1)
                fa = MeshFields(a, {"u": np.arange(float(n_pts))}, {})
                fb = MeshFields(b, {"u": np.arange(float(n_pts))}, {})
                role = rng.choice(["changed_is_reference", "changed_is_source"])
                res = compare_impl(fa, fb) if role == "changed_is_reference" else compare_impl(fb, fa)
        except Exception as e:  # noqa: BLE001
            ctx.violation("E4", f"comparison of structured grids raised {type(e).__name__}: {e}", canon)
            continue
        canon = dict(canon, role=role)
        ctx.case(canon, True, sample={"case": {k: canon[k] for k in ("kind", "extents", "changed", "role")}, "impl": res})
        ctx.count(f"c03:structured:{canon['kind']}:{canon['changed'][0]}")
        if res["bool"]:
            ctx.violation("E4", f"comparison of two {canon['kind']} grids PASSES although their points differ by {float(worst):.3g} "
                                f"(tolerance {float(thr):.3g}): changed {canon['changed']}", canon, impl=res)
        ctx.traces_validated += 1


def changed_in_place_stream(ctx, n):
    """the same two objects compared twice; between the comparisons the reference's point array (which the mesh holds without
    copying) is changed in place: the second comparison sees different data and must fail, in both roles"""
    rng = ctx.rng
    for it in range(n):
        M = G.add_fields(rng, G.gen_mesh(rng, max_cells=4), kinds=("scalar", "int"))
        if G.has_coincident_points(M):
            continue
        canon = {"mesh": json_mesh(M), "history": "compare, move one point of one side in place, compare again"}
        try:
            with quiet():
                warnings.simplefilter("ignore")
                a, b = G.to_fieldcompare(G.copy_mesh(M)), G.to_fieldcompare(G.copy_mesh(M))
                first = compare_impl(a, b)
                eq1 = bool(a.domain.equals(b.domain))
                used = sorted({c for _, rows in M["blocks"] for r in rows for c in r})
                i, d = rng.choice(used), rng.randrange(M["dim"])
                target = rng.choice(["reference", "source"])
                P = (b if target == "reference" else a).domain.points
                if not P.flags.writeable:
                    ctx.count("c03:changed in place: skipped (the generated point array is write-protected)")
                    continue
                P[i, d] += 1000.0 * max(1.0, float(np.max(np.abs(P))))
                second = compare_impl(a, b)
                eq2, eq3 = bool(a.domain.equals(b.domain)), bool(b.domain.equals(a.domain))
        except Exception as e:  # noqa: BLE001
            ctx.violation("E4", f"comparison raised {type(e).__name__}: {e}", canon)
            continue
        canon["moved"] = [target, i, d]
        ctx.case(canon, True, sample={"moved": canon["moved"], "first": first["bool"], "second": second["bool"]})
        ctx.count("c03:changed in place between two comparisons")
        if not (first["bool"] and eq1):
            ctx.violation("E4", "identical data sets do not compare equal", canon, impl=first)
        elif second["bool"] or eq2 or eq3:
            ctx.violation("E4", "after one point was moved in place the same objects still compare equal "
                                f"(comparator {second['bool']}, equals {eq2}/{eq3})", canon, impl=second)
        ctx.traces_validated += 1


def compat_twins_stream(ctx, n):
    """cell-type sets that can only be paired many-to-one (see compat_twins): the comparison must fail in both roles"""
    rng = ctx.rng
    done = 0
    tries = 0
    while done < n and tries < 20 * n:
        tries += 1
        A = G.gen_mesh(rng, max_cells=4)
        A["pf"]["p"] = [Fr(rng.randint(-100, 100), 4) for _ in A["pts"]]
        B = G.copy_mesh(A)
        if not compat_twins(rng, A, B):
            continue
        done += 1
        role = rng.choice(["twins_are_source", "twins_are_reference"])
        X, Y = (A, B) if role == "twins_are_source" else (B, A)
        if rng.random() < 0.5:
            Y = G.relabel(rng, Y)[0]
        canon = {"a": json_mesh(X), "b": json_mesh(Y), "kind": "compat_twins", "role": role}
        try:
            with quiet():
                warnings.simplefilter("ignore")
                res = compare_impl(G.to_fieldcompare(X), G.to_fieldcompare(Y))
        except Exception as e:  # noqa: BLE001
            if "duplicate" in str(e):
                continue
            ctx.violation("E4", f"comparison raised {type(e).__name__}: {e} instead of failing", canon)
            continue
        ctx.case(canon, True, sample={"role": role, "types": [[t for t, _ in X["blocks"]], [t for t, _ in Y["blocks"]]], "impl": res})
        ctx.count("c03:compat_twins")
        if res["bool"]:
            ctx.violation("E4", "comparison PASSES although one side has a cell type (with cells) that the other lacks "
                                "(cell types can only be paired many-to-one)", canon, impl=res)
        ctx.traces_validated += 1


# ------------------------------------------------------------------------------------------------
# C16
# ------------------------------------------------------------------------------------------------
def structured_variants(rng):
    """pairs of structured meshes (same class) with their exact explicit points, for the structured-vs-explicit clause"""
    from fieldcompare.mesh import ImageMesh, RectilinearMesh, StructuredMesh
    ext = [rng.randint(0, 3) for _ in range(3)]
    if sum(ext) == 0:
        ext[rng.randrange(3)] = 1
    kind = rng.choice(["image", "rect", "struct"])
    long_image = kind == "image" and rng.random() < 0.3
    if long_image:      # a long grid: parameter differences below tolerance accumulate over many cells
        ext = [0, 0, 0]
        ext[rng.randrange(3)] = rng.choice([64, 200])
    sc = Fr(2) ** rng.choice([-6, 0, 3, 10])
    origin = [Fr(rng.randint(-8, 8)) * sc for _ in range(3)]
    spacing = [Fr(rng.randint(1, 4)) * sc for _ in range(3)]
    ords = [[origin[d] + spacing[d] * i for i in range(ext[d] + 1)] for d in range(3)]
    int_x = kind == "rect" and sc >= 1 and rng.random() < 0.4
    if int_x:
        # the x ordinates are whole numbers and will be handed over as an INTEGER array (np.arange style); y and z are not whole
        ords[1] = [v + Fr(1, 2) for v in ords[1]]
        ords[2] = [v + Fr(1, 4) for v in ords[2]]
    where = rng.choice(["none", "none", "meshed", "flat", "spacing", "origin", "near_tol"])
    if long_image:
        where = "spacing_small"
    d = rng.randrange(3)
    meshed = [i for i in range(3) if ext[i] > 0]
    flat = [i for i in range(3) if ext[i] == 0]
    o2, s2, ords2 = list(origin), list(spacing), [list(o) for o in ords]
    big = max(abs(x) for o in ords for x in o) + sc
    delta = big * rng.choice([Fr(1, 10 ** 4), Fr(1, 8), Fr(1, 10 ** 7) * 64])
    changed = None
    if where == "meshed" and meshed:
        d = rng.choice(meshed)
        i = rng.randrange(len(ords2[d]))
        ords2[d][i] += delta
        o2[d] += delta if i == 0 else 0
        changed = ("ordinate", d, i)
        if kind == "image":
            o2, changed = list(origin), ("origin", d)
            o2[d] += delta
    elif where == "flat" and flat:
        d = rng.choice(flat)
        ords2[d][0] += delta
        o2[d] += delta
        changed = ("flat-direction", d)
    elif where == "spacing" and kind == "image":
        d = rng.choice(meshed)
        s2[d] += delta / max(ext[d], 1) * rng.choice([1, 10])
        changed = ("spacing", d)
    elif where == "spacing_small":
        d = meshed[0]
        mxc = max(abs(origin[k]) + spacing[k] * ext[k] for k in range(3))
        tol_dy = Fr(1, 2 ** 80)
        while tol_dy * 2 < mxc / 10 ** 8:
            tol_dy *= 2                      # a power of two just below the absolute tolerance 1e-8 * max|coordinate|
        s2[d] += tol_dy / 2
        changed = ("spacing-below-tolerance", d)
    elif where == "origin" and kind == "image":
        o2[d] += delta
        changed = ("origin", d)
    elif where == "near_tol":
        # the whole grid shifted along one direction by 0.6 .. 3 times the default absolute tolerance 1e-8 * max|coordinate|
        mxc = max(abs(x) for o in ords for x in o)
        if mxc > 0:
            tol_dy = Fr(1, 2 ** 80)
            while tol_dy * 2 < mxc / 10 ** 8:
                tol_dy *= 2
            shift = tol_dy * Fr(rng.randint(5, 12), 4)
            o2[d] += shift
            ords2[d] = [x + shift for x in ords2[d]]
            changed = ("shift-near-tolerance", d, str(shift))
    f = lambda l: tuple(float(x) for x in l)  # noqa: E731

    def pts_of(o, s, od):
        if kind == "image":
            return [[o[0] + s[0] * i, o[1] + s[1] * j, o[2] + s[2] * k] for k in range(ext[2] + 1) for j in range(ext[1] + 1) for i in range(ext[0] + 1)]
        return [[od[0][i], od[1][j], od[2][k]] for k in range(ext[2] + 1) for j in range(ext[1] + 1) for i in range(ext[0] + 1)]
    P1, P2 = pts_of(origin, spacing, ords), pts_of(o2, s2, ords2)
    if kind == "image":
        a = ImageMesh(tuple(ext), f(origin), f(spacing))
        b = ImageMesh(tuple(ext), f(o2), f(s2))
    elif kind == "rect":
        # a flat direction at coordinate zero may be given without ordinates (an empty array stands for [0.0])
        empty_ok = rng.random() < 0.4
        a = RectilinearMesh(tuple(ext), tuple(np.array([]) if (empty_ok and ext[k] == 0 and o[0] == 0) else
                                              (np.array([int(x) for x in o], dtype=np.int64) if (int_x and k == 0) else np.array(f(o)))
                                              for k, o in enumerate(ords)))
        b = RectilinearMesh(tuple(ext), tuple(np.array(f(o)) for o in ords2))
    else:
        a = StructuredMesh(tuple(ext), np.array([f(p) for p in P1]))
        b = StructuredMesh(tuple(ext), np.array([f(p) for p in P2]))
    return {"kind": kind, "extents": ext, "changed": changed, "x_ordinates_integer_typed": bool(int_x),
            "origin": [str(x) for x in origin], "spacing": [str(x) for x in spacing],
            "origin2": [str(x) for x in o2], "spacing2": [str(x) for x in s2],
            "ordinates": [[str(x) for x in o] for o in ords], "ordinates2": [[str(x) for x in o] for o in ords2]}, a, b, P1, P2


def compat_twins(rng, M, N):
    """M gets, next to a block of QUAD / PIXEL / HEXAHEDRON / VOXEL cells, a block of the compatible type holding the same
    cells; N keeps the single block and gets a block of some other type instead (equally many cell types on both sides,
    every type of M has an identical or compatible partner in N, but the pairing cannot be one-to-one)"""
    cands = [b for b in M["blocks"] if b[0] in G.COMPAT and G.COMPAT[b[0]] not in {t for t, _ in M["blocks"]}]
    if not cands:
        return False
    t, rows = rng.choice(cands)
    perm = [0, 1, 3, 2] if len(rows[0]) == 4 else [0, 1, 3, 2, 4, 5, 7, 6]
    have = {x for x, _ in M["blocks"]} | {G.COMPAT[t]}
    other = [x for x in ("TRIANGLE", "LINE", "VERTEX") if x not in have]
    k = {"TRIANGLE": 3, "LINE": 2, "VERTEX": 1}
    other = [x for x in other if k[x] <= len(M["pts"])]
    if not other:
        return False
    o = rng.choice(other)
    M["blocks"].append([G.COMPAT[t], [[r[i] for i in perm] for r in rows]])
    N["blocks"].append([o, [rng.sample(range(len(N["pts"])), k[o])]])
    return True


def run_c16(ctx):
    from fieldcompare.mesh import Mesh, CellType  # noqa: F811
    from fieldcompare.mesh import Mesh
    try:
        from fieldcompare.mesh._permuted_mesh import PermutedMesh
    except Exception as e:  # noqa: BLE001
        PermutedMesh = None
        ctx.notes.append(f"PermutedMesh views skipped (name not found: {e})")
    q = ctx.tier == "quick"
    rng = ctx.rng
    n = 700 if q else 20000
    exprs, metas = [], []
    # (1) explicit meshes and permuted views: soundness, symmetry, never an exception; cell-type set variants
    for it in range(n):
        M = G.gen_mesh(rng, max_cells=5)
        N = G.copy_mesh(M)
        kind = rng.choice(["same", "noise", "move", "rewire", "remove_cell", "drop_block", "add_block", "swap_compat", "extra_point",
                           "compat_twins", "empty_block+rewire"])
        tol = G.dyadic_tol(M)
        if kind == "compat_twins":
            if not compat_twins(rng, M, N):
                kind = "same"
        elif kind == "empty_block+rewire":
            # both meshes list a cell type without any cell (e.g. what is left of a filtered block); they differ in another type
            have = {t for t, _ in M["blocks"]}
            spare = [x for x in ("TRIANGLE", "LINE", "QUAD", "VERTEX") if x not in have and G.COMPAT.get(x) not in have]
            t_, rows_ = rng.choice(N["blocks"])
            row_ = rng.choice(rows_)
            cand_ = [c for c in range(len(N["pts"])) if c not in row_]
            if spare and cand_:
                row_[rng.randrange(len(row_))] = rng.choice(cand_)
                pos = rng.randrange(len(M["blocks"]) + 1)
                e_ = rng.choice(spare)
                M["blocks"].insert(pos, [e_, []])
                N["blocks"].insert(rng.choice([pos, rng.randrange(len(N["blocks"]) + 1)]), [e_, []])
            else:
                kind = "same"
        elif kind == "noise":
            G.add_noise(rng, N, tol / 4096)
        elif kind == "move":
            i, d = rng.randrange(len(N["pts"])), rng.randrange(N["dim"])
            N["pts"][i][d] += tol * rng.choice([64, 10 ** 4])
        elif kind == "rewire":
            t, rows = rng.choice(N["blocks"])
            row = rng.choice(rows)
            cand = [c for c in range(len(N["pts"])) if c not in row]
            if cand:
                row[rng.randrange(len(row))] = rng.choice(cand)
        elif kind == "remove_cell":
            t, rows = rng.choice(N["blocks"])
            if len(rows) > 1:
                rows.pop(rng.randrange(len(rows)))
        elif kind == "drop_block" and len(N["blocks"]) > 1:
            N["blocks"].pop(rng.randrange(len(N["blocks"])))
        elif kind == "add_block":
            have = {t for t, _ in N["blocks"]}
            t = rng.choice([x for x in ("TRIANGLE", "LINE", "QUAD", "PIXEL", "VERTEX") if x not in have])
            k = {"TRIANGLE": 3, "LINE": 2, "QUAD": 4, "PIXEL": 4, "VERTEX": 1}[t]
            if len(N["pts"]) >= k:
                N["blocks"].append([t, [rng.sample(range(len(N["pts"])), k)]])
        elif kind == "swap_compat":
            for b in N["blocks"]:
                if b[0] in G.COMPAT:
                    b[0] = G.COMPAT[b[0]]
                    break
        elif kind == "extra_point":
            N["pts"].append([Fr(7)] * N["dim"])
        swap = rng.random() < 0.5
        A, B = (N, M) if swap else (M, N)
        canon = {"a": json_mesh(A), "b": json_mesh(B), "kind": kind}
        res = {}
        try:
            with quiet():
                warnings.simplefilter("ignore")
                a, b = G.to_fieldcompare(A).domain, G.to_fieldcompare(B).domain
                if rng.random() < 0.3 and PermutedMesh is not None:
                    a = PermutedMesh(a)
                elif rng.random() < 0.3 and len({t_ for t_, _ in A["blocks"]}) == len(A["blocks"]):
                    # a held as the view that strip_orphan_points() gives of a mesh with unconnected points stored anywhere among
                    # the connected ones; its explicit representation (for the statement and the model) is rebuilt from the marker
                    # field alone, not from the view's connectivity
                    from fieldcompare.mesh import strip_orphan_points as _strip
                    U = G.add_orphans(rng, G.copy_mesh(A))
                    V = _strip(with_markers(U))
                    pid, _ = markers_of(V)
                    pos_ = {u: k_ for k_, u in enumerate(pid)}
                    A = {"dim": A["dim"], "pts": [list(U["pts"][u]) for u in pid], "pf": {}, "cf": {},
                         "blocks": [[t_, [[pos_[c_] for c_ in r_] for r_ in rows_]] for t_, rows_ in U["blocks"]]}
                    a = V.domain
                    canon = {"a": json_mesh(A), "b": json_mesh(B), "kind": kind,
                             "a_is": "strip_orphan_points view", "a_underlying": json_mesh(strip_markers(U))}
                    ctx.count("c16:a is a strip_orphan_points view")
                for name, x, y in (("ab", a, b), ("ba", b, a)):
                    try:
                        res[name] = bool(x.equals(y))
                    except Exception as e:  # noqa: BLE001
                        res[name] = f"raised {type(e).__name__}: {e}"
                rel = min(tol_of(a)[0], tol_of(b)[0])
                ab = min(tol_of(a)[1], tol_of(b)[1])
        except Exception as e:  # noqa: BLE001
            ctx.violation("E4", f"building the meshes raised {type(e).__name__}: {e}", canon)
            continue
        orc = oracle_equal(A, B, rel, ab)
        ctx.case(canon, kind != "same", sample={"case": {"kind": kind, "swap": swap}, "impl": res, "statement": orc})
        ctx.count(f"c16:{kind}")
        for nm in ("ab", "ba"):
            if isinstance(res[nm], str):
                ctx.violation("E4", f"equals() raised instead of answering: {res[nm]}", canon, impl=res)
        if isinstance(res["ab"], bool) and isinstance(res["ba"], bool):
            if res["ab"] != res["ba"]:
                ctx.violation("E4", f"equals is not symmetric: a.equals(b)={res['ab']}, b.equals(a)={res['ba']}", canon, impl=res)
            elif orc is False and res["ab"]:
                ctx.violation("E4", f"meshes compare equal although they differ ({kind})", canon, impl=res)
        if isinstance(res["ab"], bool) and orc is not None:
            exprs.append(f"mesh_equal {lib.cqfrac(rel)} {lib.cqfrac(ab)} {coq_mesh(A)} {coq_mesh(B)}")
            metas.append((canon, res["ab"], orc))
        ctx.traces_validated += 1
    vals = ctx.coq_eval(HEADER, exprs, name="c16", shard=200)
    for (canon, implv, orc), mo in zip(metas, vals):
        ctx.tie("Mesh.equals vs Model.Mesh.mesh_equal")
        if mo != implv:
            ctx.violation("E2", f"model mesh_equal = {mo}, implementation = {implv}", canon, found_input=False)
        if mo != orc:
            ctx.violation("E2", f"model mesh_equal = {mo} but the statement-level oracle says {orc}", canon, found_input=False)
    # (2) structured representations vs the explicit representation of the same grids
    m = 500 if q else 15000
    img_exprs, img_meta = [], []
    for _ in range(m):
        try:
            with quiet():
                warnings.simplefilter("ignore")
                canon, a, b, P1, P2 = structured_variants(rng)
                res = {"ab": bool(a.equals(b)), "ba": bool(b.equals(a))}
                rel, ab = tol_of(a)
                relb, abb = tol_of(b)
        except Exception as e:  # noqa: BLE001
            ctx.violation("E4", f"structured equals raised {type(e).__name__}: {e}", {"structured": "see message"})
            continue
        # statement: never 'equal' where the explicit representation of the same grids is unequal;
        # 'equal' whenever all defining parameters agree within tolerance
        worst = max((abs(x - y) for p, r in zip(P1, P2) for x, y in zip(p, r)), default=Fr(0))
        tolmax = max(ab, abb)
        mxc = max([abs(x) for p in P1 + P2 for x in p] + [Fr(0)])
        thr = max(max(rel, relb) * mxc, tolmax)
        ctx.case(canon, canon["changed"] is not None, sample={"case": canon, "impl": res})
        ctx.count(f"c16:structured:{canon['kind']}:{canon['changed'][0] if canon['changed'] else 'same'}")
        if canon["kind"] == "image" and len(img_exprs) < (150 if q else 4000):
            qv = lambda l: clist([lib.cqfrac(Fr(x)) for x in l], "Q")  # noqa: E731
            ext = clist([cnat(e) for e in canon["extents"]], "nat")
            mk = lambda o, s_: f"{{| im_extents := {ext}; im_origin := {qv(o)}; im_spacing := {qv(s_)}; im_basis := identity3 |}}"  # noqa: E731
            img_exprs.append(f"image_equals {lib.cqfrac(rel)} {lib.cqfrac(ab)} {mk(canon['origin'], canon['spacing'])} {mk(canon['origin2'], canon['spacing2'])}")
            img_meta.append((canon, res["ab"]))
        # the explicit representation of the same two grids (points and connectivity handed to Mesh): its default tolerances and
        # its answer are the reference for the structured classes
        try:
            with quiet():
                warnings.simplefilter("ignore")
                ea = Mesh(np.asarray(a.points), [(ct, np.asarray(a.connectivity(ct))) for ct in a.cell_types])
                eb = Mesh(np.asarray(b.points), [(ct, np.asarray(b.connectivity(ct))) for ct in b.cell_types])
                exp_eq = bool(ea.equals(eb)) and bool(eb.equals(ea))
                tol_s, tol_e = float(a.absolute_tolerance), float(ea.absolute_tolerance)
        except Exception as e:  # noqa: BLE001
            ctx.violation("E4", f"explicit representation of a structured mesh raised {type(e).__name__}: {e}", canon)
            continue
        # the cells of the structured mesh are the lattice cells (corner SETS computed here, x fastest), whatever direction is flat
        ext_ = canon["extents"]
        nx_, ny_ = ext_[0] + 1, ext_[1] + 1
        pid_ = lambda i_, j_, k_: i_ + nx_ * (j_ + ny_ * k_)  # noqa: E731
        lattice = set()
        for k_ in range(max(ext_[2], 1)):
            for j_ in range(max(ext_[1], 1)):
                for i_ in range(max(ext_[0], 1)):
                    lattice.add(frozenset(pid_(i_ + di, j_ + dj, k_ + dk) for di in range(2 if ext_[0] else 1)
                                          for dj in range(2 if ext_[1] else 1) for dk in range(2 if ext_[2] else 1)))
        got_cells = {frozenset(int(x) for x in row) for ct in a.cell_types for row in np.asarray(a.connectivity(ct))}
        ctx.tie("T2 cells of a structured mesh = lattice cells (independent of the implementation)")
        if got_cells != lattice:
            ctx.violation("E4", f"the cells of the {canon['kind']} mesh with extents {ext_} are not the lattice cells "
                                f"({len(got_cells ^ lattice)} corner sets differ)", canon)
            continue
        ctx.tie("T2 default tolerances of a structured mesh = those of its explicit representation")
        if abs(tol_s - tol_e) > 1e-9 * max(tol_s, tol_e):
            ctx.violation("E4", f"default absolute tolerance of the {canon['kind']} mesh is {tol_s!r}, that of the explicit mesh with the "
                                f"same points is {tol_e!r} (1e-8 times the largest coordinate magnitude)", canon)
        elif res["ab"] and not exp_eq and not (canon["changed"] and canon["changed"][0] == "spacing-below-tolerance"):
            ctx.violation("E4", f"{canon['kind']} meshes compare equal although the explicit point/connectivity representation of the "
                                f"same grids compares unequal: changed {canon['changed']}", canon, impl=res)
        if res["ab"] != res["ba"]:
            ctx.violation("E4", f"structured equals is not symmetric: {res}", canon, impl=res)
        elif res["ab"] and worst > 4 * thr:
            ctx.violation("E4", f"{canon['kind']} meshes compare equal although their points differ by {float(worst):.3g} "
                          f"(tolerance {float(thr):.3g}): changed {canon['changed']}", canon, impl=res)
        elif not res["ab"] and canon["changed"] is None:
            ctx.violation("E4", f"identical {canon['kind']} meshes compare unequal", canon, impl=res)
        ctx.traces_validated += 1
    # (1d) polygon blocks with differing corner counts whose CELL BOUNDARIES differ: the same points, equally many polygons, the
    #      same corners in the same overall sequence — but one polygon hands a corner to its neighbour
    for it in range(40 if q else 1000):
        npoly = rng.randint(2, 4)
        sizes = [rng.randint(3, 6) for _ in range(npoly)]
        j = rng.randrange(npoly - 1)
        sizes2 = list(sizes)
        if sizes2[j + 1] > 3 and rng.random() < 0.5:
            sizes2[j] += 1
            sizes2[j + 1] -= 1
        elif sizes2[j] > 3:
            sizes2[j] -= 1
            sizes2[j + 1] += 1
        else:
            sizes2[j] += 1
            sizes2[j + 1] -= 1
            if sizes2[j + 1] < 3:
                continue
        total = sum(sizes)
        pts = np.array([[float(i % 5), float(i // 5) + 0.25 * (i % 2), 0.0] for i in range(total)])

        def polys(sz):
            out, k0 = np.empty(len(sz), dtype=object), 0
            for i_, n_ in enumerate(sz):
                idx = list(range(k0, k0 + n_))
                rng.shuffle(idx)                       # corner order within a polygon is irrelevant for the comparison
                out[i_] = np.array(idx, dtype=np.int64)
                k0 += n_
            return out
        same = rng.random() < 0.25
        canon = {"kind": "polygon boundaries", "sizes_a": sizes, "sizes_b": sizes if same else sizes2}
        try:
            with quiet():
                warnings.simplefilter("ignore")
                extra = [(CellType.from_name("TRIANGLE"), np.array([[0, 1, 2]]))] if rng.random() < 0.3 else []
                ma = Mesh(pts, extra + [(CellType.from_name("POLYGON"), polys(sizes))])
                mb = Mesh(pts.copy(), extra + [(CellType.from_name("POLYGON"), polys(sizes if same else sizes2))])
                if PermutedMesh is not None and rng.random() < 0.4:
                    ma = PermutedMesh(ma)
                got = (bool(ma.equals(mb)), bool(mb.equals(ma)))
        except Exception as e:  # noqa: BLE001
            ctx.violation("E4", f"equals on polygon meshes raised {type(e).__name__}: {e}", canon)
            continue
        ctx.case(canon, True, sample={"case": canon, "impl": got})
        ctx.count(f"c16:polygon boundaries:{'same' if same else 'shifted'}")
        if got != (same, same):
            ctx.violation("E4", f"polygon meshes with corner counts {sizes} and {canon['sizes_b']} on the same points: equals answers {got}, "
                                f"the statement requires {(same, same)}", canon)
        ctx.traces_validated += 1
    # (1c) tolerances set by the user on a STRUCTURED mesh (image / rectilinear / structured grid): what is set is what is reported
    #      and what decides — a grid shifted by `shift` along one direction is equal iff shift <= max(rel*|coordinate|, abs)
    for it in range(60 if q else 1500):
        try:
            with quiet():
                warnings.simplefilter("ignore")
                canon0, a, _b, P1, _P2 = structured_variants(rng)
        except Exception:  # noqa: BLE001
            continue
        if max(canon0["extents"]) > 8:
            continue
        from fieldcompare.mesh import ImageMesh, RectilinearMesh, StructuredMesh
        mxc = max([abs(x) for p in P1 for x in p] + [Fr(1)])
        shift = Fr(2) ** rng.randint(-30, -2) * mxc
        d = rng.randrange(3)
        which = rng.choice(["abs", "rel", "both_zero", "abs_big"])
        rel_set, abs_set = {"abs": (0.0, float(shift * 4)), "rel": (float(shift * 4 / mxc) + 1e-300, 0.0), "both_zero": (0.0, 0.0),
                            "abs_big": (0.0, float(shift / 4))}[which]
        ext = tuple(canon0["extents"])
        kind = canon0["kind"]
        f3 = lambda l: tuple(float(x) for x in l)  # noqa: E731
        org = [Fr(x) for x in canon0["origin"]]
        spc = [Fr(x) for x in canon0["spacing"]]
        ords = [[Fr(x) for x in o] for o in canon0["ordinates"]]
        org2, ords2 = list(org), [list(o) for o in ords]
        org2[d] += shift
        ords2[d] = [x + shift for x in ords2[d]]
        try:
            with quiet():
                warnings.simplefilter("ignore")
                if kind == "image":
                    m1, m2 = ImageMesh(ext, f3(org), f3(spc)), ImageMesh(ext, f3(org2), f3(spc))
                elif kind == "rect":
                    m1 = RectilinearMesh(ext, tuple(np.array(f3(o)) for o in ords))
                    m2 = RectilinearMesh(ext, tuple(np.array(f3(o)) for o in ords2))
                else:
                    pp = lambda od: np.array([[float(od[0][i]), float(od[1][j]), float(od[2][k])]  # noqa: E731
                                              for k in range(ext[2] + 1) for j in range(ext[1] + 1) for i in range(ext[0] + 1)])
                    m1, m2 = StructuredMesh(ext, pp(ords)), StructuredMesh(ext, pp(ords2))
                if rng.random() < 0.5:
                    m1.equals(m2)                 # a first comparison under the default tolerances: what is set afterwards still counts
                    m1.equals(m1)
                m1.set_tolerances(abs_tol=abs_set, rel_tol=rel_set)
                seen = (float(m1.relative_tolerance), float(m1.absolute_tolerance))
                got = bool(m1.equals(m2))
        except Exception as e:  # noqa: BLE001
            ctx.violation("E4", f"structured mesh with user tolerances raised {type(e).__name__}: {e}",
                          {"kind": "structured user tolerances", "structured": canon0, "rel_tol": rel_set, "abs_tol": abs_set})
            continue
        canon = {"kind": "structured user tolerances", "structured": {k: canon0[k] for k in ("kind", "extents", "origin", "spacing", "ordinates")},
                 "shift": [d, str(shift)], "rel_tol": rel_set, "abs_tol": abs_set}
        ctx.case(canon, True, sample={"case": {"kind": kind, "which": which}, "impl": got, "reported": seen})
        ctx.count(f"c16:structured user tolerances:{kind}:{which}")
        if seen != (float(rel_set), float(abs_set)):
            ctx.violation("E4", f"the tolerances set on the {kind} mesh ({rel_set}, {abs_set}) are not the ones it reports {seen}", canon)
        else:
            # every coordinate along d differs by `shift`; with rel only, the entry of smallest magnitude decides; factor-4 margins
            smallest = min(abs(x) for x in ords[d]) if kind != "image" else min(abs(org[d] + spc[d] * i) for i in range(ext[d] + 1))
            want = {"abs": True, "both_zero": False, "abs_big": False}.get(which)
            if which == "rel":
                want = True if Fr(rel_set) * smallest >= shift * 2 else None     # (entries near zero: no requirement)
            if want is not None and got != want:
                ctx.violation("E4", f"{kind} mesh with user tolerances rel={rel_set}, abs={abs_set}: equals answers {got} for a grid shifted by "
                                    f"{float(shift):.3g}; the statement requires {want}", canon)
        ctx.traces_validated += 1
    # (1b) tolerances set by the user on a mesh or on a permuted view of it, including exact zeros: the answer follows the
    #      tolerances that were set (receiver's tolerances), in particular a zero relative tolerance is not replaced by a default
    for it in range(80 if q else 2000):
        M = G.gen_mesh(rng, max_cells=4)
        used = sorted({c for _, rows in M["blocks"] for r in rows for c in r})
        cand = [(i, d) for i in used for d in range(M["dim"]) if M["pts"][i][d] != 0]
        if not cand:
            continue
        i, d = rng.choice(cand)
        N = G.copy_mesh(M)
        N["pts"][i][d] = M["pts"][i][d] * (1 + Fr(1, 2 ** 30))          # relative deviation ~ 9e-10: below the default 1e-8
        rel_set, abs_set = rng.choice([(0.0, 0.0), (0.0, 1e-300), (1e-12, 0.0), (None, None), (1e-6, 0.0), (0.0, "loose")])
        loose = abs_set == "loose"
        if loose:
            # a generous absolute tolerance on ONE mesh only, the deviation between the two meshes' tolerances: the stricter
            # mesh decides, whichever of the two is asked
            N["pts"][i][d] = M["pts"][i][d] * (1 + Fr(1, 2 ** 16))          # relative deviation 1.5e-5
            abs_set = float(abs(M["pts"][i][d])) * 1e-2
        view = rng.random() < 0.6 and PermutedMesh is not None and not loose     # (a view answers with its own tolerances only)
        canon = {"a": json_mesh(M), "b": json_mesh(N), "kind": "user tolerances", "rel_tol": rel_set, "abs_tol": abs_set, "on_view": view,
                 "moved": [i, d]}
        try:
            with quiet():
                warnings.simplefilter("ignore")
                a, b = G.to_fieldcompare(M).domain, G.to_fieldcompare(N).domain
                if view:
                    a = PermutedMesh(a)
                if rel_set is not None:
                    a.set_tolerances(abs_tol=abs_set, rel_tol=rel_set)
                got = bool(a.equals(b))
                got_back = bool(b.equals(a))
                seen = (float(a.relative_tolerance), float(a.absolute_tolerance)) if rel_set is not None else None
        except Exception as e:  # noqa: BLE001
            ctx.violation("E4", f"equals with user tolerances raised {type(e).__name__}: {e}", canon)
            continue
        # statement: |x - y| <= max(rel * max(|x|,|y|), abs) entry by entry, with the receiver's tolerances
        x, y = abs(M["pts"][i][d]), abs(N["pts"][i][d])
        if loose:
            want = None
            # (the other mesh's default absolute tolerance is 1e-8 times ITS largest coordinate: the deviation has to be well beyond it)
            beyond = abs(N["pts"][i][d] - M["pts"][i][d]) > 4 * Fr(float(b.absolute_tolerance))
            if beyond and (got or got_back):
                ctx.violation("E4", f"a coordinate differs by 1.5e-5 relative; the mesh with the default tolerances does not accept that, the one "
                                    f"with abs_tol={abs_set:g} would: equals answers {got} / {got_back} (asked the other way round) — the stricter "
                                    "tolerance has to decide in both directions", canon)
        elif rel_set is None:
            want = None                     # defaults: covered by stream (1)
        else:
            want = abs(y - x) <= max(Fr(rel_set) * max(x, y), Fr(abs_set))
        ctx.case(canon, True, sample={"rel_tol": rel_set, "abs_tol": abs_set, "on_view": view, "impl": got, "statement": want})
        ctx.count(f"c16:user tolerances:{'view' if view else 'mesh'}:rel={rel_set}")
        # the views made by the public transformations carry the tolerances of the mesh they wrap
        try:
            with quiet():
                warnings.simplefilter("ignore")
                from fieldcompare.mesh import sort_points as _sp, sort_cells as _sc, MeshFields as _MF
                base_mesh = G.to_fieldcompare(M).domain
                if rel_set is not None:
                    base_mesh.set_tolerances(abs_tol=abs_set, rel_tol=rel_set)
                fbase = _MF(base_mesh, {}, {})
                for mk in (_sp, _sc):
                    vd = mk(fbase).domain
                    if (float(vd.relative_tolerance), float(vd.absolute_tolerance)) != (float(base_mesh.relative_tolerance), float(base_mesh.absolute_tolerance)):
                        ctx.violation("E4", f"the view made by {mk.__name__} reports tolerances (rel {float(vd.relative_tolerance)!r}, abs "
                                            f"{float(vd.absolute_tolerance)!r}) other than those of the mesh it wraps (rel "
                                            f"{float(base_mesh.relative_tolerance)!r}, abs {float(base_mesh.absolute_tolerance)!r})", canon)
                        break
        except Exception as e:  # noqa: BLE001
            ctx.violation("E4", f"sorting a mesh with user tolerances raised {type(e).__name__}: {e}", canon)
        if seen is not None and seen != (float(rel_set), float(abs_set)):
            ctx.violation("E4", f"the tolerances set on the mesh ({rel_set}, {abs_set}) are not the ones it reports ({seen[0]}, {seen[1]})",
                          canon)
        elif want is not None and got != want:
            ctx.violation("E4", f"equals answers {got} under rel_tol={rel_set}, abs_tol={abs_set} set by the user; the statement "
                                f"requires {want}", canon)
        ctx.traces_validated += 1
    # (2b) image grids that differ in WHICH direction is flat, or in one entry of the direction matrix
    from fieldcompare.mesh import ImageMesh as _ImageMesh
    for it in range(120 if q else 3000):
        ext = [rng.randint(1, 3), rng.randint(1, 3), 0]
        if rng.random() < 0.3:
            ext[1] = 0
        rng.shuffle(ext)
        origin = [Fr(rng.randint(-4, 4)) for _ in range(3)]
        spacing = [Fr(rng.randint(1, 3)) for _ in range(3)]
        B1 = rng.choice([[[1, 0, 0], [0, 1, 0], [0, 0, 1]], [[0, -1, 0], [1, 0, 0], [0, 0, 1]], [[1, 0, 0], [0, 0, -1], [0, 1, 0]]])
        B1 = [[Fr(x) for x in r] for r in B1]
        ext2, B2, variant = list(ext), [list(r) for r in B1], rng.choice(["flat axis", "basis entry", "basis entry", "same", "basis round-off"])
        if variant == "basis round-off":
            # a computed rotation: entries that are exactly zero in one matrix are round-off (2^-54) in the other
            B2 = [[(x if x != 0 else Fr(rng.choice([1, -1]), 2 ** 54)) for x in r] for r in B2]
        if variant == "flat axis":
            nz = [e for e in ext if e > 0]
            cand = [e2 for e2 in ([nz[0], 0, 0], [0, nz[0], 0], [0, 0, nz[0]]) if e2 != ext] if len(nz) == 1 else \
                   [e2 for e2 in ([nz[0], nz[1], 0], [nz[0], 0, nz[1]], [0, nz[0], nz[1]]) if e2 != ext]
            ext2 = rng.choice(cand)
        elif variant == "basis entry":
            B2[rng.randrange(3)][rng.randrange(3)] += rng.choice([Fr(1, 2), Fr(-1, 2), Fr(1)])

        def pts_img(e, B):
            out = []
            for k in range(e[2] + 1):
                for j in range(e[1] + 1):
                    for i in range(e[0] + 1):
                        v = [spacing[0] * i, spacing[1] * j, spacing[2] * k]
                        out.append([origin[r] + sum(B[r][c] * v[c] for c in range(3)) for r in range(3)])
            return out
        P1, P2 = pts_img(ext, B1), pts_img(ext2, B2)
        fl = lambda l: tuple(float(x) for x in l)  # noqa: E731
        canon = {"kind": "image", "variant": variant, "extents": ext, "extents2": ext2, "origin": [str(x) for x in origin],
                 "spacing": [str(x) for x in spacing], "basis": [[str(x) for x in r] for r in B1], "basis2": [[str(x) for x in r] for r in B2]}
        try:
            with quiet():
                warnings.simplefilter("ignore")
                a = _ImageMesh(tuple(ext), fl(origin), fl(spacing), np.array([fl(r) for r in B1]))
                b = _ImageMesh(tuple(ext2), fl(origin), fl(spacing), np.array([fl(r) for r in B2]))
                res = {"ab": bool(a.equals(b)), "ba": bool(b.equals(a))}
                pa, pb = np.asarray(a.points), np.asarray(b.points)
        except Exception as e:  # noqa: BLE001
            ctx.violation("E4", f"ImageMesh equals raised {type(e).__name__}: {e}", canon)
            continue
        ctx.case(canon, variant != "same", sample={"case": canon, "impl": res})
        ctx.count(f"c16:image:{variant}")
        # the harness's formula for the points is itself checked against the mesh's own points (C07 proves the formula)
        if variant != "basis round-off" and \
                ([[Fr(float(x)) for x in p] for p in pa.tolist()] != P1 or [[Fr(float(x)) for x in p] for p in pb.tolist()] != P2):
            ctx.violation("E2", "ImageMesh.points differ from origin + basis * (spacing * index)", canon, found_input=False)
            continue
        same_pts = len(P1) == len(P2) and P1 == P2
        if variant == "basis round-off":
            if not (res["ab"] and res["ba"]):
                ctx.violation("E4", f"image meshes whose direction matrices differ by round-off only (2^-54 where the other holds 0) compare "
                                    f"unequal: {res}; all defining parameters agree within the tolerance", canon, impl=res)
            ctx.traces_validated += 1
            continue
        if res["ab"] != res["ba"]:
            ctx.violation("E4", f"image equals is not symmetric: {res}", canon, impl=res)
        elif res["ab"] and not same_pts:
            ctx.violation("E4", f"image meshes compare equal although their points differ ({variant})", canon, impl=res)
        elif not res["ab"] and variant == "same":
            ctx.violation("E4", "identical image meshes compare unequal", canon, impl=res)
        if len(img_exprs) < (400 if q else 8000):
            rel, ab = tol_of(a)
            qv = lambda l: clist([lib.cqfrac(Fr(x)) for x in l], "Q")  # noqa: E731
            mkb = lambda B: clist([qv(r) for r in B], "qvec")  # noqa: E731
            mk = lambda e, B: (f"{{| im_extents := {clist([cnat(x) for x in e], 'nat')}; im_origin := {qv(origin)}; "  # noqa: E731
                               f"im_spacing := {qv(spacing)}; im_basis := {mkb(B)} |}}")
            img_exprs.append(f"image_equals {lib.cqfrac(rel)} {lib.cqfrac(ab)} {mk(ext, B1)} {mk(ext2, B2)}")
            img_meta.append((canon, res["ab"]))
        ctx.traces_validated += 1
    hdr = HEADER.replace("From FC Require Import Model.Scalar Model.Mesh.", "From FC Require Import Model.Scalar Model.Mesh Model.Structured Model.ImageEq.")
    for (canon, implv), mo in zip(img_meta, ctx.coq_eval(hdr, img_exprs, name="c16img", shard=80)):
        ctx.tie("ImageMesh.equals vs Model.ImageEq.image_equals")
        if mo != implv:
            ctx.violation("E2", f"ImageMesh.equals: model {mo} != implementation {implv}", canon, found_input=False)
    ctx.rule = ("(1) pairs of explicit meshes (optionally behind an identity PermutedMesh view) that are identical / differ by noise "
                "far below tolerance / by one moved coordinate, one rewired corner, one removed cell, a dropped or added cell-type "
                "block, a compatible type substitution, an extra point; both argument orders; (2) pairs of image / rectilinear / "
                "structured meshes on grids flat in any subset of directions, differing in an ordinate, the origin, the spacing or "
                "the position along a flat direction. non-trivial = the two meshes are not identical")


# ------------------------------------------------------------------------------------------------
# C17
# ------------------------------------------------------------------------------------------------
def pad_mesh(M, dim=3):
    N = G.copy_mesh(M)
    d0 = M["dim"]
    N["dim"] = dim
    N["pts"] = [p + [Fr(0)] * (dim - d0) for p in N["pts"]]

    def padrow(r):
        if isinstance(r, list) and r and isinstance(r[0], list):
            return [row + [Fr(0)] * (dim - len(row)) for row in r] + [[Fr(0)] * dim for _ in range(dim - len(r))]
        if isinstance(r, list):
            return r + [Fr(0)] * (dim - len(r))
        return r
    N["pf"] = {k: [padrow(r) for r in rows] for k, rows in N["pf"].items()}
    N["cf"] = {k: {t: [padrow(r) for r in rows] for t, rows in per.items()} for k, per in N["cf"].items()}
    return N


def run_c17(ctx):
    q = ctx.tier == "quick"
    n = 700 if q else 20000
    rng = ctx.rng
    ladder_batch = []
    for _ in range(n):
        M = None
        while M is None or M["dim"] == 3:
            M = G.gen_mesh(rng, max_cells=5)
        G.add_fields(rng, M, kinds=("scalar", "vector", "tensor", "int"))
        if M["dim"] == 1:
            # an (n,1) array is a scalar field by the library's convention ((n,) ~ (n,1)); 1-component "vectors" are not generated
            M["pf"].pop("v", None)
            M["cf"].pop("cv", None)
        if rng.random() < 0.3:
            M["ptype"] = "float32"          # coordinates in single precision, fields in double precision ...
            for nm in ("v", "t"):           # ... holding values that single precision cannot represent
                if nm in M["pf"]:
                    row = M["pf"][nm][rng.randrange(len(M["pts"]))]
                    if nm == "v":
                        row[rng.randrange(len(row))] = Fr(2 ** 24 + 1)
                    else:
                        row[0][0] = Fr(2 ** 24 + 3)
            if "cv" in M["cf"]:
                t0 = next(iter(M["cf"]["cv"]))
                if M["cf"]["cv"][t0]:
                    M["cf"]["cv"][t0][0][0] = Fr(2 ** 25 + 1)
        if rng.random() < 0.3:
            # a field with MORE components than any space dimension (five mass fractions per point): nothing to pad, left as it is
            M["pf"]["w5"] = [[Fr(rng.randint(-40, 40), 8) for _ in range(5)] for _ in M["pts"]]
        P = pad_mesh(M)
        if "w5" in M["pf"]:
            P["pf"]["w5"] = [list(r) for r in M["pf"]["w5"]]
        if rng.random() < 0.25:
            # the low-dimensional data set stores its vector / tensor fields with three components already (as VTK files do):
            # only the coordinates need matching, the fields must be left as they are
            P0 = pad_mesh(M)
            # ... and their third components are not zero (a velocity out of the plane): the same values on both sides
            for row in P0["pf"].get("v", []):
                row[2] = Fr(rng.randrange(1, 40, 2), 8)
            for per in [P0["cf"].get("cv", {})]:
                for t in per:
                    for row in per[t]:
                        row[2] = Fr(rng.randrange(1, 40, 2), 8)
            M = dict(G.copy_mesh(M), pf=P0["pf"], cf=P0["cf"])
            M["fields_stored_3d"] = True
            P = dict(P, pf=G.copy_mesh(P0)["pf"], cf=G.copy_mesh(P0)["cf"])
        variant = rng.choice(["zero", "zero", "zero", "coord", "vector", "tensor"])
        tol = G.dyadic_tol(M)
        site = None
        if variant == "coord":
            i = rng.randrange(len(P["pts"]))
            P["pts"][i][rng.randrange(M["dim"], 3)] = tol * rng.choice([64, 10 ** 5])
            site = ["coord", i]
        elif variant == "vector" and "v" in P["pf"]:
            i = rng.randrange(len(P["pts"]))
            P["pf"]["v"][i][rng.randrange(M["dim"], 3)] = Fr(rng.choice([1, 3]), 4)
            site = ["vector", i]
        elif variant == "tensor" and "t" in P["pf"]:
            i = rng.randrange(len(P["pts"]))
            a, b = rng.randrange(3), rng.randrange(3)
            if a < M["dim"] and b < M["dim"]:
                a = M["dim"]
            P["pf"]["t"][i][a][b] = Fr(5, 4)
            site = ["tensor", i, a, b]
        else:
            variant = "zero"
        reorder = rng.random() < 0.5
        Pr = G.relabel(rng, P)[0] if reorder else P
        disabled = rng.random() < 0.25
        no_reordering = (not reorder) and rng.random() < 0.3       # dimension matching does not depend on the reordering retries
        role = rng.choice(["low_is_source", "low_is_reference"])
        A, B = (M, Pr) if role == "low_is_source" else (Pr, M)
        canon = {"low": json_mesh(M), "padded": json_mesh(Pr), "variant": variant, "site": site, "role": role,
                 "disable_space_dimension_matching": disabled, "reordered": reorder, "disable_mesh_reordering": no_reordering,
                 "coordinates": M.get("ptype", "float64"), "low_fields_stored_3d": bool(M.get("fields_stored_3d"))}
        if M.get("fields_stored_3d"):
            ctx.count("c17:low-dimensional mesh with fields already stored with three components")
        try:
            with quiet():
                warnings.simplefilter("ignore")
                res = compare_impl(G.to_fieldcompare(A), G.to_fieldcompare(B), disable_space_dimension_matching=disabled,
                                   **({"disable_mesh_reordering": True} if no_reordering else {}))
        except Exception as e:  # noqa: BLE001
            ctx.case(canon, True)
            ctx.violation("E4", f"comparison raised {type(e).__name__}: {e}", canon)
            continue
        ctx.case(canon, True, sample={"case": {k: canon[k] for k in ("variant", "site", "role", "disable_space_dimension_matching", "reordered")},
                                      "dim": M["dim"], "impl": res})
        if len(ladder_batch) < (40 if q else 1000) and len(M["pts"]) <= 16 and not G.has_coincident_points(M):
            try:
                with quiet():
                    warnings.simplefilter("ignore")
                    ladder_batch.append((canon, ladder_expr(A, B, {"disable_space_dimension_matching": disabled,
                                                                   **({"disable_mesh_reordering": True} if no_reordering else {})}), res))
            except Exception:  # noqa: BLE001
                pass
        ctx.count(f"c17:{variant}:{'disabled' if disabled else 'enabled'}")
        ctx.count(f"c17:dim{M['dim']}")
        scalars_ok = all(st == "passed" for nm, st in res["fields"] if nm.split(" @ ")[0] in ("p", "id", "c"))
        if disabled:
            if res["bool"]:
                ctx.violation("E4", "meshes of different space dimension pass although dimension matching is disabled", canon, impl=res)
        elif variant == "zero":
            if not res["bool"]:
                ctx.violation("E4", "a mesh does not compare equal to its zero-padded 3d copy", canon, impl=res)
        else:
            if res["bool"]:
                ctx.violation("E4", f"comparison passes although a padded {variant} entry is non-zero beyond tolerance", canon, impl=res)
            elif variant in ("vector", "tensor") and res["domain"] and not scalars_ok:
                ctx.violation("E4", "scalar fields are affected by the space-dimension matching", canon, impl=res)
        ctx.traces_validated += 1
    run_ladder_batch(ctx, ladder_batch)
    cli_dimension_stream(ctx, 12 if q else 200)
    ctx.rule = ("meshes of space dimension 1-2 with scalar / vector / tensor / int point and cell fields against their zero-padded "
                "3-component copies (padding done by the harness), both roles, with and without relabeling, matching enabled or "
                "disabled, optionally one non-zero entry in a padded coordinate / vector component / tensor component")


def cli_dimension_stream(ctx, n):
    """the option as the command line exposes it: a 2-d mesh file against its zero-padded 3-d twin (XDMF written with meshio, the
    container that keeps two-component coordinates) in file mode and in directory mode, in both roles, with and without
    --disable-mesh-space-dimension-matching: exit status 0 iff the matching is enabled"""
    import meshio
    import shutil
    from .clicommon import run_cli
    rng = ctx.rng
    for it in range(n):
        nx = rng.randint(1, 3)
        pts2 = np.array([[float(i), float(j)] for j in range(2) for i in range(nx + 1)])
        quads = np.array([[i, i + 1, nx + 1 + i + 1, nx + 1 + i] for i in range(nx)])
        u = np.array([rng.randint(-8, 8) / 4.0 for _ in pts2])
        v2 = np.array([[rng.randint(-8, 8) / 4.0, rng.randint(-8, 8) / 4.0] for _ in pts2])
        pts3 = np.hstack([pts2, np.zeros((len(pts2), 1))])
        v3 = np.hstack([v2, np.zeros((len(pts2), 1))])
        d = os.path.join(str(ctx.workdir), f"dimcli{it}")
        low_is_source = rng.random() < 0.5
        try:
            for side, low in (("res", low_is_source), ("ref", not low_is_source)):
                os.makedirs(os.path.join(d, side))
                m = meshio.Mesh(pts2 if low else pts3, [("quad", quads)], point_data={"u": u, "v": v2 if low else v3})
                cwd = os.getcwd()
                os.chdir(os.path.join(d, side))
                try:
                    meshio.xdmf.write("grid.xdmf", m, data_format="XML")
                finally:
                    os.chdir(cwd)
            for mode in ("file", "dir"):
                for disabled in (False, True):
                    with_diff = rng.random() < 0.4       # asking for the difference file does not change the verdict
                    args = ([mode, os.path.join(d, "res", "grid.xdmf"), os.path.join(d, "ref", "grid.xdmf")] if mode == "file"
                            else [mode, os.path.join(d, "res"), os.path.join(d, "ref")])
                    args += ["--verbosity", "0"] + (["--disable-mesh-space-dimension-matching"] if disabled else [])
                    args += ["--diff"] if with_diff else []
                    # the other mesh options do not touch the matching: both files store points and cells in the same order
                    others = [o for o in ("--disable-mesh-reordering", "--disable-mesh-orphan-point-removal") if rng.random() < 0.4]
                    args += others
                    with quiet():
                        warnings.simplefilter("ignore")
                        rc, log, exc = run_cli(args)
                    canon = {"cli": mode, "disable_space_dimension_matching": disabled, "low_is_source": low_is_source, "nx": nx, "diff": with_diff,
                             "other_options": others,
                             "u": [float(x) for x in u], "v": [[float(x) for x in r] for r in v2]}
                    ctx.case(canon, True, sample={"cli": mode, "disabled": disabled, "low_is_source": low_is_source, "exit": rc})
                    ctx.count(f"c17 cli:{mode}:{'disabled' if disabled else 'enabled'}")
                    for o in others:
                        ctx.count(f"c17 cli: combined with {o}")
                    ctx.tie("T2 command line: --disable-mesh-space-dimension-matching in file and dir mode")
                    want_zero = not disabled
                    if exc:
                        ctx.violation("E4", f"fieldcompare {mode}: exception escaped: {exc}", canon)
                    elif (rc == 0) != want_zero:
                        ctx.violation("E4", f"fieldcompare {mode}: exit status {rc} for a 2-d mesh against its zero-padded 3-d twin with "
                                            f"dimension matching {'disabled' if disabled else 'enabled'}", canon)
                    ctx.traces_validated += 1
        finally:
            shutil.rmtree(d, ignore_errors=True)


# ------------------------------------------------------------------------------------------------
def run(ctx):
    ctx.prove()
    t1(ctx)
    {"C02": run_c02, "C03": run_c03, "C08": run_c08, "C16": run_c16, "C17": run_c17}[ctx.pid](ctx)
    return ctx.finish(
        assumptions=["coordinates and values are dyadic rationals so that conversions are exact; verdicts near a tolerance boundary "
                     "(within a factor 4) carry no requirement",
                     "np.argsort returns a sorting permutation; Python's tuple hash has no collisions on the generated cells"],
        trusted=["harness/meshfam.py, harness/meshgen.py (generators, exact content oracle)"])


def t1(ctx):
    """cell-type compatibility table, exhaustive over all cell-type ids of the implementation"""
    from fieldcompare.mesh import CellType
    ids = []
    for i in range(0, 100):
        try:
            ids.append((i, CellType(i)))
        except ValueError:
            pass
    rows = [(a, b, bool(x.is_compatible_with(y))) for a, x in ids for b, y in ids]
    tbl = clist([f"({cnat(a)}, {cnat(b)}, {lib.cbool(v)})" for a, b, v in rows])
    src = HEADER + f"""
Definition table : list (nat * nat * bool) := {tbl}.
Lemma compat_matches_impl : forallb (fun r => Bool.eqb (compat (fst (fst r)) (snd (fst r))) (snd r)) table = true.
Proof. vm_compute. reflexivity. Qed.
"""
    ok = ctx.table_lemma("T1_cell_type_compat", src)
    ctx.tie("T1 cell-type compatibility rows", len(rows))
    if not ok:
        names = {i: ct.name for i, ct in ids}
        for a, b, v in rows:
            want = a == b or {names[a], names[b]} in ({"PIXEL", "QUAD"}, {"VOXEL", "HEXAHEDRON"})
            if v != want:
                ctx.violation("E4", "cell-type compatibility must relate exactly pixel~quad and voxel~hexahedron (and each type with itself)",
                              {"a": names[a], "b": names[b], "impl": v})


def replay(pid, rec):
    c = rec["case"]
    if not c:
        print("no concrete input:", rec["what"])
        return False

    def M(x):
        return restore_mesh(x)
    with quiet():
        warnings.simplefilter("ignore")
        if pid == "C02" and "source" in c:
            res = compare_impl(G.to_fieldcompare(M(c["source"])), G.to_fieldcompare(M(c["reference"])))
            print(res)
            return res["domain"] and all(st == "passed" for _, st in res["fields"])
        if pid == "C03" and "modified" in c:
            A, B = (M(c["modified"]), M(c["mesh"])) if c["role"] == "mod_is_source" else (M(c["mesh"]), M(c["modified"]))
            res = compare_impl(G.to_fieldcompare(A), G.to_fieldcompare(B), **c["opts"])
            print(res)
            return not res["bool"]
        if pid == "C03" and c.get("kind") == "compat_twins":
            res = compare_impl(G.to_fieldcompare(M(c["a"])), G.to_fieldcompare(M(c["b"])))
            print(res)
            return not res["bool"]
        if pid == "C16" and "a" in c:
            a, b = G.to_fieldcompare(M(c["a"])).domain, G.to_fieldcompare(M(c["b"])).domain
            try:
                r1, r2 = bool(a.equals(b)), bool(b.equals(a))
            except Exception as e:  # noqa: BLE001
                print("raised", e)
                return False
            rel, ab = min(tol_of(a)[0], tol_of(b)[0]), min(tol_of(a)[1], tol_of(b)[1])
            orc = oracle_equal(M(c["a"]), M(c["b"]), rel, ab)
            print("a.equals(b) =", r1, " b.equals(a) =", r2, " statement:", orc)
            return r1 == r2 and not (orc is False and r1)
        if pid == "C16" and "extents" in c:
            from fieldcompare.mesh import ImageMesh, RectilinearMesh
            f = lambda l: tuple(float(Fr(x)) for x in l)  # noqa: E731
            if c["kind"] == "image":
                a = ImageMesh(tuple(c["extents"]), f(c["origin"]), f(c["spacing"]))
                b = ImageMesh(tuple(c["extents"]), f(c["origin2"]), f(c["spacing2"]))
            elif c["kind"] == "rect":
                a = RectilinearMesh(tuple(c["extents"]), tuple(np.array(f(o)) for o in c["ordinates"]))
                b = RectilinearMesh(tuple(c["extents"]), tuple(np.array(f(o)) for o in c["ordinates2"]))
            else:
                print("structured-grid replay: re-run the check with the same seed")
                return False
            from fieldcompare.mesh import Mesh
            r = bool(a.equals(b))
            diff = float(np.max(np.abs(a.points - b.points)))
            print("equals:", r, "max point difference:", diff, "abs tol:", a.absolute_tolerance)
            return not (r and diff > 4 * max(a.absolute_tolerance, b.absolute_tolerance, 1e-8 * float(np.max(np.abs(a.points)))))
        if pid == "C08" and "pieces" in c:
            from fieldcompare.mesh import merge
            bad = partial_merge_verdict([M(x) for x in c["pieces"]], c["remove_duplicate_points"], merge)
            print("merge of the two pieces:", bad or "meets the zero-fill specification")
            return bad is None
        if pid == "C17" and "low" in c:
            A, B = (M(c["low"]), M(c["padded"])) if c["role"] == "low_is_source" else (M(c["padded"]), M(c["low"]))
            res = compare_impl(G.to_fieldcompare(A), G.to_fieldcompare(B), disable_space_dimension_matching=c["disable_space_dimension_matching"],
                               **({"disable_mesh_reordering": True} if c.get("disable_mesh_reordering") else {}))
            print(res)
            if c["disable_space_dimension_matching"]:
                return not res["bool"]
            return res["bool"] if c["variant"] == "zero" else not res["bool"]
    print("replay of this record kind is not supported; re-run the check with the same seed:", rec["what"])
    return False


def restore_mesh(m):
    def fr(x):
        if isinstance(x, list):
            return [fr(v) for v in x]
        if isinstance(x, str):
            return Fr(x)
        return x
    M = json.loads(json.dumps(m))
    M["pts"] = fr(M["pts"])
    M["pf"] = {k: fr(v) for k, v in M["pf"].items()}
    M["cf"] = {k: {t: fr(v) for t, v in per.items()} for k, per in M["cf"].items()}
    return M
