"""C18 — a truncated or damaged result file never compares as passed (partial).

Proved part (Properties/C18.v): the decision layer (every read error / exception / lost field / lost rows gives a non-zero
exit code in both roles) and token-level facts.  Exercised, not modelled: expat, the raw-appended fallback parser,
np.genfromtxt on damaged input.  This harness cuts small files of every kind at EVERY byte offset before the end of their
data (exhaustive per file), removes single data arrays / pieces, and runs `fieldcompare file damaged complete` and the reverse.
"""
from __future__ import annotations

import multiprocessing as mp
import os
import re
import shutil
import warnings

from . import lib
from . import vtkenc as V
from .clicommon import write_csv, DSV_OPT

PTS = [[0.0, 0.0, 0.0], [1.0, 0.0, 0.0], [1.0, 1.0, 0.0], [0.0, 1.0, 0.0], [2.0, 0.0, 0.0], [2.0, 1.0, 0.0]]
CELLS = [(9, [0, 1, 2, 3]), (5, [1, 4, 5]), (5, [1, 5, 2])]
PF = [("p", "Float64", 1, [0.5, 1.5, 2.5, 3.5, 4.5, 5.5]), ("v", "Float32", 3, [float(i) for i in range(18)])]
CF = [("c", "Float64", 1, [10.0, 20.0, 30.0]), ("id", "Int32", 1, [7, 8, 9])]


def make_files(d, thorough):
    """-> list of (label, path of the complete file, extra files it needs, argv extras)"""
    out = []
    cfgs = [("ascii", None), ("binary", None), ("appended-base64", None), ("appended-raw", None), ("binary", "zlib"), ("appended-raw", "zlib")]
    if thorough:
        cfgs += [("appended-base64", "lz4"), ("binary", "lzma"), ("appended-raw", "lz4")]
    for fmt, comp in cfgs:
        p = os.path.join(d, f"m_{fmt}_{comp}.vtu")
        V.write_vtu(p, PTS, CELLS, PF, CF, V.Cfg(fmt, comp, block_size=64))
        out.append((f"vtu/{fmt}/{comp}", p, []))
    p = os.path.join(d, "poly.vtp")
    V.write_vtp(p, PTS, {"Polys": [[0, 1, 2, 3], [1, 4, 5, 2]], "Lines": [[0, 1], [1, 4]]}, PF[:1], [("c", "Float64", 1, [1.0, 2.0, 3.0, 4.0])], V.Cfg("binary"))
    out.append(("vtp/binary", p, []))
    p = os.path.join(d, "img.vti")
    V.write_vti(p, [0, 2, 0, 1, 0, 0], [0.0, 0.0, 0.0], [1.0, 1.0, 1.0], None, [("p", "Float64", 1, [float(i) for i in range(6)])],
                [("c", "Float64", 1, [1.0, 2.0])], V.Cfg("ascii"))
    out.append(("vti/ascii", p, []))
    p = os.path.join(d, "rect.vtr")
    V.write_vtr(p, [0, 2, 0, 1, 0, 0], [[0.0, 1.0, 3.0], [0.0, 2.0], [0.0]], [("p", "Float64", 1, [float(i) for i in range(6)])],
                [("c", "Float64", 1, [1.0, 2.0])], V.Cfg("appended-base64"))
    out.append(("vtr/appended-base64", p, []))
    for fmt in ("appended-raw", "binary") + (("ascii",) if thorough else ()):
        p = os.path.join(d, f"rect_{fmt}.vtr")
        V.write_vtr(p, [0, 2, 0, 1, 0, 0], [[0.0, 1.0, 3.0], [0.0, 2.0], [0.0]], [("p", "Float64", 1, [float(i) for i in range(6)])],
                    [("c", "Float64", 1, [1.0, 2.0])], V.Cfg(fmt))
        out.append((f"vtr/{fmt}", p, []))
    p = os.path.join(d, "img_raw.vti")
    V.write_vti(p, [0, 2, 0, 1, 0, 0], [0.0, 0.0, 0.0], [1.0, 1.0, 1.0], None, [("p", "Float64", 1, [float(i) for i in range(6)])],
                [("c", "Float64", 1, [1.0, 2.0])], V.Cfg("appended-raw"))
    out.append(("vti/appended-raw", p, []))
    p = os.path.join(d, "str_raw.vts")
    V.write_vts(p, [0, 2, 0, 1, 0, 0], [[float(i), float(j), 0.0] for j in range(2) for i in range(3)],
                [("p", "Float64", 1, [float(i) for i in range(6)])], [("c", "Float64", 1, [1.0, 2.0])], V.Cfg("appended-raw"))
    out.append(("vts/appended-raw", p, []))
    p = os.path.join(d, "str.vts")
    V.write_vts(p, [0, 2, 0, 1, 0, 0], [[float(i), float(j), 0.0] for j in range(2) for i in range(3)],
                [("p", "Float64", 1, [float(i) for i in range(6)])], [("c", "Float64", 1, [1.0, 2.0])], V.Cfg("binary"))
    out.append(("vts/binary", p, []))
    # a point array and a cell array under the SAME name (they are different fields: "p" and "p @ <cell type>")
    p = os.path.join(d, "namesakes.vtu")
    V.write_vtu(p, PTS[:4], [(9, [0, 1, 2, 3])], [("p", "Float64", 1, [0.5, 1.5, 2.5, 3.5])], [("p", "Float64", 1, [10.0])], V.Cfg("ascii"))
    out.append(("vtu/namesakes", p, []))
    # parallel: two pieces + index file
    pa, pb = os.path.join(d, "piece_0.vtu"), os.path.join(d, "piece_1.vtu")
    V.write_vtu(pa, PTS[:4], [(9, [0, 1, 2, 3])], [("p", "Float64", 1, [0.5, 1.5, 2.5, 3.5])], [("c", "Float64", 1, [10.0])], V.Cfg("ascii"))
    V.write_vtu(pb, [PTS[1], PTS[4], PTS[5], PTS[2]], [(5, [0, 1, 2]), (5, [0, 2, 3])], [("p", "Float64", 1, [1.5, 4.5, 5.5, 2.5])],
                [("c", "Float64", 1, [20.0, 30.0])], V.Cfg("ascii"))
    pv = os.path.join(d, "par.pvtu")
    V.write_pvtu(pv, ["piece_0.vtu", "piece_1.vtu"], [("p", "Float64", 1, [])], [("c", "Float64", 1, [])])
    out.append(("pvtu/index", pv, [pa, pb]))
    out.append(("pvtu/piece", pb, [pv, pa]))        # cut a piece, compare through the index file
    # structured parallel: 2 x 1 pieces of an image grid with 3 x 1 cells
    ia, ib = os.path.join(d, "ipiece_0.vti"), os.path.join(d, "ipiece_1.vti")
    V.write_vti(ia, [0, 1, 0, 1, 0, 0], [0.0, 0.0, 0.0], [1.0, 1.0, 1.0], None, [("p", "Float64", 1, [0.0, 1.0, 4.0, 5.0])],
                [("c", "Float64", 1, [10.0])], V.Cfg("ascii"), whole_extent=[0, 3, 0, 1, 0, 0])
    V.write_vti(ib, [1, 3, 0, 1, 0, 0], [0.0, 0.0, 0.0], [1.0, 1.0, 1.0], None, [("p", "Float64", 1, [1.0, 2.0, 3.0, 5.0, 6.0, 7.0])],
                [("c", "Float64", 1, [20.0, 30.0])], V.Cfg("ascii"), whole_extent=[0, 3, 0, 1, 0, 0])
    pvi = os.path.join(d, "par.pvti")
    V.write_pstructured(pvi, "ImageData", [0, 3, 0, 1, 0, 0], [([0, 1, 0, 1, 0, 0], "ipiece_0.vti"), ([1, 3, 0, 1, 0, 0], "ipiece_1.vti")],
                        [("p", "Float64", 1, [])], [("c", "Float64", 1, [])], extra_attrs=' Origin="0 0 0" Spacing="1 1 1"')
    out.append(("pvti/index", pvi, [ia, ib]))
    # sequence
    s0, s1 = os.path.join(d, "step_0.vtu"), os.path.join(d, "step_1.vtu")
    V.write_vtu(s0, PTS[:4], [(9, [0, 1, 2, 3])], [("p", "Float64", 1, [0.5, 1.5, 2.5, 3.5])], [], V.Cfg("ascii"))
    V.write_vtu(s1, PTS[:4], [(9, [0, 1, 2, 3])], [("p", "Float64", 1, [1.5, 2.5, 3.5, 4.5])], [], V.Cfg("ascii"))
    pvd = os.path.join(d, "seq.pvd")
    V.write_pvd(pvd, ["step_0.vtu", "step_1.vtu"])
    out.append(("pvd/index", pvd, [s0, s1]))
    out.append(("pvd/step", s1, [pvd, s0]))
    # a sequence whose steps are parallel data sets: the index file of the LATER step is damaged (a lost <Piece> leaves a
    # well-formed file that describes a smaller mesh: that step fails for its domain alone, after a step that passed)
    pv1 = os.path.join(d, "par_step1.pvtu")
    V.write_pvtu(pv1, ["piece_0.vtu", "piece_1.vtu"], [("p", "Float64", 1, [])], [("c", "Float64", 1, [])])
    pvd2 = os.path.join(d, "seq_par.pvd")
    V.write_pvd(pvd2, ["par.pvtu", "par_step1.pvtu"])
    out.append(("pvtu/index as a later step of a .pvd", pv1, [pvd2, pv, pa, pb]))
    # a .vtu with two <Piece> elements (the reader supports one piece only and must not silently read a part of the file)
    one = os.path.join(d, "one_piece_tmp.vtu")
    V.write_vtu(one, PTS[:4], [(9, [0, 1, 2, 3])], [("p", "Float64", 1, [0.5, 1.5, 2.5, 3.5])], [("c", "Float64", 1, [10.0])], V.Cfg("ascii"))
    txt = open(one).read()
    os.unlink(one)
    a_, b_ = txt.index("<Piece "), txt.index("</Piece>") + len("</Piece>")
    piece = txt[a_:b_]
    two = os.path.join(d, "two_pieces.vtu")
    open(two, "w").write(txt[:b_] + "\n    " + piece.replace("0.5 1.5 2.5 3.5", "4.5 5.5 6.5 7.5").replace("0.5", "4.5") + txt[b_:])
    out.append(("vtu/two-pieces", two, []))
    # ... and the same for poly data
    onep = os.path.join(d, "one_piece_tmp.vtp")
    V.write_vtp(onep, PTS[:4], {"Polys": [[0, 1, 2, 3]]}, [("p", "Float64", 1, [0.5, 1.5, 2.5, 3.5])], [("c", "Float64", 1, [10.0])], V.Cfg("ascii"))
    txt = open(onep).read()
    os.unlink(onep)
    a_, b_ = txt.index("<Piece "), txt.index("</Piece>") + len("</Piece>")
    piece = txt[a_:b_]
    twop = os.path.join(d, "two_pieces.vtp")
    open(twop, "w").write(txt[:b_] + "\n    " + piece.replace("0.5 1.5 2.5 3.5", "4.5 5.5 6.5 7.5") + txt[b_:])
    out.append(("vtp/two-pieces", twop, []))
    # csv
    c = os.path.join(d, "tab.csv")
    write_csv(c, ["x", "y", "n"], [[0.5, 1.25, 2.5], [3.0, 4.5, 10.0], [1, 22, 333]])
    out.append(("csv", c, []))
    # signs and exponents: a cut inside the last number can leave a token that is no number at all ("-", "-1.75e", "2.5e+")
    c2 = os.path.join(d, "tab2.csv")
    write_csv(c2, ["t", "u", "w"], [[-0.5, 0.25, 1.0], [1e-07, -3.5, 2e+20], [-1.75e-05, 6.02e+23, -2.5e-300]])
    out.append(("csv", c2, []))
    # a table whose last line has no line break (as written by producers that separate rather than terminate lines)
    c3 = os.path.join(d, "tab3.csv")
    open(c3, "wb").write(open(c, "rb").read().rstrip(b"\n"))
    out.append(("csv", c3, []))
    if thorough:
        # the same, longer than the 1024 bytes the reader looks at to find delimiter and header
        c4 = os.path.join(d, "tab4.csv")
        write_csv(c4, ["x", "y", "n"], [[0.5 + i for i in range(70)], [3.0 - 0.25 * i for i in range(70)], [7 * i + 19 for i in range(70)]])
        open(c4, "wb").write(open(c4, "rb").read().rstrip(b"\n"))
        out.append(("csv", c4, []))
    return out


def end_of_data(label, data: bytes) -> int:
    """offset after the last byte that carries data; cuts at or beyond it only remove closing tags / trailing whitespace"""
    if label.startswith("csv"):
        return len(data.rstrip(b"\n"))
    if b"<AppendedData" in data:
        i = data.rfind(b"</AppendedData>")
        return len(data[:i].rstrip(b" \n"))
    if label.startswith(("pvtu/index", "pvti/index")):
        i = data.rfind(b"<Piece ")
        return data.find(b"/>", i) + 2
    if label.startswith("pvd/index"):
        i = data.rfind(b"<DataSet ")
        return data.find(b"/>", i) + 2
    i = data.rfind(b"</DataArray>")
    return len(data[:i].rstrip(b" \n"))


def _init():
    warnings.simplefilter("ignore")


def _work(job):
    """job = (tmpdir, name of the file that is damaged, its damaged bytes, the file that is compared (may be the index), kind)"""
    from .clicommon import run_cli
    tmp, target_name, content, compare_name, is_csv, reference_dir = job
    os.makedirs(tmp, exist_ok=True)
    # damaged copy of the data set lives in tmp (all companion files copied by the parent already)
    with open(os.path.join(tmp, target_name), "wb") as f:
        f.write(content)
    damaged = os.path.join(tmp, compare_name)
    complete = os.path.join(reference_dir, compare_name)
    extra = ["--read-as", DSV_OPT] if is_csv else []
    res = []
    # every third damaged file is compared the way a CI job does it, with a report requested: asking for the report must not
    # change the exit status nor let anything escape
    with_report = (len(content) % 3 == 0)
    for k, (a, b) in enumerate(((damaged, complete), (complete, damaged))):
        rep = ["--junit-xml", os.path.join(tmp, f"report_{k}.xml")] if with_report else []
        rc, _, exc = run_cli(["file", a, b, "--verbosity", "0"] + extra + rep)
        res.append((rc, exc))
    return res


def csv_same_table(orig: bytes, cut: bytes) -> bool:
    """independent strict parse: does the cut file still hold the same logical table?"""
    def parse(b):
        try:
            lines = b.decode().split("\n")
            if lines and lines[-1] == "":
                lines = lines[:-1]
            rows = [ln.split(",") for ln in lines]
            hdr = rows[0]
            vals = [[float(x) for x in r] for r in rows[1:]]
            if any(len(r) != len(hdr) for r in vals):
                return None
            return hdr, vals
        except Exception:  # noqa: BLE001
            return None
    return parse(orig) is not None and parse(orig) == parse(cut)


def csv_model_tie(ctx, cuts):
    """T2 for C18_csv_truncated_differs: on every cut of every csv file the reader model (Model.Codec.read_table) and the
    harness's independent strict parse agree on whether the cut file still holds the same table (it never does before the
    end of the data)"""
    from . import c05 as G5
    header = G5.header() + """
Fixpoint lb_eqb (a b : list bytes) : bool :=
  match a, b with [], [] => true | x :: a', y :: b' => list_eqb x y && lb_eqb a' b' | _, _ => false end.
Fixpoint llb_eqb (a b : list (list bytes)) : bool :=
  match a, b with [], [] => true | x :: a', y :: b' => lb_eqb x y && llb_eqb a' b' | _, _ => false end.
Definition same_table (full cut : bytes) : bool :=
  match read_table full, read_table cut with
  | Some (n1, r1), Some (n2, r2) => lb_eqb n1 n2 && llb_eqb r1 r2
  | None, None => true
  | _, _ => false
  end.
"""
    if not cuts:
        return
    exprs = [f"same_table {G5.hx(full)} {G5.hx(cut)}" for full, cut, _ in cuts]
    vals = ctx.coq_eval(header, exprs, name="c18csv", shard=120)
    for (full, cut, k), v in zip(cuts, vals):
        ctx.tie("T2 read_table on cut csv files = independent strict parse (same table or not)")
        py = csv_same_table(full, cut)
        if v is not True and py:
            ctx.count("csv cut changes the text of the last cell but not its value (model: different table; no requirement)")
        elif bool(v) != py:
            ctx.violation("E2", f"reader model says the csv file cut at byte {k} {'is' if v else 'is not'} the same table, the independent "
                                f"strict parse says it {'is' if py else 'is not'}", {"file": "csv", "damage": "cut", "offset": k}, found_input=False)
        elif v is True:
            ctx.violation("E2", f"reader model reads the csv file cut at byte {k} (before the end of its data) as the same table: "
                                "C18_csv_truncated_differs does not apply to this file", {"file": "csv", "damage": "cut", "offset": k},
                          found_input=False)


def run(ctx):
    ctx.prove()
    thorough = ctx.tier == "thorough"
    base = os.path.join(str(ctx.workdir), "base")
    os.makedirs(base)
    files = make_files(base, thorough)
    jobs, metas = [], []
    stride_note = {}
    for fi, (label, path, companions) in enumerate(files):
        data = open(path, "rb").read()
        eod = end_of_data(label, data)
        compare_name = os.path.basename(path)
        if label in ("pvtu/piece",):
            compare_name = "par.pvtu"
        if label in ("pvd/step",):
            compare_name = "seq.pvd"
        if label.startswith("pvtu/index as a later step"):
            compare_name = "seq_par.pvd"
        cuts = list(range(0, eod))
        stride_note[label] = {"file_bytes": len(data), "end_of_data": eod, "cuts": len(cuts)}
        for k in cuts:
            tmp = os.path.join(str(ctx.workdir), f"w{fi}_{k % 24}")
            jobs.append((tmp, os.path.basename(path), data[:k], compare_name, label == "csv", base))
            metas.append((label, "cut", k, data, eod))
        # removal of single DataArray / Piece / DataSet elements
        text = data
        # (two passes: a whole <Piece> element contains its data arrays, one pattern for both would never reach them)
        found = list(re.finditer(rb"<DataArray[^>]*?(/>|>.*?</DataArray>)", text, flags=re.S)) + \
            list(re.finditer(rb"<Piece [^>]*/>|<Piece [^>]*[^/]>.*?</Piece>|<DataSet [^>]*/>", text, flags=re.S))
        for m in found:
            if b"Name=\"connectivity\"" in m.group(0) or b"Name=\"offsets\"" in m.group(0) or b"Name=\"types\"" in m.group(0):
                pass
            removed = text[:m.start()] + text[m.end():]
            tmp = os.path.join(str(ctx.workdir), f"w{fi}_r{len(jobs) % 24}")
            jobs.append((tmp, os.path.basename(path), removed, compare_name, label == "csv", base))
            metas.append((label, "remove", m.start(), data, eod))
    # every worker directory needs the companion files (pieces, steps, index files)
    dirs = sorted({j[0] for j in jobs})
    for d in dirs:
        os.makedirs(d, exist_ok=True)
        for f in os.listdir(base):
            shutil.copy(os.path.join(base, f), os.path.join(d, f))
    # jobs sharing a directory must not run concurrently: group by directory
    by_dir = {}
    for j, m in zip(jobs, metas):
        by_dir.setdefault(j[0], []).append((j, m))
    groups = list(by_dir.values())
    with mp.get_context("fork").Pool(14, initializer=_init) as pool:
        results = pool.map(_run_group, groups)
    csv_model_tie(ctx, [(m[3], j[2], m[2]) for j, m in zip(jobs, metas) if m[0] == "csv" and m[1] == "cut"])
    n_cut = 0
    for grp, ress in zip(groups, results):
        for (job, (label, kind, k, data, eod)), res in zip(grp, ress):
            canon = {"file": label, "damage": kind, "offset": k}
            ctx.case(canon, True, sample={"case": canon, "exits": [r[0] for r in res]} if k % 97 == 0 else None)
            ctx.count(f"{label}:{kind}")
            n_cut += 1
            if kind == "remove" and label in ("pvd/index",) :
                pass
            for role, (rc, exc) in zip(("damaged-is-result", "damaged-is-reference"), res):
                if exc:
                    ctx.violation("E4", f"exception escaped the command-line entry point for a damaged {label} file ({role}): {exc[:120]}", canon)
                elif rc == 0:
                    if label == "csv" and csv_same_table(data, job[2]):
                        ctx.count("csv cut with unchanged logical table (no requirement)")
                        continue
                    ctx.violation("E4", f"a damaged {label} file ({kind} at byte {k} of {len(data)}, data ends at {eod}) compares as PASSED ({role})", canon)
            ctx.traces_validated += 1
    ctx.exhaustive = True
    ctx.extra["files"] = stride_note
    ctx.rule = ("for each small file (.vtu in 6-9 encodings, .vtp, .vti, .vtr, .vts, .pvtu index and piece, .pvd index and step, "
                ".csv; every third invocation with --junit-xml) EVERY cut position 0 <= k < end-of-data (exhaustive per file) and the removal of each single DataArray / Piece "
                "/ DataSet element, each in both roles; cuts at or after the end of the data (closing tags only) carry no requirement; "
                "CSV cuts after which an independent strict parser still obtains the same table carry no requirement")
    return ctx.finish(assumptions=["PARTIAL: the XML layer (expat), the raw-appended fallback locator and np.genfromtxt on damaged input are "
                                   "exercised exhaustively over cut positions of the generated files, not modelled",
                                   "the proved part covers the decision layer (Model.Cli) only"],
                      trusted=["harness/c18.py, harness/vtkenc.py"])


def _run_group(grp):
    _init()
    return [_work(j) for j, _ in grp]


def replay(pid, rec):
    print("re-run ./check C18 quick (the enumeration is exhaustive and deterministic):", rec["what"])
    return False
