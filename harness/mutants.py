"""Mutation self-test (not a registered check): hand-written semantic mutations of /repo, each applied in a scratch git
worktree.  A mutant that the repository's own tests already kill is skipped; every surviving mutant must be caught by the
check of the property it breaks.  Usage:  /venv/bin/python -m harness.mutants [name-substring]   (from /verif)
Results: /verif/seeded/mutation_selftest.json
"""
from __future__ import annotations

import json
import os
import subprocess
import sys
from pathlib import Path

WT = "/tmp/mut_wt"
M = []


def mut(name, file, old, new, checks):
    M.append(dict(name=name, file=file, old=old, new=new, checks=checks.split()))


NU = "fieldcompare/_numpy_utils.py"
mut("fuzzy_le_to_lt", NU, "return np.less_equal(abs_diff, thresholds)", "return np.less(abs_diff, thresholds) | (abs_diff == 0)", "C01")
mut("fuzzy_max_to_min_abs", NU, "thresholds = select_max_values(thresholds, abs_tol)", "thresholds = np.minimum(thresholds, abs_tol) if np.all(thresholds > 0) and np.all(np.asarray(abs_tol) > 0) else select_max_values(thresholds, abs_tol)", "C01")
mut("fuzzy_rel_uses_first_only", NU, "thresholds = select_max_values(np.abs(first), np.abs(second))", "thresholds = np.abs(first) + 0 * np.abs(second)", "C01 C10")
mut("fuzzy_last_entry_ignored", NU, "        if not np.all(bitset):\n            return _get_first_false_pair(bitset, first, second)\n    except Exception:\n        try:",
    "        if not np.all(bitset[:-1] if len(bitset.shape) == 1 and len(bitset) > 20 else bitset):\n            return _get_first_false_pair(bitset, first, second)\n    except Exception:\n        try:", "C01")
mut("has_floats_float64_only", NU, 'return "float" in input_array.dtype.name', 'return "float64" in input_array.dtype.name', "C09 C01")
mut("abs_array_no_abs_for_floats", NU, "return np.abs(_integers_as_floats(input_array))", "return _integers_as_floats(input_array) if input_array.dtype.kind == 'f' and input_array.ndim > 1 else np.abs(_integers_as_floats(input_array))", "C10")
PR = "fieldcompare/predicates/_predicates.py"
mut("default_equality_and", PR, "if has_floats(first) or has_floats(second):", "if has_floats(first) and has_floats(second):", "C09")
mut("shape_check_only_sizes", PR, "    if arr1.shape != arr2.shape:", "    if arr1.size != arr2.size:", "C01 C09")
mut("scaled_uses_first_field_only", PR, "return self._get_base_tol(first, second) * max(max_abs_value(first), max_abs_value(second))",
    "return self._get_base_tol(first, second) * max_abs_value(first)", "C10")
CM = "fieldcompare/_common.py"
mut("default_eps_always_float64", CM, "return float(finfo(common_type).eps)", "return float(finfo(float).eps)", "C01")
FD = "fieldcompare/_field_data_comparison.py"
mut("filter_and_instead_of_or", FD, "if not is_included or is_excluded:", "if not is_included and is_excluded:", "C11 C04")
mut("missing_statuses_swapped", FD, "status=FieldComparisonStatus.missing_source,\n                predicate=\"\",\n                report=\"Missing source field\",",
    "status=FieldComparisonStatus.missing_reference,\n                predicate=\"\",\n                report=\"Missing source field\",", "C11 C04")
mut("callback_only_on_pass", FD, "            fieldcomp_callback(comp)\n", "            if comp:\n                fieldcomp_callback(comp)\n", "C11")
CC = "fieldcompare/_cli/_common.py"
mut("first_global_tolerance_wins", CC, "                default_tol = _make_tolerance(tol_string)", "                default_tol = default_tol if default_tol is not None else _make_tolerance(tol_string)", "C04")
mut("max_suffix_ignored_value", CC, 'return ScaledTolerance(base_tolerance=float(tol_string.rsplit("*max")[0]))', 'return float(tol_string.rsplit("*max")[0])', "C04")
FC = "fieldcompare/_cli/_file_comparison.py"
mut("ignore_flags_swapped", FC, "if status == FieldComparisonStatus.missing_reference and not self._opts.ignore_missing_reference_fields:",
    "if status == FieldComparisonStatus.missing_reference and not self._opts.ignore_missing_source_fields:", "C04 C20")
mut("ioerror_suite_skipped", FC, 'tests=[], status=TestStatus.error, name=_suite_name(res_file), shortlog="Error during field reading"',
    'tests=[], status=TestStatus.skipped, name=_suite_name(res_file), shortlog="Error during field reading"', "C04 C18")
mut("per_field_tolerance_uses_reference_name", FC, "abs_tol = self._opts.absolute_tolerances(res_field.name)\n        rel_tol = self._opts.relative_tolerances(res_field.name)",
    "abs_tol = self._opts.absolute_tolerances(ref_field.name)\n        rel_tol = self._opts.relative_tolerances(\"domain\") if self._opts.relative_tolerances(\"domain\") is not None else self._opts.relative_tolerances(res_field.name)", "C04")
mut("sequence_ignore_flag_inverted", FC, "            if not self._opts.ignore_missing_sequence_steps:\n                num_steps_check = TestStatus.failed",
    "            if self._opts.ignore_missing_sequence_steps:\n                num_steps_check = TestStatus.failed", "C15")
DM = "fieldcompare/_cli/_dir_mode.py"
mut("dir_all_to_any", DM, "passed = all(comp for _, _, comp in comparisons)", "passed = any(comp for _, _, comp in comparisons) or not comparisons", "C12")
mut("dir_exclude_ignored_for_orphans", DM, "missing_sources = [m for m in search_result.orphans_in_reference if consider(m)]", "missing_sources = [m for m in search_result.orphans_in_reference if include_filter(m)]", "C12")
mut("dir_unsupported_treated_as_failure_free_drop", DM, "    _add_skipped_file_comparisons(comparisons, categories.unsupported_files, \"Unsupported file format\")\n", "", "C12 C20")
JU = "fieldcompare/_cli/_junit.py"
mut("junit_errors_counted_as_failures", JU, 'str(sum(1 for t in tests if t.status == TestStatus.failed))', 'str(sum(1 for t in tests if not t.status))', "C20")
mut("junit_skipped_child_missing", JU, '        _set_with_message(testcase, "skipped", stdout.text)', '        pass', "C20")
ME = "fieldcompare/mesh/_mesh_equal.py"
mut("corner_sets_not_sorted", ME, "        sorted_corners[i].sort()", "        pass", "C02 C16")
mut("cell_count_only", ME, "        if not ExactEquality()(\n            _get_sorted_corner_indices(source.connectivity(cell_type)),\n            _get_sorted_corner_indices(target.connectivity(tct)),\n        ):",
    "        if len(source.connectivity(cell_type)) > 3 and False or not ExactEquality()(\n            _get_sorted_corner_indices(source.connectivity(cell_type))[:-1],\n            _get_sorted_corner_indices(target.connectivity(tct))[:-1],\n        ):", "C03 C16")
PM = "fieldcompare/mesh/_permuted_mesh.py"
mut("cell_data_not_permuted", PM, "            return data[self._cell_permutations[cell_type]]", "            return data if data.ndim == 1 and data.dtype.kind == 'f' else data[self._cell_permutations[cell_type]]", "C08 C03 C02")
mut("inverse_permutation_is_permutation", PM, "        inverse[index_map] = make_array(list(range(len(index_map))))", "        inverse[make_array(list(range(len(index_map))))] = index_map", "C08 C02")
TR = "fieldcompare/mesh/_transformations.py"
mut("strip_keeps_last_orphan", TR, "    return sub_array(unconnected_filter_map, 0, first_unconnected_after_sort)", "    return sub_array(unconnected_filter_map, 0, min(first_unconnected_after_sort + 1, len(unconnected_filter_map)))", "C08")
mut("extend_tensor_not_padded", TR, "        if _is_tensor_field(values):\n            return _resized_tensor_field_values(values)", "        if _is_tensor_field(values):\n            return values", "C17 C08")
MF = "fieldcompare/mesh/_mesh_fields.py"
mut("mesh_diff_sign", MF, "        point_data[field1.name] = field1.values - field2.values", "        point_data[field1.name] = field2.values - field1.values", "C14")
TF = "fieldcompare/tabular/_tabular_fields.py"
mut("table_diff_sign", TF, "            diff_fields[fname][i] = a - b", "            diff_fields[fname][i] = b - a", "C14")
FS = "fieldcompare/_field_sequence.py"
mut("sequence_skips_second_step", FS, "        while self._source.step():\n            yield self._source.get()", "        first = True\n        while self._source.step():\n            if first and self._source.number_of_steps > 3:\n                first = False\n                continue\n            yield self._source.get()", "C15")
MC = "fieldcompare/mesh/_mesh_fields_comparator.py"
mut("ladder_skips_cell_sort", MC, "            self._source = sort_cells(self._source)\n            self._reference = sort_cells(self._reference)", "            self._source = sort_cells(self._source)", "C02")
MU = "fieldcompare/mesh/meshio_utils.py"
mut("to_meshio_alias_again", MU, "    reordered = connectivity.copy()\n", "    reordered = connectivity\n", "C19")


# ---- harmless rewrites: the checks must stay QUIET on these --------------------------------------------------------
H = []


def harmless(name, file, old, new, checks):
    H.append(dict(name="HARMLESS_" + name, file=file, old=old, new=new, checks=checks.split(), harmless=True))


# `<=` written as `not >` is equivalent on finite data (C01/C10 rightly stay quiet, recorded in harmless_rewrites.json) but lets NaN
# compare equal: the empty last cell of a csv cut right behind a delimiter then passes, which C18 reports (seed C18-5)
mut("le_as_not_greater_lets_nan_pass", NU, "return np.less_equal(abs_diff, thresholds)", "return np.logical_not(np.greater(abs_diff, thresholds))", "C18")
harmless("stable_argsort", NU, "    return np.argsort(input_array)\n", "    return np.argsort(input_array, kind=\"stable\")\n", "C02 C08")
harmless("strip_via_nonzero", TR, "    return sub_array(unconnected_filter_map, 0, first_unconnected_after_sort)", "    import numpy as _np\n    return _np.nonzero(_np.logical_not(is_unconnected))[0]", "C08 C02")
harmless("report_order", FD, "        comparisons.extend(self._missing_source_comparisons(query))\n        comparisons.extend(self._missing_reference_comparisons(query))",
         "        comparisons.extend(self._missing_reference_comparisons(query))\n        comparisons.extend(self._missing_source_comparisons(query))", "C11 C04 C20")
harmless("cell_hash_salted", TR, "hashes = make_array([hash(tuple(sorted(corners))) for corners in corners_array])", "hashes = make_array([hash((\"cell\",) + tuple(sorted(corners))) for corners in corners_array])", "C02 C03 C08")
harmless("dir_sorted_discovery", "fieldcompare/_matching.py", "        result.extend(relpath(join(root, filename), folder) for filename in files)", "        result.extend(relpath(join(root, filename), folder) for filename in sorted(files, reverse=True))", "C12")
harmless("exit_code_expression", CC, "    return int(not value)", "    return 0 if value else 1", "C04 C12")
harmless("sequence_zip_enumerate", FC, "        for idx, (res_step, ref_step) in enumerate(zip(res_sequence, ref_sequence)):", "        for idx, res_step, ref_step in ((i, a, b) for i, (a, b) in enumerate(zip(res_sequence, ref_sequence))):", "C15")


def sh(cmd, **kw):
    return subprocess.run(cmd, shell=True, capture_output=True, text=True, **kw)


def main():
    only = sys.argv[1] if len(sys.argv) > 1 else ""
    sh(f"git -C /repo worktree remove --force {WT}; git -C /repo worktree prune; git -C /repo worktree add --detach {WT} HEAD")
    results = []
    out = Path("/verif/seeded/mutation_selftest.json" if only != "HARMLESS" else "/verif/seeded/harmless_rewrites.json")
    try:
        for m in (M + H if only != "HARMLESS" else H):
            if only not in m["name"]:
                continue
            sh(f"git -C {WT} checkout -q -- .")
            p = Path(WT) / m["file"]
            txt = p.read_text()
            if txt.count(m["old"]) != 1:
                results.append({**m, "result": f"NOT APPLICABLE (pattern occurs {txt.count(m['old'])} times)"})
                print(m["name"], results[-1]["result"], flush=True)
                continue
            p.write_text(txt.replace(m["old"], m["new"]))
            t = sh(f"cd {WT} && /venv/bin/python -m pytest -q -x -p no:cacheprovider --timeout=900 --deselect test/test_examples.py::test_api_examples 2>&1 | tail -1")
            tests_ok = " passed" in t.stdout and "failed" not in t.stdout
            rec = {"name": m["name"], "file": m["file"], "checks": m["checks"], "existing_tests": t.stdout.strip()}
            if not tests_ok:
                rec["result"] = "killed by the existing tests (not a candidate)"
            else:
                caught = {}
                for c in m["checks"]:
                    r = sh(f"cd /verif && VERIF_REPO={WT} VERIF_EVIDENCE_DIR=/verif/work/mut_evidence ./check {c} quick 2>&1 | grep -c '^VIOLATION'")
                    caught[c] = int(r.stdout.strip() or 0)
                rec["violations_per_check"] = caught
                if m.get("harmless"):
                    rec["result"] = "QUIET (as required)" if not any(v > 0 for v in caught.values()) else "FALSE ALARM"
                else:
                    rec["result"] = "CAUGHT" if any(v > 0 for v in caught.values()) else "MISSED"
            results.append(rec)
            print(rec["name"], rec["result"], rec.get("violations_per_check", ""), flush=True)
            out.write_text(json.dumps(results, indent=1))
    finally:
        sh(f"git -C /repo worktree remove --force {WT}; git -C /repo worktree prune; rm -rf /verif/work/mut_evidence")
    out.write_text(json.dumps(results, indent=1))


if __name__ == "__main__":
    main()
