"""Entry point:  python -m harness.main Cxx quick|thorough   |   Cxx --replay file"""
import importlib
import json
import os
import sys

from . import lib

MODULES = {
    "C01": "predfam", "C09": "predfam", "C10": "predfam",
    "C11": "c11", "C04": "c04", "C15": "c15", "C12": "c12", "C20": "c20",
    "C05": "c05", "C13": "c13", "C18": "c18", "C06": "c06", "C07": "c07",
    "C02": "meshfam", "C03": "meshfam", "C08": "meshfam", "C16": "meshfam", "C17": "meshfam", "C14": "c14", "C19": "c19",
}


def main(argv):
    if len(argv) < 2:
        print("usage: check Cxx quick|thorough | Cxx --replay <file>")
        return 2
    pid = argv[0]
    if pid not in MODULES:
        print(f"unknown property {pid}")
        return 2
    lib.assert_repo_import()
    mod = importlib.import_module(f"harness.{MODULES[pid]}")
    seed = int(os.environ.get("VERIF_SEED", "0"))
    if argv[1] == "--replay":
        rec = json.load(open(argv[2]))
        ok = mod.replay(pid, rec)
        print("replay:", "property holds on this case" if ok else "STILL FAILS")
        return 0 if ok else 1
    tier = argv[1]
    assert tier in ("quick", "thorough")
    ctx = lib.Ctx(pid, tier, seed)
    return mod.run(ctx)


if __name__ == "__main__":
    sys.exit(main(sys.argv[1:]))
