"""Entry point:  python -m harness.main Cxx quick|thorough   |   Cxx --replay file"""
import importlib
import json
import os
import sys

from . import lib

MODULES = {
    "C01": "predfam", "C09": "predfam", "C10": "predfam",
    "C11": "c11", "C04": "c04", "C15": "c15", "C12": "c12", "C20": "c20",
    "C05": "c05", "C13": "c13", "C18": "c18", "C06": "c06", "C07": "c07",
    "C02": "meshfam", "C03": "meshfam", "C08": "meshfam", "C16": "meshfam", "C17": "meshfam", "C14": "c14", "C19": "c19",
}


def main(argv):
    if len(argv) < 2:
        print("usage: check Cxx quick|thorough | Cxx --replay <file>")
        return 2
    pid = argv[0]
    if pid not in MODULES:
        print(f"unknown property {pid}")
        return 2
    lib.assert_repo_import()
    mod = importlib.import_module(f"harness.{MODULES[pid]}")
    seed = int(os.environ.get("VERIF_SEED", "0"))
    if argv[1] == "--replay":
        rec = json.load(open(argv[2]))
        ok = mod.replay(pid, rec)
        print("replay:", "property holds on this case" if ok else "STILL FAILS")
        return 0 if ok else 1
    tier = argv[1]
    assert tier in ("quick", "thorough")
    ctx = lib.Ctx(pid, tier, seed)
    try:
        return mod.run(ctx)
    except Exception:       # noqa: BLE001
        # The correspondence run itself broke down (the implementation behaved in a way the harness cannot even process).
        # That is a broken correspondence, not a silent crash: report it, together with whatever was found before.
        import traceback
        tb = traceback.format_exc()
        sys.stderr.write(tb)
        ctx.violation("E1", "the correspondence run of this check aborted: " + tb.strip().splitlines()[-1][:200], None,
                      found_input=False, traceback=tb[-3000:])
        ctx.notes.append("check aborted by an exception inside the harness; coverage counts are those reached before the abort")
        if ctx.discharged == 0:                  # (the proof obligations do not depend on the implementation)
            try:
                ctx.prove()
            except Exception:                    # noqa: BLE001
                pass
        ctx.obligations += 1                     # the obligation "the correspondence run completes" is not discharged
        ctx.obligation_names.append("correspondence run completes (NOT discharged: aborted)")
        return ctx.finish(assumptions=["(run aborted)"], trusted=["harness (aborted run)"])


if __name__ == "__main__":
    sys.exit(main(sys.argv[1:]))
