"""C04 — CLI file-mode exit code equals the documented comparison semantics (also feeds C20's file-mode stream).

Scenarios: a ground-truth table (CSV) or mesh (.vtu, own encoder) is edited independently on the result and
reference side (perturb one entry relative to the tolerance that should apply, drop/rename fields, change
row/point counts, reorder the mesh, damage a file) and compared under random option combinations through
fieldcompare._cli.main.  Model: Model.CliFile.cli_file_datasets.  Oracle: the statement, in Fractions.
"""
from __future__ import annotations

import json
import os
import shutil
import warnings
from fractions import Fraction as Fr

from . import lib, predfam
from . import vtkenc as V
from .clicommon import run_cli, write_csv, DSV_OPT, parse_junit, lattice_mesh, permute_mesh, fmt_num
from .lib import clist, cnat

HEADER = predfam.HEADER + """From FC Require Import Model.Compare Model.Cli Model.CliFile.
Definition tbl (l : list nat) (n : nat) : bool := existsb (Nat.eqb n) l.
Definition DS (d : nat) (c : list (nat * nat * arr)) : dataset := {| dom_id := d; cols := c |}.
Definition jout (j : junit) := (j_tests j, j_failures j, j_errors j, j_skipped j, j_cases j).
Definition runfile (rargs aargs : tolargs) (incl excl : list nat) (is ir : bool) (r s : readres dataset) :=
  let fc := file_compare (cmp_datasets rargs aargs (tbl incl) (tbl excl) is ir) false false r s in
  (cli_file_datasets rargs aargs (tbl incl) (tbl excl) is ir false false r s,
   match fc with FSuite t => Some (jout (junit_of 9999 t)) | FRaise => None end).
"""
NAMES = ["x", "y", "p", "vel", "id", "tag", "T", "rho"]
TSTAT = {"TPassed": 0, "TFailed": 1, "TError": 2, "TSkipped": 3}


def dy(rng, lo=-4, hi=6):
    return Fr(rng.choice([1, 3, 5, 7, 9, 11]) * rng.choice([-1, 1, 1])) * Fr(2) ** rng.randint(lo, hi)


def gen_truth_csv(rng):
    k = rng.randint(2, 5)
    names = rng.sample(NAMES, k)
    n = rng.randint(1, 5)
    cols = []
    for nm in names:
        t = rng.choice(["float", "float", "float", "int", "str"])
        if t == "float":
            vals = [dy(rng) for _ in range(n)]
            vals[0] = vals[0] + Fr(1, 2) if vals[0].denominator == 1 else vals[0]   # make sure the column is typed float
            if all(v.denominator == 1 for v in vals):
                vals[0] += Fr(1, 4)
        elif t == "int":
            vals = [rng.randint(-1000, 1000) for _ in range(n)]
        else:
            vals = [rng.choice(["a", "b", "ab", "zz", "q1"]) for _ in range(n)]
        cols.append([nm, t, vals])
    return {"kind": "csv", "nrows": n, "cols": cols}


def gen_truth_vtu(rng):
    nx, ny = rng.randint(1, 3), rng.randint(1, 2)
    pts, cells = lattice_mesh(rng, nx, ny)
    npts, ncells = len(pts), len(cells)
    pf = [["p", "Float64", 1, [dy(rng) for _ in range(npts)]]]
    if rng.random() < 0.6:
        pf.append(["v", "Float64", 3, [dy(rng) for _ in range(3 * npts)]])
    if rng.random() < 0.4:
        pf.append(["id", "Int32", 1, [rng.randint(0, 50) for _ in range(npts)]])
    cf = [["c", "Float64", 1, [dy(rng) for _ in range(ncells)]]] if rng.random() < 0.8 else []
    if rng.random() < 0.3:
        cf.append(["rank", "Int64", 1, [rng.randint(0, 3) for _ in range(ncells)]])
    return {"kind": "vtu", "pts": pts, "cells": cells, "pf": pf, "cf": cf}


def gen_scenario(rng, kind=None):
    kind = kind or rng.choice(["csv", "csv", "csv", "vtu"])
    truth = gen_truth_csv(rng) if kind == "csv" else gen_truth_vtu(rng)
    sc = {"kind": kind, "truth": truth, "edits": [], "res_state": "ok", "ref_state": "ok"}
    sides = {"res": json_copy(truth), "ref": json_copy(truth)}
    tol_hints = []   # (field base name, 'rel'|'abs', boundary value)
    n_edits = rng.choice([0, 1, 1, 2, 3])
    for _ in range(n_edits):
        side = rng.choice(["res", "ref"])
        D = sides[side]
        fields = D["cols"] if kind == "csv" else D["pf"] + D["cf"]
        e = rng.choice(["perturb", "perturb", "perturb", "perturb_int", "drop", "rename", "rowcount", "damage", "movepoint", "retype"])
        if e == "perturb":
            fl = [f for f in fields if (f[1] == "float" or f[1] == "Float64")]
            if not fl:
                continue
            f = rng.choice(fl)
            vals = f[2] if kind == "csv" else f[3]
            i = rng.randrange(len(vals))
            v = Fr(vals[i])
            if rng.random() < 0.5 and v != 0:
                j = rng.randint(2, 12)
                vals[i] = v * (1 - Fr(1, 2 ** j))          # relative step: |a-b| = 2^-j * max(|a|,|b|)
                tol_hints.append((f[0], "rel", Fr(1, 2 ** j), abs(v)))
            else:
                d = Fr(1, 2 ** rng.randint(0, 10))
                vals[i] = v + rng.choice([-1, 1]) * d
                tol_hints.append((f[0], "abs", d, max(abs(v), abs(vals[i]))))
            sc["edits"].append([e, side, f[0], i])
        elif e == "perturb_int":
            il = [f for f in fields if f[1] in ("int", "Int32", "Int64", "str")]
            if not il:
                continue
            f = rng.choice(il)
            vals = f[2] if kind == "csv" else f[3]
            i = rng.randrange(len(vals))
            vals[i] = (vals[i] + 1) if not isinstance(vals[i], str) else vals[i] + "x"
            sc["edits"].append([e, side, f[0], i])
        elif e == "retype" and kind == "csv":
            # a column that holds numbers on one side and text on the other: its comparison cannot be evaluated (status error)
            fl = [f for f in fields if f[1] in ("float", "int")]
            if not fl:
                continue
            f = rng.choice(fl)
            f[1] = "str"
            f[2] = [rng.choice(["a", "b", "ab", "zz", "q1"]) for _ in f[2]]
            sc["edits"].append([e, side, f[0]])
        elif e == "drop":
            lst = D["cols"] if kind == "csv" else rng.choice([D["pf"], D["cf"]])
            if len(lst) > (2 if kind == "csv" else 0):     # keep >= 2 CSV columns (single-column files cannot be sniffed/read)
                f = lst.pop(rng.randrange(len(lst)))
                sc["edits"].append([e, side, f[0]])
        elif e == "rename":
            lst = D["cols"] if kind == "csv" else rng.choice([D["pf"], D["cf"]])
            if lst:
                f = rng.choice(lst)
                old = f[0]
                f[0] = old + "2"
                sc["edits"].append([e, side, old])
        elif e == "rowcount" and kind == "csv" and D["nrows"] > 1:
            D["nrows"] -= 1
            for f in D["cols"]:
                f[2].pop()
            sc["edits"].append([e, side])
        elif e == "movepoint" and kind == "vtu":
            i = rng.randrange(len(D["pts"]))
            D["pts"][i][rng.randrange(2)] += 2.0 ** 20
            D["moved"] = True
            sc["edits"].append([e, side, i])
        elif e == "damage":
            sc[f"{side}_state"] = rng.choice(["missing", "empty", "garbage", "badext"])
            sc["edits"].append([e, side, sc[f"{side}_state"]])
    if kind == "vtu":
        for side in ("res", "ref"):
            sides[side]["permuted"] = rng.random() < 0.5
            sides[side]["pseed"] = rng.randrange(2 ** 30)
        if rng.random() < 0.2:
            sides[rng.choice(["res", "ref"])]["as2d"] = True      # one side stored with two coordinates per point (.xdmf)
    sc["res"], sc["ref"] = sides["res"], sides["ref"]
    # ---- options
    o = {"rtol": [], "atol": [], "include": None, "exclude": None, "ign_src": rng.random() < 0.3, "ign_ref": rng.random() < 0.3,
         "no_reorder": kind == "vtu" and rng.random() < 0.15}
    bases = sorted({f[0] for s in ("res", "ref") for f in (sides[s]["cols"] if kind == "csv" else sides[s]["pf"] + sides[s]["cf"])})
    small = kind == "vtu"      # keep domain tolerances far below the lattice spacing
    for (fname, which, val, mag) in tol_hints:
        if rng.random() < 0.15 and mag > 0:
            # both tolerances non-zero and each 3/4 of the deviation: the deviation exceeds their maximum (fails) although it is
            # below their sum
            dev = val * mag if which == "rel" else val
            o["rtol"].append([fname, repr(float(Fr(3, 4) * dev / mag)), False])      # (nearest float; far from any boundary)
            o["atol"].append([fname, repr(float(Fr(3, 4) * dev)), False])
            continue
        val = val * rng.choice([1, 1, Fr(1, 2), 2])
        target = rng.choice(["field", "field", "global", "other", "max"])
        if small and target == "global" and val > Fr(1, 1024):
            target = "field"
        if target == "field":
            o["rtol" if which == "rel" else "atol"].append([fname, str_of(val), False])
        elif target == "global":
            o["rtol" if which == "rel" else "atol"].append([None, str_of(val), False])
        elif target == "other":
            others = [b for b in bases if b != fname] + ["nosuchfield"]
            o["rtol" if which == "rel" else "atol"].append([rng.choice(others), str_of(val * 4), False])
        elif which == "abs":
            base = val / Fr(2) ** rng.randint(0, 6)
            o["atol"].append([fname, str_of(base), True])
    # a per-field tolerance of exactly zero must override a non-zero global one
    if tol_hints and rng.random() < 0.3:
        fname, which, val, _mag = rng.choice(tol_hints)
        key = "rtol" if which == "rel" else "atol"
        if not (small and val * 4 > Fr(1, 1024)):
            o[key].append([None, str_of(val * 4), False])
            o[key].append([fname, rng.choice(["0", "0.0"]), False])
    if rng.random() < 0.15:
        o["rtol"].append([None, str_of(Fr(1, 2 ** rng.randint(10, 30))), False])
    if rng.random() < 0.1 and not small:
        o["atol"].append([None, str_of(Fr(2) ** 20), False])           # huge global tolerance: ints/strings must stay exact
    if rng.random() < 0.7:
        rng.shuffle(o["rtol"])
        rng.shuffle(o["atol"])
    if rng.random() < 0.3:
        o["include"] = [b for b in bases if rng.random() < 0.7] or [bases[0]] if bases else None
    if rng.random() < 0.25:
        o["exclude"] = [b for b in bases if rng.random() < 0.3] or None
    sc["opts"] = o
    return sc


def json_copy(x):
    return json.loads(json.dumps(x, default=frac_default), object_hook=None, parse_float=None) if False else _deep(x)


def _deep(x):
    if isinstance(x, list):
        return [_deep(v) for v in x]
    if isinstance(x, dict):
        return {k: _deep(v) for k, v in x.items()}
    return x


def frac_default(o):
    return str(o)


def str_of(q: Fr) -> str:
    f = float(q)
    assert Fr(f) == q
    return repr(f)


# ------------------------------------------------------------------------------------------------
def write_side(path_base, kind, D, state, rng_seed):
    """write one file; returns its path"""
    import random
    ext = ".csv" if kind == "csv" else ".vtu"
    path = path_base + ext
    if state == "missing":
        return path
    if state == "badext":
        path = path_base + ".xyz"
        open(path, "w").write("1,2\n")
        return path
    if state == "empty":
        open(path, "w").close()
        return path
    if state == "garbage":
        open(path, "wb").write(b"\x00\xff<<<not a data file>>>\n\x01\x02,,,;;\n")
        return path
    if kind == "csv":
        write_csv(path, [c[0] for c in D["cols"]], [c[2] for c in D["cols"]])
        return path
    pts, cells, pf, cf = written_mesh(D, rng_seed)
    pf = [(n, t, c, [float(v) if t.startswith("Float") else v for v in vals]) for n, t, c, vals in pf]
    cf = [(n, t, c, [float(v) if t.startswith("Float") else v for v in vals]) for n, t, c, vals in cf]
    if D.get("as2d") and all(p[2] == 0 for p in pts):
        # the same data set stored with two coordinates per point in a format read through meshio (.xdmf): against a .vtu
        # (three coordinates) the space dimensions have to be matched, on top of any reordering
        import meshio
        import numpy as np
        tname = {5: "triangle", 9: "quad"}
        npdt = {"Float64": np.float64, "Int32": np.int32, "Int64": np.int64}
        order = []
        for t, _ in cells:
            if t not in order:
                order.append(t)
        idx = {t: [i for i, (tt, _) in enumerate(cells) if tt == t] for t in order}
        mesh = meshio.Mesh(
            points=np.array([[float(p[0]), float(p[1])] for p in pts]),
            cells=[(tname[t], np.array([cells[i][1] for i in idx[t]], dtype=np.int64)) for t in order],
            point_data={n: np.array(vals, dtype=npdt[t]).reshape((len(pts),) if c == 1 else (len(pts), c)) for n, t, c, vals in pf},
            cell_data={n: [np.array([vals[i] for i in idx[tt]], dtype=npdt[t]) for tt in order] for n, t, c, vals in cf})
        path = path_base + ".xdmf"
        meshio.write(path, mesh, data_format="XML")
        return path
    cfg = V.Cfg(random.Random(rng_seed).choice(["ascii", "binary", "appended-base64"]))
    V.write_vtu(path, pts, cells, pf, cf, cfg)
    return path


def written_name(path_base, sc, side):
    """the file name write_side gives the (readable) side of a scenario"""
    D = sc[side]
    if sc["kind"] == "csv":
        return path_base + ".csv"
    as2d = D.get("as2d") and all(p[2] == 0 for p in D["pts"])
    return path_base + (".xdmf" if as2d else ".vtu")


def written_mesh(D, fallback_seed=0):
    """points, cells and fields in the order in which they are written to the file"""
    import random
    pts, cells, pf, cf = D["pts"], D["cells"], [tuple(f) for f in D["pf"]], [tuple(f) for f in D["cf"]]
    if D.get("permuted"):
        pts, cells, pf, cf = permute_mesh(random.Random(D.get("pseed", fallback_seed)), pts, cells, pf, cf)
    return pts, [(t, list(c)) for t, c in cells], pf, cf


def argv_for(sc, res, ref, junit=None):
    o = sc["opts"]
    a = ["file", res, ref, "--verbosity", "0"]
    if sc["kind"] == "csv":
        a += ["--read-as", DSV_OPT]
    for name, val, mx in o["rtol"]:
        a += ["-rtol", (f"{name}:" if name else "") + val]
    for name, val, mx in o["atol"]:
        a += ["-atol", (f"{name}:" if name else "") + val + ("*max" if mx else "")]
    for p in o["include"] or []:
        a += ["--include-fields", p]
    for p in o["exclude"] or []:
        a += ["--exclude-fields", p]
    if o["ign_src"]:
        a.append("--ignore-missing-source-fields")
    if o["ign_ref"]:
        a.append("--ignore-missing-reference-fields")
    if o.get("no_reorder"):
        a.append("--disable-mesh-reordering")
    if junit:
        a += ["--junit-xml", junit]
    return a


def read_class(path, kind):
    """which exception class (if any) reading the file raises — the reading stack is an oracle for the model"""
    from fieldcompare.io import read, read_as
    import warnings
    try:
        with warnings.catch_warnings():
            warnings.simplefilter("ignore")
            if kind == "csv" and path.endswith(".csv"):
                read_as("dsv", path, delimiter=",", use_names=True)
            else:
                read(path)
        return "ok"
    except IOError:
        return "ioerr"
    except Exception:  # noqa: BLE001
        return "other"


def run_impl(sc, workdir, idx, want_junit=True):
    import warnings
    d = os.path.join(workdir, f"s{idx}")
    os.makedirs(d, exist_ok=True)
    res = write_side(os.path.join(d, "res"), sc["kind"], sc["res"], sc["res_state"], idx * 2 + 1)
    ref = write_side(os.path.join(d, "ref"), sc["kind"], sc["ref"], sc["ref_state"], idx * 2 + 2)
    jpath = os.path.join(d, "report.xml") if want_junit else None
    with warnings.catch_warnings():
        warnings.simplefilter("ignore")
        rc, log, exc = run_cli(argv_for(sc, res, ref, jpath))
        out = {"exit": rc, "escaped": exc, "res_class": read_class(res, sc["kind"]), "ref_class": read_class(ref, sc["kind"])}
    if want_junit:
        if os.path.exists(jpath):
            try:
                out["junit"] = parse_junit(jpath)
            except Exception as e:  # noqa: BLE001
                out["junit_error"] = f"{type(e).__name__}: {e}"
        else:
            out["junit"] = None
    for f in os.listdir(d):
        os.unlink(os.path.join(d, f))
    os.rmdir(d)
    return out


# ------------------------------------------------------------------------------------------------
def side_fields(sc, side):
    """list of (full name, base name, dtype, shape, values in ground-truth order)"""
    D = sc[side]
    if sc["kind"] == "csv":
        dt = {"float": "float64", "int": "int64", "str": "str"}
        return [(c[0], c[0], dt[c[1]], [D["nrows"]], list(c[2])) for c in D["cols"]]
    out = []
    vdt = {"Float64": "float64", "Int32": "int32", "Int64": "int64"}
    npts = len(D["pts"])
    for n, t, c, vals in D["pf"]:
        out.append((n, n, vdt[t], [npts] if c == 1 else [npts, c], list(vals)))
    tname = {5: "TRIANGLE", 9: "QUAD"}
    for tid in sorted({t for t, _ in D["cells"]}):
        idxs = [i for i, (t, _) in enumerate(D["cells"]) if t == tid]
        for n, t, c, vals in D["cf"]:
            out.append((f"{n} @ {tname[tid]}", n, vdt[t], [len(idxs)], [vals[i] for i in idxs]))
    return out


def tol_for(o, which, base):
    """applicable tolerance per the statement: per-field value if given (last wins), else the last global one, else default"""
    per = [(v, mx) for n, v, mx in o[which] if n == base]
    if per:
        v, mx = per[-1]
    else:
        glob = [(v, mx) for n, v, mx in o[which] if n is None]
        if not glob:
            return ["default"]
        v, mx = glob[-1]
    return ["scaled", Fr(float(v))] if mx else ["num", Fr(float(v))]


def dom_equal(sc):
    r, s = sc["res"], sc["ref"]
    if sc["kind"] == "csv":
        return r["nrows"] == s["nrows"]
    if r["pts"] != s["pts"] or r["cells"] != s["cells"]:     # (both sides start from one truth mesh; only points are moved)
        return False
    if sc["opts"].get("no_reorder"):
        if (r.get("permuted") and "pseed" not in r) or (s.get("permuted") and "pseed" not in s):
            return False                                    # replay of an old scenario: permutation seed unknown
        # without reordering the stored order itself has to agree (points one by one, cells one by one; a cell is its set of
        # corners, whichever corner it is listed from)
        (pr_, cr_), (ps_, cs_) = written_mesh(r)[:2], written_mesh(s)[:2]
        return pr_ == ps_ and [(t, sorted(c)) for t, c in cr_] == [(t, sorted(c)) for t, c in cs_]
    return True


def field_cases(sc):
    """predfam-style cases of the common fields"""
    rf = {f[0]: f for f in side_fields(sc, "res")}
    sf = {f[0]: f for f in side_fields(sc, "ref")}
    out = {}
    for n in rf:
        if n in sf:
            a, b = rf[n], sf[n]
            out[n] = {"pred": "default", "a": {"dtype": a[2], "shape": a[3], "vals": a[4]},
                      "b": {"dtype": b[2], "shape": b[3], "vals": b[4]},
                      "rel": tol_for(sc["opts"], "rtol", a[1]), "abs": tol_for(sc["opts"], "atol", a[1])}
    return out


def selected(o, base):
    import fnmatch
    inc = True if o["include"] is None else any(fnmatch.fnmatch(base, p) for p in o["include"])
    exc = False if o["exclude"] is None else any(fnmatch.fnmatch(base, p) for p in o["exclude"])
    return inc and not exc


def oracle(sc):
    """expected exit code from the statement; None if a selected field's verdict is undefined by the statement"""
    if sc["res_state"] != "ok" or sc["ref_state"] != "ok":
        return 1
    if not dom_equal(sc):
        return 1
    rf = {f[0]: f for f in side_fields(sc, "res")}
    sf = {f[0]: f for f in side_fields(sc, "ref")}
    o = sc["opts"]
    for n in rf:
        if n not in sf and not o["ign_ref"]:
            return 1
    for n in sf:
        if n not in rf and not o["ign_src"]:
            return 1
    for n, c in field_cases(sc).items():
        if not selected(o, rf[n][1]):
            continue
        v = predfam.oracle(c)
        if v is None:
            return None
        if v != 1:
            return 1
    return 0


def exact(sc):
    return all(predfam.exact_ok(c) for c in field_cases(sc).values())


def model_expr(sc, impl):
    """(Gallina expression, decoder info)"""
    o = sc["opts"]
    rfl, sfl = side_fields(sc, "res"), side_fields(sc, "ref")
    names = sorted({f[0] for f in rfl} | {f[0] for f in sfl})
    bases = sorted({f[1] for f in rfl} | {f[1] for f in sfl} | {n for w in ("rtol", "atol") for n, _, _ in o[w] if n})
    nid = {n: i for i, n in enumerate(names)}
    bid = {b: i for i, b in enumerate(bases)}

    def ds(sc_side, fl, dom):
        cols = clist([f"({cnat(nid[f[0]])}, {cnat(bid[f[1]])}, {predfam.coq_arr({'dtype': f[2], 'shape': f[3], 'vals': f[4]})})" for f in fl],
                     "(nat * nat * arr)")
        return f"(DS {cnat(dom)} {cols})"

    def rr(side, fl, cls):
        if cls == "ioerr":
            return "RIOErr"
        if cls == "other":
            return "ROther"
        D = sc[side]
        if sc["kind"] == "csv":
            dom = D["nrows"]
        else:
            dom = 0 if (side == "res" or dom_equal(sc)) else 7
        return f"(RData {ds(side, fl, dom)})"

    def targs(which):
        out = []
        for n, v, mx in o[which]:
            t = f"(TScaled {lib.cq(Fr(float(v)))})" if mx else f"(TNum {lib.cq(Fr(float(v)))})"
            out.append(f"({'Some ' + cnat(bid[n]) if n else 'None'}, {t})")
        return clist(out, "(option nat * tolspec)")

    incl = [bid[b] for b in bases if selected({"include": o["include"], "exclude": None}, b)]
    excl = [bid[b] for b in bases if not selected({"include": None, "exclude": o["exclude"]}, b)]
    expr = (f"runfile {targs('rtol')} {targs('atol')} {clist(map(cnat, incl), 'nat')} {clist(map(cnat, excl), 'nat')} "
            f"{lib.cbool(o['ign_src'])} {lib.cbool(o['ign_ref'])} {rr('res', rfl, impl['res_class'])} {rr('ref', sfl, impl['ref_class'])}")
    return expr, names


def decode_model(val, names):
    code, j = val
    if j == "None":
        return {"exit": code, "junit": None}
    _, (tests, fails, errs, skipped, cases) = j
    tagn = {0: "failure", 1: "error", 2: "skipped"}
    return {"exit": code, "junit": {"tests": tests, "failures": fails, "errors": errs, "skipped": skipped,
                                    "cases": sorted(((names[n] if n != 9999 else "file comparison"), sorted(tagn[t] for t in tags))
                                                    for n, tags in cases)}}


def gen_scenarios(rng, n):
    out = []
    tries = 0
    while len(out) < n and tries < 10 * n:
        tries += 1
        sc = gen_scenario(rng)
        if exact(sc):
            out.append(sc)
    return out


def canon(sc):
    return json.loads(json.dumps({k: sc[k] for k in ("kind", "res", "ref", "res_state", "ref_state", "opts", "edits")}, default=str))


def domain_tolerance_stream(ctx, n):
    """the tolerances given for `domain` (or globally) apply to the point coordinates of BOTH meshes: a .vtu pair whose
    coordinates differ by d at one point passes iff d is within the tolerance in play, whichever file carries the deviation,
    with and without mesh reordering"""
    import random as _random
    rng = ctx.rng
    for it in range(n):
        nx, ny = rng.randint(1, 3), rng.randint(1, 2)
        pts, cells = lattice_mesh(rng, nx, ny)
        u = [rng.randint(-8, 8) / 4.0 for _ in pts]
        d = 2.0 ** rng.randint(-20, -8)                       # deviation of one coordinate (far above the default 1e-8 * max|x|)
        within = rng.random() < 0.5
        tol = d * 8 if within else d / 8
        how = rng.choice(["-atol domain", "-rtol domain", "-atol global"])
        i = rng.randrange(len(pts))
        noisy = [list(p) for p in pts]
        axis = rng.randrange(2)
        noisy[i][axis] += d
        noisy_is_ref = rng.random() < 0.5
        no_reorder = rng.random() < 0.5
        root = os.path.join(str(ctx.workdir), f"dt{it}")
        os.makedirs(root)
        res, ref = os.path.join(root, "res.vtu"), os.path.join(root, "ref.vtu")
        a_pts, b_pts = (pts, noisy) if noisy_is_ref else (noisy, pts)
        V.write_vtu(res, a_pts, cells, [("u", "Float64", 1, u)], [], V.Cfg("ascii"))
        if no_reorder:
            V.write_vtu(ref, b_pts, cells, [("u", "Float64", 1, u)], [], V.Cfg("ascii"))
        else:
            p2, c2, pf2, _ = permute_mesh(_random.Random(it), b_pts, cells, [("u", "Float64", 1, u)], [])
            V.write_vtu(ref, p2, c2, pf2, [], V.Cfg("ascii"))
        scale = max(abs(x) for p in pts + noisy for x in p) or 1.0
        if how == "-rtol domain":
            argv_t = ["-rtol", f"domain:{tol / scale * (4 if within else 0.25)!r}"]   # relative to the coordinate magnitude in play
            # the relative tolerance scales with max(|a|,|b|) of the entry itself, which is <= scale: only the clear cases are kept
            entry = abs(noisy[i][axis])          # the relative tolerance is scaled by the magnitude of the deviating entry itself
            eff = (tol / scale * (4 if within else 0.25)) * entry
            if (within and eff < 2 * d) or (not within and eff > d / 2):
                shutil.rmtree(root, ignore_errors=True)
                continue
        elif how == "-atol domain":
            argv_t = ["-atol", f"domain:{tol!r}"]
        else:
            argv_t = ["-atol", repr(tol)]
        argv = ["file", res, ref, "--verbosity", "0"] + argv_t + (["--disable-mesh-reordering"] if no_reorder else [])
        import warnings
        with warnings.catch_warnings():
            warnings.simplefilter("ignore")
            rc, log, exc = run_cli(argv)
        shutil.rmtree(root, ignore_errors=True)
        sc = {"domain_tolerance": {"option": argv_t, "deviation": d, "within": within, "noisy_file": "reference" if noisy_is_ref else "result",
                                   "disable_mesh_reordering": no_reorder, "nx": nx, "ny": ny, "point": i}}
        ctx.case(sc, True, sample={"scenario": sc, "exit": rc})
        ctx.count(f"domain tolerance:{how}:{'within' if within else 'beyond'}:{'no reordering' if no_reorder else 'reordered'}")
        ctx.tie("T2 domain tolerance applies to both meshes")
        if exc:
            ctx.violation("E4", f"exception escaped the CLI: {exc}", sc)
        elif (rc == 0) != within:
            ctx.violation("E4", f"exit status {rc} although the coordinate deviation {d:g} is {'within' if within else 'beyond'} the "
                                f"tolerance given for the domain ({' '.join(argv_t)}; deviation in the {sc['domain_tolerance']['noisy_file']} file)", sc)
        ctx.traces_validated += 1


def int_vs_float_stream(ctx, n):
    """a column (csv) / point field (.vtu) that one producer wrote as whole numbers (integer type) and the other as floating-point
    numbers: it is compared with the tolerance formula (one side holds floats), so a deviation within the global or per-field
    tolerance passes and one beyond it fails — in both roles"""
    rng = ctx.rng
    for it in range(n):
        d = os.path.join(str(ctx.workdir), f"ivf{it}")
        os.makedirs(d)
        k = rng.randint(2, 5)
        ints = [rng.randint(1, 40) * 10 for _ in range(k)]
        j = rng.randrange(k)
        dev = rng.choice([Fr(3, 10 ** 6), Fr(1, 10 ** 4)])            # relative deviation of entry j
        tol = rng.choice([Fr(1, 10 ** 3), Fr(1, 10 ** 5), Fr(1, 10 ** 7)])
        floats = [float(v) for v in ints]
        floats[j] = float(Fr(ints[j]) * (1 + dev))
        form = rng.choice(["csv", "vtu"])
        how = rng.choice(["-rtol global", "-rtol field", "-atol field"])
        if form == "csv":
            fi, ff = os.path.join(d, "i.csv"), os.path.join(d, "f.csv")
            write_csv(fi, ["t", "load"], [[0.5 * i for i in range(k)], ints])
            write_csv(ff, ["t", "load"], [[0.5 * i for i in range(k)], floats])
            extra = ["--read-as", DSV_OPT]
        else:
            pts = [[float(i), 0.0, 0.0] for i in range(k)]
            cells = [(3, [i, i + 1]) for i in range(k - 1)]
            fi, ff = os.path.join(d, "i.vtu"), os.path.join(d, "f.vtu")
            V.write_vtu(fi, pts, cells, [("load", "Int32", 1, ints)], [], V.Cfg("ascii"))
            V.write_vtu(ff, pts, cells, [("load", "Float64", 1, floats)], [], V.Cfg("ascii"))
            extra = []
        if how == "-rtol global":
            targs = ["-rtol", repr(float(tol))]
        elif how == "-rtol field":
            targs = ["-rtol", f"load:{float(tol)!r}"]
        else:
            targs = ["-atol", f"load:{float(tol * 400)!r}"]          # (absolute: scaled to the largest entry)
        allowed = tol * 400 if how == "-atol field" else tol * max(Fr(ints[j]), Fr(floats[j]))
        deviation = abs(Fr(floats[j]) - ints[j])
        if allowed / 2 < deviation < allowed * 2:
            shutil.rmtree(d, ignore_errors=True)
            continue
        want_zero = deviation <= allowed
        for role in ("ints_are_result", "ints_are_reference"):
            a, b = (fi, ff) if role == "ints_are_result" else (ff, fi)
            with warnings.catch_warnings():
                warnings.simplefilter("ignore")
                rc, log, exc = run_cli(["file", a, b, "--verbosity", "0"] + extra + targs)
            canon_ = {"int_vs_float": {"format": form, "ints": ints, "entry": j, "relative_deviation": str(dev), "tolerance": how,
                                       "value": str(tol), "role": role}}
            ctx.case(canon_, True, sample={"case": canon_, "exit": rc})
            ctx.count(f"int vs float field:{form}:{how}:{'within' if want_zero else 'beyond'}")
            ctx.tie("T2 integer-typed vs floating-point field through the command line: exit status = statement")
            if exc:
                ctx.violation("E4", f"exception escaped the CLI entry point: {exc}", canon_)
            elif (rc == 0) != want_zero:
                ctx.violation("E4", f"exit code {rc} for a field stored as integers on one side and as floats on the other, deviation "
                                    f"{float(deviation):.3g} {'within' if want_zero else 'beyond'} the tolerance ({how} {float(tol):.3g}): the "
                                    f"statement requires {'0' if want_zero else 'non-zero'}", canon_)
            ctx.traces_validated += 1
        shutil.rmtree(d, ignore_errors=True)


def default_tolerance_stream(ctx, n):
    """no tolerance option at all: the default is relative = machine epsilon of the data type, absolute = 0.  A float64 entry
    that is off by ONE unit in the last place passes (|a-b| <= eps*max(|a|,|b|)), one that is off by THREE does not — csv tables
    (repr round trip) and binary .vtu files, both roles"""
    import numpy as np
    rng = ctx.rng
    for it in range(n):
        d = os.path.join(str(ctx.workdir), f"dt{it}")
        os.makedirs(d)
        k = rng.randint(2, 5)
        vals = [float(rng.randint(8, 15)) / 8.0 * 2.0 ** rng.randint(-3, 8) * rng.choice([1, -1]) for _ in range(k)]
        j = rng.randrange(k)
        ulps = rng.choice([0, 1, 3, 4])
        other = list(vals)
        other[j] = float(vals[j] + ulps * np.spacing(abs(vals[j])) * (1 if vals[j] > 0 else -1))
        form = rng.choice(["csv", "vtu"])
        if form == "csv":
            fa, fb = os.path.join(d, "a.csv"), os.path.join(d, "b.csv")
            write_csv(fa, ["t", "u"], [[0.5 * i for i in range(k)], vals])
            write_csv(fb, ["t", "u"], [[0.5 * i for i in range(k)], other])
            extra = ["--read-as", DSV_OPT]
        else:
            pts = [[float(i), 0.0, 0.0] for i in range(k)]
            cells = [(3, [i, i + 1]) for i in range(k - 1)]
            fa, fb = os.path.join(d, "a.vtu"), os.path.join(d, "b.vtu")
            V.write_vtu(fa, pts, cells, [("u", "Float64", 1, vals)], [], V.Cfg("binary"))
            V.write_vtu(fb, pts, cells, [("u", "Float64", 1, other)], [], V.Cfg("binary"))
            extra = []
        dev = abs(Fr(other[j]) - Fr(vals[j]))
        want_zero = dev <= Fr(2) ** -52 * max(abs(Fr(other[j])), abs(Fr(vals[j])))
        for role in ("ab", "ba"):
            a, b = (fa, fb) if role == "ab" else (fb, fa)
            with warnings.catch_warnings():
                warnings.simplefilter("ignore")
                rc, log, exc = run_cli(["file", a, b, "--verbosity", "0"] + extra)
            canon_ = {"default_tolerance": {"format": form, "values": vals, "entry": j, "units_in_the_last_place": ulps, "role": role}}
            ctx.case(canon_, True, sample={"case": canon_, "exit": rc})
            ctx.count(f"default tolerances:{form}:{ulps} ulp")
            ctx.tie("T2 default tolerances through the command line: exit status = statement")
            if exc:
                ctx.violation("E4", f"exception escaped the CLI entry point: {exc}", canon_)
            elif (rc == 0) != want_zero:
                ctx.violation("E4", f"exit code {rc} with the default tolerances for a float64 entry off by {ulps} units in the last place: the "
                                    f"statement (relative = machine epsilon, absolute = 0) requires {'0' if want_zero else 'non-zero'}", canon_)
            ctx.traces_validated += 1
        shutil.rmtree(d, ignore_errors=True)


def mesh_option_matrix(ctx, n_meshes):
    """EVERY combination of the three mesh options (--disable-mesh-reordering, --disable-mesh-orphan-point-removal,
    --disable-mesh-space-dimension-matching) x {same / other space dimension} x {same / other storage order} x {no / one
    unconnected point on one side} x both roles, for a pair of files holding the same mesh and fields (exhaustive per mesh):
    exit 0 unless an option switches off the very mechanism the pair needs"""
    import itertools
    import random as _random
    import meshio
    import numpy as np
    rng = ctx.rng
    FLAGS = ["--disable-mesh-reordering", "--disable-mesh-orphan-point-removal", "--disable-mesh-space-dimension-matching"]
    for it in range(n_meshes):
        nx = rng.randint(2, 3)
        pts2 = np.array([[float(i), float(j)] for j in range(2) for i in range(nx + 1)])
        quads = np.array([[i, i + 1, nx + 1 + i + 1, nx + 1 + i] for i in range(nx)])
        u = np.array([rng.randint(-8, 8) / 4.0 for _ in pts2])
        c = np.array([rng.randint(-8, 8) / 4.0 for _ in quads])
        root = os.path.join(str(ctx.workdir), f"mm{it}")
        os.makedirs(root)

        def write(name, dim3, permuted, ghost):
            P, Q, U, C = pts2, quads, u, c
            if permuted:
                r = _random.Random(it)
                perm = list(range(len(P)))
                while perm == sorted(perm):
                    r.shuffle(perm)
                inv = np.empty(len(perm), dtype=int)
                inv[perm] = np.arange(len(perm))
                cperm = list(range(len(Q)))[::-1]
                P, U, Q, C = P[perm], U[perm], inv[Q][cperm], C[cperm]
            if ghost:
                P, U = np.vstack([P, [[50.0, 50.0]]]), np.append(U, 0.0)
            if dim3:
                P = np.hstack([P, np.zeros((len(P), 1))])
            cwd = os.getcwd()
            os.chdir(root)
            try:
                meshio.xdmf.write(name, meshio.Mesh(P, [("quad", Q)], point_data={"u": U}, cell_data={"c": [C]}), data_format="XML")
            finally:
                os.chdir(cwd)
            return os.path.join(root, name)
        base = write("base.xdmf", False, False, False)
        for dim3, permuted, ghost in itertools.product((False, True), repeat=3):
            other = write(f"o{int(dim3)}{int(permuted)}{int(ghost)}.xdmf", dim3, permuted, ghost)
            for k in range(8):
                flags = [f for j, f in enumerate(FLAGS) if k >> j & 1]
                for role in ("other_is_result", "other_is_reference"):
                    a, b = (other, base) if role == "other_is_result" else (base, other)
                    with warnings.catch_warnings():
                        warnings.simplefilter("ignore")
                        rc, log, exc = run_cli(["file", a, b, "--verbosity", "0"] + flags)
                    canon_ = {"mesh_option_matrix": {"other_dimension": dim3, "other_order": permuted, "unconnected_point": ghost,
                                                     "flags": flags, "role": role, "nx": nx}}
                    ctx.case(canon_, True, sample={"case": canon_, "exit": rc} if k == 0 else None)
                    ctx.count("mesh option matrix")
                    ctx.tie("T2 mesh option matrix (exhaustive per mesh): exit status = statement")
                    need_fail = ((dim3 and FLAGS[2] in flags) or (permuted and FLAGS[0] in flags)
                                 or (ghost and (FLAGS[0] in flags or FLAGS[1] in flags)))
                    if exc:
                        ctx.violation("E4", f"exception escaped the CLI entry point: {exc}", canon_)
                    elif (rc == 0) == need_fail:
                        ctx.violation("E4", f"exit code {rc} for the same mesh stored with {'another' if dim3 else 'the same'} space dimension, "
                                            f"{'another' if permuted else 'the same'} order, {'an' if ghost else 'no'} unconnected point under "
                                            f"{flags or 'no mesh option'}: the statement requires {'non-zero' if need_fail else '0'}", canon_)
                    ctx.traces_validated += 1
        shutil.rmtree(root, ignore_errors=True)


def run(ctx):
    ctx.prove()
    t1(ctx)
    t1_read_as(ctx)
    domain_tolerance_stream(ctx, 60 if ctx.tier == "quick" else 1500)
    from . import globtie
    globtie.tie(ctx, 600 if ctx.tier == "quick" else 15000, "--include-fields / --exclude-fields")
    mesh_option_matrix(ctx, 2 if ctx.tier == "quick" else 30)
    int_vs_float_stream(ctx, 40 if ctx.tier == "quick" else 1000)
    default_tolerance_stream(ctx, 40 if ctx.tier == "quick" else 1000)
    n = 1500 if ctx.tier == "quick" else 40000
    scs = gen_scenarios(ctx.rng, n)
    impls = [run_impl(sc, str(ctx.workdir), i, want_junit=False) for i, sc in enumerate(scs)]
    pairs = [model_expr(sc, im) for sc, im in zip(scs, impls)]
    vals = ctx.coq_eval(HEADER, [p[0] for p in pairs], name="c04", shard=250)
    for sc, im, val, (_, names) in zip(scs, impls, vals, pairs):
        mo = decode_model(val, names)
        orc = oracle(sc)
        c = canon(sc)
        nontrivial = bool(sc["edits"]) and (bool(sc["opts"]["rtol"]) or bool(sc["opts"]["atol"]) or sc["opts"]["include"] is not None
                                            or sc["opts"]["exclude"] is not None or sc["opts"]["ign_src"] or sc["opts"]["ign_ref"])
        ctx.case(c, nontrivial, sample={"scenario": c, "impl_exit": im["exit"], "model_exit": mo["exit"], "statement": orc})
        ctx.count(f"kind:{sc['kind']}")
        ctx.count(f"exit:{im['exit']}")
        if sc["kind"] == "vtu" and (sc["res"].get("as2d") or sc["ref"].get("as2d")):
            perm = bool(sc["res"].get("permuted")) != bool(sc["ref"].get("permuted")) or bool(sc["res"].get("permuted"))
            ctx.count(f"mesh: one side stored 2-d (.xdmf){' and reordered' if perm else ''}: exit {im['exit']}")
        for e in sc["edits"]:
            ctx.count(f"edit:{e[0]}")
        ctx.count(f"edits:{len(sc['edits'])}")
        for w in ("rtol", "atol"):
            for nme, v, mx in sc["opts"][w]:
                ctx.count(f"opt:{w}:{'field' if nme else 'global'}{':max' if mx else ''}")
        if im["escaped"]:
            ctx.violation("E4", f"exception escaped the CLI entry point: {im['escaped']}", c, impl=im)
            continue
        if orc is not None and (im["exit"] == 0) != (orc == 0):
            ctx.violation("E4", f"exit code {im['exit']} but the statement requires {'0' if orc == 0 else 'non-zero'}", c, impl=im, model=mo)
        elif (im["exit"] == 0) != (mo["exit"] == 0):
            ctx.violation("E2", f"model exit {mo['exit']} != implementation exit {im['exit']}", c, found_input=False, impl=im, model=mo)
        ctx.traces_validated += 1
    ctx.rule = ("ground-truth CSV tables (float/int/str columns) and .vtu meshes edited independently per side (perturbation placed "
                "relative to the tolerance in play, int/str change, drop/rename field, row count, moved point, permuted mesh, damaged "
                "file, one side stored with 2-d coordinates in an .xdmf file) x option combinations (global / per-field / other-field / *max tolerances, include/exclude, ignore flags, "
                "--disable-mesh-reordering); non-trivial = at least one edit and one non-default option")
    return ctx.finish(
        assumptions=["file reading is an oracle: the exception class raised by fieldcompare.io.read on each side is observed and given to the model",
                     "float(str) of the tolerance strings is an oracle; mesh domain equality of the generated pairs is known by construction"],
        trusted=["harness/c04.py, harness/clicommon.py, harness/vtkenc.py"])


def t1(ctx):
    """status tables of the CLI, evaluated on the implementation's enums (refinement ties by name)"""
    try:
        from fieldcompare._cli._test_suite import TestStatus, TestSuite, TestResult
        from fieldcompare._cli._common import _bool_to_exit_code
        from fieldcompare._cli._file_comparison import FileComparison, FileComparisonOptions
        from fieldcompare._cli._logger import CLILogger
        from fieldcompare import FieldComparisonStatus
    except Exception as e:  # noqa: BLE001
        ctx.notes.append(f"T1 CLI status tables skipped (names not found: {e})")
        return
    import itertools
    st = ["passed", "failed", "error", "skipped"]
    ct = ["TPassed", "TFailed", "TError", "TSkipped"]
    rows = []
    for explicit in [None] + list(range(4)):
        for k in range(0, 4):
            for combo in itertools.product(range(4), repeat=k):
                s = TestSuite([TestResult(f"t{i}", TestStatus[st[x]], "", "", None) for i, x in enumerate(combo)],
                              status=None if explicit is None else TestStatus[st[explicit]])
                rows.append((explicit, combo, bool(s), st.index(s.status.name)))
    tbl = clist([f"({'None' if e is None else 'Some ' + ct[e]}, {clist([ct[x] for x in combo], 'tstatus')}, {lib.cbool(b)}, {ct[sx]})"
                 for e, combo, b, sx in rows])
    fs = ["passed", "failed", "error", "missing_source", "missing_reference", "filtered"]
    fct = ["Passed", "Failed", "Error", "MissingSource", "MissingReference", "Filtered"]
    prow = []
    for i_s in (False, True):
        for i_r in (False, True):
            fc = FileComparison(FileComparisonOptions(ignore_missing_source_fields=i_s, ignore_missing_reference_fields=i_r), CLILogger())
            for k, f in enumerate(fs):
                prow.append((i_s, i_r, k, st.index(fc._parse_status(FieldComparisonStatus[f]).name)))
    ptbl = clist([f"({lib.cbool(a)}, {lib.cbool(b)}, {fct[k]}, {ct[r]})" for a, b, k, r in prow])
    src = HEADER + f"""
Definition teq (a b : tstatus) : bool := match a, b with TPassed, TPassed | TFailed, TFailed | TError, TError | TSkipped, TSkipped => true | _, _ => false end.
Definition table : list (option tstatus * list tstatus * bool * tstatus) := {tbl}.
Lemma testsuite_matches_impl :
  forallb (fun r => let '(e, l, b, s) := r in
     let t := {{| ts_status := e; ts_tests := map (fun x => (0%nat, x)) l |}} in
     Bool.eqb (tsuite_bool t) b && teq (tsuite_status t) s) table = true.
Proof. vm_compute. reflexivity. Qed.
Definition ptable : list (bool * bool * fstatus * tstatus) := {ptbl}.
Lemma parse_status_matches_impl :
  forallb (fun r => let '(a, b, f, t) := r in teq (parse_status a b f) t) ptable = true.
Proof. vm_compute. reflexivity. Qed.
Lemma exit_code_matches_impl : exit_code true = {_bool_to_exit_code(True)}%nat /\\ exit_code false = {_bool_to_exit_code(False)}%nat.
Proof. split; reflexivity. Qed.
"""
    ok = ctx.table_lemma("T1_cli_status_tables", src)
    ctx.tie("T1 TestSuite rows", len(rows))
    ctx.tie("T1 _parse_status rows", len(prow))
    if not ok:
        for e, combo, b, sx in rows:
            want = (st[e] not in ("failed", "error")) if e is not None else all(st[x] not in ("failed", "error") for x in combo)
            if b != want:
                ctx.violation("E4", "TestSuite truthiness: explicit status decides, else all tests must be non-failing",
                              {"explicit": None if e is None else st[e], "tests": [st[x] for x in combo], "bool": b})
        for a, b, k, r in prow:
            f = fs[k]
            want = {"passed": "passed", "failed": "failed", "error": "error", "filtered": "skipped"}.get(f) or \
                   ("skipped" if (a if f == "missing_source" else b) else "failed")
            if st[r] != want:
                ctx.violation("E4", "_parse_status: missing fields fail unless the matching ignore flag is given",
                              {"ign_src": a, "ign_ref": b, "status": f, "impl": st[r], "statement": want})


def t1_read_as(ctx):
    """--read-as reader selection, exhaustive over all sequences of <= 3 mappings of 2 readers x 3 patterns and 4 file names"""
    try:
        from fieldcompare._cli._common import _make_file_type_map
    except Exception as e:  # noqa: BLE001
        ctx.notes.append(f"refinement tie _make_file_type_map skipped ({e})")
        return
    import fnmatch
    import itertools
    readers = ["mesh", 'dsv{"delimiter":","}']
    pats = ["*.dat", "a*", None]            # None: no pattern given (= "*")
    names = ["a.dat", "b.dat", "a.csv", "zz"]
    rows = []
    atoms = [(r, p) for r in range(2) for p in range(3)]
    for k in range(0, 4):
        for seq in itertools.product(atoms, repeat=k):
            args = [readers[r] + ("" if pats[p] is None else ":" + pats[p]) for r, p in seq]
            ftm = _make_file_type_map(args)
            for ni, nm in enumerate(names):
                got = ftm(nm)
                sel = None if got is None else (0 if got[0] == "mesh" else 1)
                rows.append((seq, ni, sel))
    mt = {ni: [p for p in range(3) if fnmatch.fnmatch(names[ni], pats[p] or "*")] for ni in range(len(names))}
    tbl = clist([f"({clist([f'({cnat(r)}, {cnat(p)})' for r, p in seq], '(nat * nat)')}, {clist([cnat(p) for p in mt[ni]], 'nat')}, "
                 f"{'None' if sel is None else 'Some ' + cnat(sel)})" for seq, ni, sel in rows])
    src = """From Coq Require Import Arith Bool List.
From FC Require Import Model.ReadAs.
Import ListNotations.
Definition tbl (l : list nat) (n : nat) : bool := existsb (Nat.eqb n) l.
Definition oeq (a b : option nat) : bool := match a, b with Some x, Some y => Nat.eqb x y | None, None => true | _, _ => false end.
Definition table : list (list (nat * nat) * list nat * option nat) := """ + tbl + """.
Lemma read_as_matches_impl : forallb (fun r => oeq (select_reader (fst (fst r)) (tbl (snd (fst r)))) (snd r)) table = true.
Proof. vm_compute. reflexivity. Qed.
"""
    ok = ctx.table_lemma("T1_read_as_selection", src)
    ctx.tie("T1 --read-as selection rows", len(rows))
    if not ok:
        for seq, ni, sel in rows:
            order = list(dict.fromkeys(r for r, _ in seq))
            want = next((r for r in order if any(p in mt[ni] for rr, p in seq if rr == r)), None)
            if sel != want:
                ctx.violation("E4", "--read-as: the first reader (in order of appearance) with a matching pattern must be used",
                              {"mappings": [readers[r] + ":" + str(pats[p]) for r, p in seq], "file": names[ni], "impl": sel, "statement": want})


def replay(pid, rec):
    sc = rec["case"]
    if not sc or "kind" not in sc:
        print("no scenario in this replay:", rec["what"])
        return False
    sc = restore(sc)
    import tempfile
    d = tempfile.mkdtemp(dir=str(lib.WORK))
    im = run_impl(sc, d, 0, want_junit=False)
    os.rmdir(d)
    orc = oracle(sc)
    print("exit:", im["exit"], "escaped:", im["escaped"], "statement:", orc)
    return im["escaped"] is None and (orc is None or (im["exit"] == 0) == (orc == 0))


def restore(sc):
    """json scenario -> Fractions"""
    sc = json.loads(json.dumps(sc))
    for side in ("res", "ref"):
        D = sc[side]
        if sc["kind"] == "csv":
            for c in D["cols"]:
                if c[1] == "float":
                    c[2] = [Fr(v) for v in c[2]]
        else:
            for f in D["pf"] + D["cf"]:
                if f[1].startswith("Float"):
                    f[3] = [Fr(v) for v in f[3]]
    return sc
