#!/bin/bash
# harness/seedcheck.sh <property> <k> [check ids...]
# Validates the seeded change /tmp/seed_<property>/_seed/patch<k>.diff in its scratch worktree (tests still pass, the
# demonstration fails with the change and passes without it), runs the given checks (default: the property's own) against
# the changed tree, and files everything under /verif/seeded/<property>-<k>/.
P=$1; K=$2; shift 2
CHECKS=${@:-$P}
WT=/tmp/seed_$P
DK=${DEST_K:-$K}     # round 2: DEST_K=3 files the agent's patch1 as seeded/<P>-3
OUT=/verif/seeded/$P-$DK
mkdir -p $OUT
cd $WT || exit 2
git checkout -q -- . 
PYTHONPATH=$WT /venv/bin/python _seed/demo$K.py >/dev/null 2>&1; D0=$?
git apply _seed/patch$K.diff || { echo "patch does not apply"; exit 2; }
T=$(/venv/bin/python -m pytest -q -p no:cacheprovider --timeout=900 --deselect test/test_examples.py::test_api_examples 2>&1 | tail -1)
PYTHONPATH=$WT /venv/bin/python _seed/demo$K.py > $OUT/demo_output_with_change.txt 2>&1; D1=$?
RES=""
for C in $CHECKS; do
  ( cd /verif && VERIF_REPO=$WT VERIF_EVIDENCE_DIR=/verif/work/seed_evidence ./check $C quick > $OUT/check_$C.txt 2>&1 ); RC=$?
  NV=$(grep -c '^VIOLATION' $OUT/check_$C.txt)
  RES="$RES $C:exit=$RC,violations=$NV"
done
git checkout -q -- .
cp _seed/patch$K.diff $OUT/patch.diff; cp _seed/demo$K.py $OUT/demo.py; cp _seed/meta$K.json $OUT/meta_agent.json
echo "seed $P-$DK: demo without change exit=$D0, with change exit=$D1; tests: $T; checks:$RES"
/venv/bin/python - "$P" "$DK" "$D0" "$D1" "$T" "$RES" <<'PY'
import json, sys
p, k, d0, d1, t, res = sys.argv[1:]
m = json.load(open(f"/verif/seeded/{p}-{k}/meta_agent.json"))
out = {"property": p, "breaks": m.get("summary"), "needs_to_manifest": m.get("needs_to_manifest"), "files_changed": m.get("files_changed"),
       "validated": {"demo_exit_without_change": int(d0), "demo_exit_with_change": int(d1), "existing_tests_with_change": t,
                     "commands": ["git apply patch.diff (scratch worktree of /repo)", "pytest (239 tests)", "python demo.py",
                                  "VERIF_REPO=<worktree> ./check <id> quick"]},
       "checks_run_against_change": res.strip().split(), "origin": "written by an independent sub-agent that saw only the property text"}
json.dump(out, open(f"/verif/seeded/{p}-{k}/meta.json", "w"), indent=1)
PY
