"""T2 tie of Model/Glob.v (PatternFilter over fnmatch) to fieldcompare._cli._common.PatternFilter: generated pattern lists and
names, the model evaluated in Coq, the implementation object called on the same inputs."""
from __future__ import annotations

import warnings

from . import lib

HEADER = """From Coq Require Import NArith List Bool.
From FC Require Import Model.Glob.
Import ListNotations.
Local Open Scope N_scope.
"""

ALPHABET = "ab/.-_*?[]!^\\z0c~&|{ ABPZ"
DIRECTED = ["*", "p", "P", "[a-c]", "[A-C]", "*.VTU", "*.vtu", "run1/*", "p_*", "*_tmp", "[z-a]", "[!z-a]", "[a-]", "[-a]", "[!-a]", "[a-b-c]", "[a-c-]", "[--a]", "[!!]",
            "[\\-a]", "[]a]", "[!]a]", "[]", "[!]", "[", "[a", "a[", "[a-cx-z]", "[!a-cx-z]b", "**", "*?*", "?", "", "[^a]", "[[]", "[a[b]",
            "[b-a-c]", "[!b-a]", "a/*/b", "*/*", "[a-c]?.csv", "[&~|]", "[!&]", "x[a-c-e]y", "[a-a]", "[a--]", "[!--0]", "*[!.]*",
            "[c-a-z]", "[az-a]", "[a-zz-a]x", "p[0-9]", "u_[xyz]", "[!u]", "p_[!0-9]", "[--z]"]
NAMES = ["", "a", "b", "z", "A", "P", "p", "Ab", "aB", "RUN1/a", "X/Y.VTU", "-", "a/b", "run1/a/b.csv", "run2/a.csv", "x/y.vtu", "x/y.vtp", "p_1", "s_tmp", "b1.csv", "]", "[", "!", "^",
         "\\", "a-c", "ab", "abc", ".", "..", "a/", "/a", "&", "~", "|", "xay", "x-y", "xdy", "0", "a\nb", "p7", "u_y", "u", "p_x"]


def cstr(s: str) -> str:
    return lib.clist([str(ord(c)) for c in s], "N")


def rand_pat(rng):
    if rng.random() < 0.35:
        return rng.choice(DIRECTED)
    n = rng.randint(0, 7)
    s = "".join(rng.choice(ALPHABET) for _ in range(n))
    if rng.random() < 0.4:          # a well-formed bracket somewhere
        inner = "".join(rng.choice("ab-z!^]\\c0") for _ in range(rng.randint(1, 5)))
        k = rng.randint(0, len(s))
        s = s[:k] + "[" + inner + "]" + s[k:]
    return s


def rand_name(rng, pats):
    r = rng.random()
    if r < 0.3:
        return rng.choice(NAMES)
    if r < 0.6 and pats:
        # a name derived from a pattern: metacharacters replaced by plain text, so that matches are frequent
        p = rng.choice(pats)
        out = ""
        for c in p:
            out += {"*": rng.choice(["", "a", "a/b"]), "?": rng.choice("ab/")}.get(c, c if c not in "[]!" or rng.random() < 0.3 else rng.choice("abz"))
        return out
    return "".join(rng.choice(ALPHABET) for _ in range(rng.randint(0, 6)))


def tie(ctx, n, what):
    try:
        from fieldcompare._cli._common import PatternFilter
    except Exception as e:  # noqa: BLE001
        ctx.notes.append(f"glob tie skipped (PatternFilter not found: {e})")
        return
    rng = ctx.rng
    cases, exprs = [], []
    for it in range(n):
        pats = [rand_pat(rng) for _ in range(rng.choice([0, 1, 1, 1, 2, 3]))]
        if it < len(DIRECTED):
            pats = [DIRECTED[it]]
        name = rand_name(rng, pats)
        try:
            with warnings.catch_warnings():
                warnings.simplefilter("ignore")
                got = bool(PatternFilter(list(pats))(name))
        except Exception as e:  # noqa: BLE001
            got = f"raised {type(e).__name__}: {e}"
        cases.append((pats, name, got))
        exprs.append(f"pattern_filter {lib.clist([cstr(p) for p in pats], '(list N)')} {cstr(name)}")
    vals = ctx.coq_eval(HEADER, exprs, name="glob", shard=400)
    nm = 0
    for (pats, name, got), v in zip(cases, vals):
        ctx.tie(f"T2 Model.Glob.pattern_filter = PatternFilter ({what})")
        canon = {"patterns": pats, "name": name, "filter": what}
        ctx.case(canon, bool(pats), sample={"case": canon, "impl": got, "model": v} if nm < 5 else None)
        ctx.count(f"glob:{'match' if got is True else 'no match' if got is False else 'raised'}")
        nm += 1
        import fnmatch as _fn
        with warnings.catch_warnings():
            warnings.simplefilter("ignore")
            try:
                doc = any(_fn.fnmatchcase(name, p_) for p_ in pats)      # the documented semantics (POSIX: case-sensitive)
            except Exception:  # noqa: BLE001
                doc = None
        if doc is not None and got != doc:
            ctx.violation("E4", f"pattern filter ({what}): patterns {pats!r} {'select' if got else 'do not select'} the name {name!r}; shell-style "
                                f"matching says {'selected' if doc else 'not selected'}", canon, impl=got)
        elif got != v:
            ctx.violation("E2", f"pattern filter: model says {v}, implementation says {got} for patterns {pats!r} and name {name!r}",
                          canon, found_input=False)
