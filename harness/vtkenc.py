"""Independent encoder for VTK XML files, written from the VTK file-format description (not from /repo):
.vtu / .vtp / .vti / .vtr / .vts and their parallel index files, .pvd collections.

Every data array can be written as ascii, inline base64 ("binary") or appended (base64 or raw), uncompressed
or compressed (zlib / lz4 / lzma) with any block size, 32- or 64-bit headers, little- or big-endian.

A logical array is (name, vtk_type, ncomp, values) with `values` a flat list of Python ints / floats (for
floats: exactly representable in the array's type, so that `struct.pack` does not round).
"""
from __future__ import annotations

import base64
import lzma
import struct
import zlib

try:
    import lz4.block as _lz4
except ImportError:  # pragma: no cover
    _lz4 = None

VTK_TYPES = {
    "Int8": ("b", 1), "UInt8": ("B", 1), "Int16": ("h", 2), "UInt16": ("H", 2), "Int32": ("i", 4), "UInt32": ("I", 4),
    "Int64": ("q", 8), "UInt64": ("Q", 8), "Float32": ("f", 4), "Float64": ("d", 8),
}
COMPRESSOR_NAME = {"zlib": "vtkZLibDataCompressor", "lz4": "vtkLZ4DataCompressor", "lzma": "vtkLZMADataCompressor"}


class Cfg:
    def __init__(self, fmt="ascii", compressor=None, block_size=32768, header_type="UInt32", byte_order="<",
                 header_separate=False, version="1.0", omit_header_type=False, omit_scalar_ncomp=False):
        assert fmt in ("ascii", "binary", "appended-base64", "appended-raw")
        self.fmt, self.compressor, self.block_size = fmt, compressor, block_size
        self.header_type, self.byte_order, self.header_separate = header_type, byte_order, header_separate
        # the VTKFile attributes: `version` is free; header_type may be left out, which means UInt32 (the format's default)
        self.version, self.omit_header_type = version, bool(omit_header_type) and header_type == "UInt32"
        # NumberOfComponents may be left out for one-component arrays (the format's default is 1)
        self.omit_scalar_ncomp = bool(omit_scalar_ncomp)

    def key(self):
        return (f"{self.fmt}/{self.compressor}/bs{self.block_size}/{self.header_type}/"
                f"{'LE' if self.byte_order == '<' else 'BE'}{'/hsep' if self.header_separate else ''}")

    def as_dict(self):
        return dict(fmt=self.fmt, compressor=self.compressor, block_size=self.block_size, header_type=self.header_type,
                    byte_order=self.byte_order, header_separate=self.header_separate, version=self.version,
                    omit_header_type=self.omit_header_type, omit_scalar_ncomp=self.omit_scalar_ncomp)


def raw_bytes(vtk_type, values, byte_order):
    code, _ = VTK_TYPES[vtk_type]
    return struct.pack(f"{byte_order}{len(values)}{code}", *values)


def _hdr(cfg, *ints):
    code = "I" if cfg.header_type == "UInt32" else "Q"
    return struct.pack(f"{cfg.byte_order}{len(ints)}{code}", *ints)


def _compress(name, block):
    if name == "zlib":
        return zlib.compress(block)
    if name == "lzma":
        return lzma.compress(block)
    if name == "lz4":
        return _lz4.compress(block, store_size=False)
    raise ValueError(name)


def binary_segments(cfg, payload: bytes):
    """-> (header bytes, data bytes) as they appear before any base64 encoding"""
    if cfg.compressor is None:
        return _hdr(cfg, len(payload)), payload
    bs = cfg.block_size
    blocks = [payload[i:i + bs] for i in range(0, len(payload), bs)]
    comp = [_compress(cfg.compressor, b) for b in blocks]
    last = len(payload) % bs
    return _hdr(cfg, len(blocks), bs, last, *[len(c) for c in comp]), b"".join(comp)


def encode_binary(cfg, payload: bytes, b64: bool) -> bytes:
    """the byte string stored for one array (inline text, or its segment of the appended section)"""
    h, d = binary_segments(cfg, payload)
    if not b64:
        return h + d
    if cfg.compressor is None and not cfg.header_separate:
        return base64.b64encode(h + d)
    return base64.b64encode(h) + base64.b64encode(d)


def ascii_text(vtk_type, values):
    if vtk_type.startswith("Float"):
        import numpy as np
        if vtk_type == "Float32":
            return " ".join(repr(float(np.float32(v))) if float(np.float32(v)) == v else repr(v) for v in values)
        return " ".join(repr(float(v)) for v in values)
    return " ".join(str(int(v)) for v in values)


class Writer:
    """collects DataArray elements and the appended section of one file"""

    def __init__(self, cfg: Cfg):
        self.cfg = cfg
        self.appended = b""
        self.records = []     # one dict per data array written: name, vtk_type, ncomp, fmt, payload, text | offset

    def _record(self, **kw):
        if hasattr(self, "records"):
            self.records.append(kw)

    def data_array(self, name, vtk_type, ncomp, values, indent="        ", extra=""):
        cfg = self.cfg
        nc_attr = "" if (ncomp == 1 and getattr(cfg, "omit_scalar_ncomp", False)) else f' NumberOfComponents="{ncomp}"'
        attrs = f'type="{vtk_type}" Name="{name}"{nc_attr}{extra}'
        if cfg.fmt == "ascii":
            return f'{indent}<DataArray {attrs} format="ascii">\n{indent}  {ascii_text(vtk_type, values)}\n{indent}</DataArray>\n'
        payload = raw_bytes(vtk_type, values, cfg.byte_order)
        if cfg.fmt == "binary":
            txt = encode_binary(cfg, payload, True).decode("ascii")
            self._record(name=name, vtk_type=vtk_type, ncomp=ncomp, fmt="binary", payload=payload, text=txt.encode())
            return f'{indent}<DataArray {attrs} format="binary">\n{indent}  {txt}\n{indent}</DataArray>\n'
        off = len(self.appended)
        self.appended += encode_binary(cfg, payload, cfg.fmt == "appended-base64")
        self._record(name=name, vtk_type=vtk_type, ncomp=ncomp, fmt=cfg.fmt, payload=payload, offset=off)
        return f'{indent}<DataArray {attrs} format="appended" offset="{off}"/>\n'

    def file_attrs(self, vtk_type_name):
        cfg = self.cfg
        s = f'type="{vtk_type_name}" version="{cfg.version}" byte_order="{"LittleEndian" if cfg.byte_order == "<" else "BigEndian"}"'
        if not cfg.omit_header_type:
            s += f' header_type="{cfg.header_type}"'
        if cfg.compressor:
            s += f' compressor="{COMPRESSOR_NAME[cfg.compressor]}"'
        return s

    def appended_section(self) -> bytes:
        if not self.cfg.fmt.startswith("appended"):
            return b""
        enc = "base64" if self.cfg.fmt == "appended-base64" else "raw"
        return f'  <AppendedData encoding="{enc}">\n   _'.encode() + self.appended + b"\n  </AppendedData>\n"


def _fields_xml(w, tag, fields, indent="      "):
    if fields is None:
        return ""
    s = f"{indent}<{tag}>\n"
    for (name, vt, ncomp, vals) in fields:
        s += w.data_array(name, vt, ncomp, vals, indent + "  ")
    return s + f"{indent}</{tag}>\n"


def _finish(path, w, vtk_type_name, body: str):
    head = f'<?xml version="1.0"?>\n<VTKFile {w.file_attrs(vtk_type_name)}>\n'
    data = head.encode() + body.encode() + w.appended_section() + b"</VTKFile>\n"
    with open(path, "wb") as f:
        f.write(data)
    return data


# ------------------------------------------------------------------------------------------------
def write_vtu(path, points, cells, point_fields, cell_fields, cfg: Cfg, coord_type="Float64",
              conn_type="Int64", types_type="UInt8"):
    """points: list of [x,y,z]; cells: list of (vtk type id, [corner indices]) IN FILE ORDER;
    point_fields / cell_fields: list of (name, vtk_type, ncomp, flat values) in file order of points / cells."""
    w = Writer(cfg)
    conn, offs, types = [], [], []
    for t, c in cells:
        conn += list(c)
        offs.append(len(conn))
        types.append(t)
    body = f'  <UnstructuredGrid>\n    <Piece NumberOfPoints="{len(points)}" NumberOfCells="{len(cells)}">\n'
    body += _fields_xml(w, "PointData", point_fields)
    body += _fields_xml(w, "CellData", cell_fields)
    body += "      <Points>\n" + w.data_array("Points", coord_type, 3, [x for p in points for x in p]) + "      </Points>\n"
    body += ("      <Cells>\n" + w.data_array("connectivity", conn_type, 1, conn) + w.data_array("offsets", conn_type, 1, offs)
             + w.data_array("types", types_type, 1, types) + "      </Cells>\n")
    body += "    </Piece>\n  </UnstructuredGrid>\n"
    return _finish(path, w, "UnstructuredGrid", body)


def write_vtp(path, points, groups, point_fields, cell_fields, cfg: Cfg, coord_type="Float64", conn_type="Int64"):
    """groups: dict with optional keys Verts, Lines, Polys, Strips -> list of corner lists (file order within group)"""
    w = Writer(cfg)
    attr = {"Verts": "NumberOfVerts", "Lines": "NumberOfLines", "Polys": "NumberOfPolys", "Strips": "NumberOfStrips"}
    counts = " ".join(f'{attr[k]}="{len(groups.get(k, []))}"' for k in attr)
    body = f'  <PolyData>\n    <Piece NumberOfPoints="{len(points)}" {counts}>\n'
    body += _fields_xml(w, "PointData", point_fields)
    body += _fields_xml(w, "CellData", cell_fields)
    body += "      <Points>\n" + w.data_array("Points", coord_type, 3, [x for p in points for x in p]) + "      </Points>\n"
    for k in attr:
        if k not in groups:
            continue
        conn, offs = [], []
        for c in groups[k]:
            conn += list(c)
            offs.append(len(conn))
        body += f"      <{k}>\n" + w.data_array("connectivity", conn_type, 1, conn) + w.data_array("offsets", conn_type, 1, offs) + f"      </{k}>\n"
    body += "    </Piece>\n  </PolyData>\n"
    return _finish(path, w, "PolyData", body)


def _ext(e):
    return " ".join(str(x) for x in e)


def write_vti(path, extent, origin, spacing, direction, point_fields, cell_fields, cfg: Cfg, whole_extent=None):
    """extent = [x0,x1,y0,y1,z0,z1] of this piece"""
    w = Writer(cfg)
    we = whole_extent or extent
    d = f' Direction="{" ".join(repr(float(x)) for x in direction)}"' if direction is not None else ""
    body = (f'  <ImageData WholeExtent="{_ext(we)}" Origin="{" ".join(repr(float(x)) for x in origin)}" '
            f'Spacing="{" ".join(repr(float(x)) for x in spacing)}"{d}>\n    <Piece Extent="{_ext(extent)}">\n')
    body += _fields_xml(w, "PointData", point_fields)
    body += _fields_xml(w, "CellData", cell_fields)
    body += "    </Piece>\n  </ImageData>\n"
    return _finish(path, w, "ImageData", body)


def write_vtr(path, extent, ordinates, point_fields, cell_fields, cfg: Cfg, whole_extent=None, coord_type="Float64"):
    w = Writer(cfg)
    we = whole_extent or extent
    body = f'  <RectilinearGrid WholeExtent="{_ext(we)}">\n    <Piece Extent="{_ext(extent)}">\n'
    body += _fields_xml(w, "PointData", point_fields)
    body += _fields_xml(w, "CellData", cell_fields)
    body += "      <Coordinates>\n"
    types = [coord_type] * 3 if isinstance(coord_type, str) else list(coord_type)     # (one number type per ordinate vector)
    for nm, o, ct in zip(("x", "y", "z"), ordinates, types):
        body += w.data_array(nm, ct, 1, [int(x) for x in o] if ct.startswith(("Int", "UInt")) else list(o))
    body += "      </Coordinates>\n    </Piece>\n  </RectilinearGrid>\n"
    return _finish(path, w, "RectilinearGrid", body)


def write_vts(path, extent, points, point_fields, cell_fields, cfg: Cfg, whole_extent=None, coord_type="Float64"):
    w = Writer(cfg)
    we = whole_extent or extent
    body = f'  <StructuredGrid WholeExtent="{_ext(we)}">\n    <Piece Extent="{_ext(extent)}">\n'
    body += _fields_xml(w, "PointData", point_fields)
    body += _fields_xml(w, "CellData", cell_fields)
    body += "      <Points>\n" + w.data_array("Points", coord_type, 3, [x for p in points for x in p]) + "      </Points>\n"
    body += "    </Piece>\n  </StructuredGrid>\n"
    return _finish(path, w, "StructuredGrid", body)


# ------------------------------------------------------------------------------------------------
def _pdecl(tag, fields):
    if fields is None:
        return ""
    s = f"    <{tag}>\n"
    for (name, vt, ncomp, _vals) in fields:
        s += f'      <PDataArray type="{vt}" Name="{name}" NumberOfComponents="{ncomp}"/>\n'
    return s + f"    </{tag}>\n"


def write_pvtu(path, piece_files, point_fields_decl, cell_fields_decl, kind="UnstructuredGrid"):
    body = f'<?xml version="1.0"?>\n<VTKFile type="P{kind}" version="1.0" byte_order="LittleEndian" header_type="UInt32">\n'
    body += f'  <P{kind} GhostLevel="0">\n' + _pdecl("PPointData", point_fields_decl) + _pdecl("PCellData", cell_fields_decl)
    body += '    <PPoints>\n      <PDataArray type="Float64" Name="Points" NumberOfComponents="3"/>\n    </PPoints>\n'
    for pf in piece_files:
        body += f'    <Piece Source="{pf}"/>\n'
    body += f"  </P{kind}>\n</VTKFile>\n"
    with open(path, "w") as f:
        f.write(body)
    return body.encode()


def write_pstructured(path, kind, whole_extent, pieces, point_fields_decl, cell_fields_decl, extra_attrs=""):
    """kind in ImageData / RectilinearGrid / StructuredGrid; pieces: list of (extent, source file)"""
    body = f'<?xml version="1.0"?>\n<VTKFile type="P{kind}" version="1.0" byte_order="LittleEndian" header_type="UInt32">\n'
    body += f'  <P{kind} WholeExtent="{_ext(whole_extent)}" GhostLevel="0"{extra_attrs}>\n'
    body += _pdecl("PPointData", point_fields_decl) + _pdecl("PCellData", cell_fields_decl)
    if kind == "StructuredGrid":
        body += '    <PPoints>\n      <PDataArray type="Float64" Name="Points" NumberOfComponents="3"/>\n    </PPoints>\n'
    if kind == "RectilinearGrid":
        body += ('    <PCoordinates>\n      <PDataArray type="Float64" Name="x"/>\n      <PDataArray type="Float64" Name="y"/>\n'
                 '      <PDataArray type="Float64" Name="z"/>\n    </PCoordinates>\n')
    for ext, src in pieces:
        body += f'    <Piece Extent="{_ext(ext)}" Source="{src}"/>\n'
    body += f"  </P{kind}>\n</VTKFile>\n"
    with open(path, "w") as f:
        f.write(body)
    return body.encode()


def write_pvd(path, step_files, times=None):
    body = '<?xml version="1.0"?>\n<VTKFile type="Collection" version="0.1" byte_order="LittleEndian">\n  <Collection>\n'
    for i, sf in enumerate(step_files):
        t = times[i] if times else float(i)
        body += f'    <DataSet timestep="{t}" group="" part="0" file="{sf}"/>\n'
    body += "  </Collection>\n</VTKFile>\n"
    with open(path, "w") as f:
        f.write(body)
    return body.encode()
