"""C15 — sequences are compared step by step and pass only if every step passes.

.pvd collections of small .vtu steps (own encoder), lengths 1..6, a deviating step at every position, all 8
combinations of the sequence options, sequence vs single file, repeated / partial iteration of the sequence object.
Model: Model.Cli.compare_seq / iterate.  Oracle: the statement.
"""
from __future__ import annotations

import json
import os
import re
import shutil
import warnings

import numpy as np

from . import lib
from . import vtkenc as V
from .clicommon import run_cli
from .lib import clist, cnat

HEADER = """From Coq Require Import Arith Bool List.
From FC Require Import Model.Compare Model.Cli.
Import ListNotations.
Definition okS : tsuite := {| ts_status := None; ts_tests := [(0, TPassed)] |}.
Definition badS : tsuite := {| ts_status := None; ts_tests := [(0, TFailed)] |}.
Definition domS : tsuite := {| ts_status := Some TFailed; ts_tests := [] |}.
(* step ids: equal ids = equal content; ids >= 100 have a different mesh (domain check fails) *)
Definition cmp (a b : nat) : tsuite := if a =? b then okS else if (100 <=? a) || (100 <=? b) then domS else badS.
Definition runseq (ign force : bool) (r s : readres nat) :=
  (cli_file cmp ign force r s,
   match r, s with RSeq la, RSeq lb => snd (compare_seq cmp ign force la lb) | _, _ => [] end).
Definition runiter (p : list nat) (c : nat) :=
  let (l1, s1) := iterate {| pieces := p; cursor := c |} in
  let (l2, _) := iterate s1 in (l1, l2).
"""


def write_step(path, marker, variant):
    """one .vtu step: 4 points, a quad; point field 'u' = marker-dependent values; variant>=100 moves a point"""
    pts = [[0.0, 0.0, 0.0], [1.0, 0.0, 0.0], [1.0, 1.0, 0.0], [0.0, 1.0, 0.0]]
    if variant >= 100:
        pts[2] = [5.0, 5.0, 0.0]
    cells = [(9, [0, 1, 2, 3])]
    pf = [("u", "Float64", 1, [float(variant), 1.0, 2.0, 3.0]), ("marker", "Int32", 1, [marker] * 4)]
    V.write_vtu(path, pts, cells, pf, [("c", "Float64", 1, [float(variant % 7)])], V.Cfg("ascii"))


def gen(rng):
    n, m = rng.randint(1, 6), rng.randint(1, 6)
    if rng.random() < 0.5:
        m = n
    truth = list(range(max(n, m)))
    res, ref = truth[:n], truth[:m]
    dev = None
    if rng.random() < 0.6:
        side = rng.choice(["res", "ref"])
        lst = res if side == "res" else ref
        i = rng.choice([0, len(lst) - 1, rng.randrange(len(lst))])
        lst[i] = lst[i] + rng.choice([50, 100])
        dev = [side, i]
    kind = rng.choice(["seq", "seq", "seq", "seq", "seq_vs_single", "single_vs_seq"])
    container = "xdmf" if (rng.random() < 0.3 and all(v < 100 for v in res + ref)) else "pvd"
    return {"res": res, "ref": ref, "dev": dev, "ign": rng.random() < 0.4, "force": rng.random() < 0.4, "kind": kind,
            "container": container}


def time_labels(rng, n):
    """the timestep attribute of the DataSet entries: distinct values, or labels that repeat (a small time step written with
    few digits, restart output) — the entries are the steps, whatever their labels"""
    mode = rng.choice(["distinct", "distinct", "all equal", "pairs", "few digits"])
    if mode == "distinct" or n == 0:
        return None
    if mode == "all equal":
        return ["0.0"] * n
    if mode == "pairs":
        return [f"{(i // 2) * 0.5}" for i in range(n)]
    return [f"{i * 0.004:.2f}" for i in range(n)]


def write_xdmf(path, variants):
    """XDMF time series (meshio TimeSeriesWriter, XML data) with the same per-step fields as write_step"""
    from meshio.xdmf import TimeSeriesWriter
    pts = np.array([[0.0, 0.0, 0.0], [1.0, 0.0, 0.0], [1.0, 1.0, 0.0], [0.0, 1.0, 0.0]])
    cwd = os.getcwd()
    os.chdir(os.path.dirname(path))
    try:
        with TimeSeriesWriter(os.path.basename(path), data_format="XML") as w:
            w.write_points_cells(pts, [("quad", np.array([[0, 1, 2, 3]]))])
            for i, v in enumerate(variants):
                w.write_data(float(i), point_data={"u": np.array([float(v), 1.0, 2.0, 3.0]), "marker": np.array([i] * 4, dtype=np.int32)},
                             cell_data={"c": [np.array([float(v % 7)])]})
    finally:
        os.chdir(cwd)


def step_name(side, i, scheme):
    """file name of step i: the order of the steps is the order of the entries of the index file, whatever the files are called
    (numbered, named in descending alphabetical order, or the two sides named by different schemes)"""
    if scheme == "descending":
        return f"{side}_{9999 - i:04d}.vtu"
    if scheme == "mixed" and side == "res":
        return f"{side}_{(i * 7) % 10}{i}.vtu"
    return f"{side}_{i}.vtu"


def run_impl(c, workdir, idx):
    d = os.path.join(workdir, f"q{idx}")
    os.makedirs(d, exist_ok=True)
    files = {}
    scheme = ("index", "descending", "mixed")[idx % 3]
    for side in ("res", "ref"):
        steps = []
        for i, v in enumerate(c[side]):
            p = os.path.join(d, step_name(side, i, scheme))
            write_step(p, i, v)
            steps.append(os.path.basename(p))
        if c.get("container") == "xdmf":
            files[side] = os.path.join(d, f"{side}.xdmf")
            write_xdmf(files[side], c[side])
        else:
            pvd = os.path.join(d, f"{side}.pvd")
            V.write_pvd(pvd, steps, times=time_labels(__import__("random").Random(1000 * idx + len(steps)), len(steps)))
            files[side] = pvd
    if c["kind"] == "seq_vs_single":
        files["ref"] = os.path.join(d, step_name("ref", 0, scheme))
    if c["kind"] == "single_vs_seq":
        files["res"] = os.path.join(d, step_name("res", 0, scheme))
    argv = ["file", files["res"], files["ref"], "--verbosity", "1"]
    if c["ign"]:
        argv.append("--ignore-missing-sequence-steps")
    if c["force"]:
        argv.append("--force-sequence-comparison")
    cwd = os.getcwd()
    if c.get("container") != "xdmf" and idx % 5 == 0:
        # the working directory holds files named like the steps but with other content: step paths of a .pvd are relative to it
        dd = os.path.join(d, "cwd_with_decoys")
        os.makedirs(dd)
        for side in ("res", "ref"):
            for i, v in enumerate(c[side]):
                write_step(os.path.join(dd, f"{side}_{i}.vtu"), i, v + 17 + (3 if side == "res" else 0))
        os.chdir(dd)
    try:
        with warnings.catch_warnings():
            warnings.simplefilter("ignore")
            rc, log, exc = run_cli(argv)
    finally:
        os.chdir(cwd)
    steps = [int(x) for x in re.findall(r"Comparing step (\d+) of \d+", log)]
    shutil.rmtree(d)
    return {"exit": rc, "escaped": exc, "steps": steps}


def oracle(c):
    if c["kind"] != "seq":
        return {"exit_zero": False, "steps": []}
    n, m = len(c["res"]), len(c["ref"])
    common = min(n, m)
    all_pass = all(c["res"][i] == c["ref"][i] for i in range(common))
    ok = all_pass and (n == m or c["ign"])
    if n != m and not c["ign"] and not c["force"]:
        steps = None       # the statement does not say whether common steps are still compared without --force
    else:
        steps = list(range(common))
    return {"exit_zero": ok, "steps": steps}


def model_expr(c):
    def rr(side, single):
        if single:
            return f"(RData {cnat(c[side][0])})"
        return f"(RSeq {clist([cnat(x) for x in c[side]], 'nat')})"
    return (f"runseq {lib.cbool(c['ign'])} {lib.cbool(c['force'])} {rr('res', c['kind'] == 'single_vs_seq')} "
            f"{rr('ref', c['kind'] == 'seq_vs_single')}")


def iteration_checks(ctx, n_cases):
    """list(read(pvd)) twice, and after a partial iteration: same steps, in order"""
    from fieldcompare.io import read
    rng = ctx.rng
    exprs, impls, metas = [], [], []
    d = os.path.join(str(ctx.workdir), "iter")
    for k in range(n_cases):
        os.makedirs(d, exist_ok=True)
        n = rng.randint(1, 6)
        steps = []
        for i in range(n):
            p = os.path.join(d, step_name("s", i, ("index", "descending")[k % 2]))
            write_step(p, i, i)
            steps.append(os.path.basename(p))
        pvd = os.path.join(d, "s.pvd")
        V.write_pvd(pvd, steps, times=time_labels(rng, n))
        if k % 3 == 2:
            pvd = os.path.join(d, "s.xdmf")
            write_xdmf(pvd, list(range(n)))
        seq = read(pvd)
        partial = rng.randint(0, n)          # consume `partial` steps first, then abandon the generator
        it = iter(seq)
        for _ in range(partial):
            try:
                next(it)
            except StopIteration:        # fewer steps than DataSet entries: reported below through the step lists
                break
        del it

        def marker_of(fd):
            vals = {f.name: f.values for f in fd}
            return int(vals["marker"][0])
        # all steps of both passes are kept alive and only looked at afterwards: a step handed out earlier must not change
        # when later steps are read
        held_first = list(seq)
        held_second = list(seq)
        first, second = [marker_of(fd) for fd in held_first], [marker_of(fd) for fd in held_second]
        shutil.rmtree(d)
        cursor = max(partial - 1, 0)
        exprs.append(f"runiter {clist([cnat(i) for i in range(n)], 'nat')} {cnat(cursor)}")
        impls.append((first, second))
        metas.append({"steps": n, "partially_consumed": partial, "number_of_steps": seq.number_of_steps,
                      "container": "xdmf" if pvd.endswith(".xdmf") else "pvd"})
    vals = ctx.coq_eval(HEADER, exprs, name="c15iter")
    for (first, second), val, meta in zip(impls, vals, metas):
        l1, l2 = val
        m1 = [x[1] if isinstance(x, tuple) else None for x in l1]
        m2 = [x[1] if isinstance(x, tuple) else None for x in l2]
        want = list(range(meta["steps"]))
        canon = {"iteration": meta}
        ctx.case(canon, meta["steps"] >= 2, sample={"case": canon, "impl": [first, second], "model": [m1, m2]})
        ctx.count(f"iter:steps:{meta['steps']}")
        if first != want or second != want or meta["number_of_steps"] != meta["steps"]:
            ctx.violation("E4", "iterating a sequence does not yield every step once, in order, repeatably", canon,
                          impl=[first, second], statement=want)
        elif [m1, m2] != [first, second]:
            ctx.violation("E2", "iteration: model != implementation", canon, found_input=False, impl=[first, second], model=[m1, m2])
        ctx.traces_validated += 1


def asymmetric_fields_stream(ctx, n):
    """sequences whose steps carry a field on ONE side only, of equal or different lengths, under the ignore-missing-field
    options: which side is the result and which the reference matters for every step, also when the result is the longer one"""
    rng = ctx.rng
    for it in range(n):
        nres, nref = rng.randint(1, 4), rng.randint(1, 4)
        if rng.random() < 0.4:
            nref = nres
        extra_on = rng.choice(["res", "ref"])
        ign_src_f, ign_ref_f = rng.random() < 0.5, rng.random() < 0.5
        ign_steps, force = rng.random() < 0.6, rng.random() < 0.4
        d = os.path.join(str(ctx.workdir), f"asym{it}")
        os.makedirs(d)
        for side, k in (("res", nres), ("ref", nref)):
            steps = []
            for i in range(k):
                p = os.path.join(d, f"{side}_{i}.vtu")
                pts = [[0.0, 0.0, 0.0], [1.0, 0.0, 0.0], [1.0, 1.0, 0.0], [0.0, 1.0, 0.0]]
                pf = [("u", "Float64", 1, [float(i), 1.0, 2.0, 3.0])]
                if side == extra_on:
                    pf.append(("only_here", "Float64", 1, [7.0, 7.0, 7.0, 7.0]))
                V.write_vtu(p, pts, [(9, [0, 1, 2, 3])], pf, [], V.Cfg("ascii"))
                steps.append(os.path.basename(p))
            V.write_pvd(os.path.join(d, f"{side}.pvd"), steps)
        argv = ["file", os.path.join(d, "res.pvd"), os.path.join(d, "ref.pvd"), "--verbosity", "1"]
        argv += ["--ignore-missing-source-fields"] if ign_src_f else []
        argv += ["--ignore-missing-reference-fields"] if ign_ref_f else []
        argv += ["--ignore-missing-sequence-steps"] if ign_steps else []
        argv += ["--force-sequence-comparison"] if force else []
        with warnings.catch_warnings():
            warnings.simplefilter("ignore")
            rc, log, exc = run_cli(argv)
        shutil.rmtree(d, ignore_errors=True)
        # a field only in the result is "missing in the reference", a field only in the reference "missing in the source"
        field_ok = ign_ref_f if extra_on == "res" else ign_src_f
        steps_ok = nres == nref or ign_steps
        compared = nres == nref or ign_steps or force
        want_zero = steps_ok and (field_ok or not compared)
        if not compared:
            want_zero = False
        sc = {"asymmetric_fields": {"steps": [nres, nref], "field_only_in": extra_on, "ignore_missing_source_fields": ign_src_f,
                                    "ignore_missing_reference_fields": ign_ref_f, "ignore_missing_sequence_steps": ign_steps,
                                    "force_sequence_comparison": force}}
        ctx.case(sc, True, sample={"scenario": sc, "exit": rc})
        ctx.count(f"asymmetric fields:{'longer result' if nres > nref else 'longer reference' if nref > nres else 'equal length'}")
        ctx.tie("T2 sequences with one-sided fields: result / reference roles")
        if exc:
            ctx.violation("E4", f"sequence comparison: exception escaped: {exc}", sc)
        elif (rc == 0) != want_zero:
            ctx.violation("E4", f"sequence comparison with a field only in the {'result' if extra_on == 'res' else 'reference'} steps: "
                                f"exit {rc}, the statement requires {'0' if want_zero else 'non-zero'}", sc)
        ctx.traces_validated += 1


def long_sequence_cases(ctx, lengths):
    """equally long sequences of a few hundred steps compare as equally long (all steps compared, exit 0)"""
    for L in lengths:
        c = {"res": list(range(L)), "ref": list(range(L)), "dev": None, "ign": False, "force": False, "kind": "seq", "container": "pvd"}
        im = run_impl(c, str(ctx.workdir), 700000 + L)
        sc = {"long_sequence": L}
        ctx.case(sc, True, sample={"steps": L, "exit": im["exit"], "compared": len(im["steps"])})
        ctx.count("long sequences")
        if im["escaped"] or im["exit"] != 0 or im["steps"] != list(range(L)):
            ctx.violation("E4", f"two identical sequences of {L} steps: exit {im['exit']}, {len(im['steps'])} steps compared "
                                f"(escaped: {im['escaped']})", sc)
        ctx.traces_validated += 1


def t1(ctx):
    """_merged_result is a nested closure: tabulated through _compare_field_sequences is not possible without files;
    the merge algebra is tied by the T2 stream (every combination of passing / failing / domain-failing steps)."""
    ctx.notes.append("_merged_result is a closure; tied through sequences whose steps produce passed / failed / domain-failed sub-suites")


def run(ctx):
    ctx.prove()
    t1(ctx)
    n = 500 if ctx.tier == "quick" else 12000
    rng = ctx.rng
    cases = [gen(rng) for _ in range(n)]
    # every position of the deviating step, all 4 option combinations, lengths up to 4 (exhaustive block)
    for L in (1, 2, 3, 4):
        for pos in range(L):
            for ign in (False, True):
                for force in (False, True):
                    res = list(range(L))
                    ref = list(range(L))
                    ref[pos] += 50
                    cases.append({"res": res, "ref": ref, "dev": ["ref", pos], "ign": ign, "force": force, "kind": "seq"})
    impls = [run_impl(c, str(ctx.workdir), i) for i, c in enumerate(cases)]
    vals = ctx.coq_eval(HEADER, [model_expr(c) for c in cases], name="c15")
    for c, im, val in zip(cases, impls, vals):
        mo = {"exit": val[0], "steps": list(val[1])}
        orc = oracle(c)
        nontrivial = c["kind"] != "seq" or c["dev"] is not None or len(c["res"]) != len(c["ref"])
        ctx.case(c, nontrivial, sample={"case": c, "impl": im, "model": mo})
        ctx.count(f"kind:{c['kind']}")
        ctx.count(f"container:{c.get('container', 'pvd')}")
        ctx.count(f"len:{len(c['res'])}/{len(c['ref'])}")
        ctx.count(f"opts:ign={c['ign']},force={c['force']}")
        if im["escaped"]:
            ctx.violation("E4", f"exception escaped the CLI: {im['escaped']}", c, impl=im)
            continue
        bad = (im["exit"] == 0) != orc["exit_zero"] or (orc["steps"] is not None and im["steps"] != orc["steps"])
        if bad:
            ctx.violation("E4", f"sequence comparison: exit {im['exit']}, steps compared {im['steps']}; the statement requires "
                          f"{'0' if orc['exit_zero'] else 'non-zero'} and steps {orc['steps']}", c, impl=im, model=mo)
        elif (im["exit"] == 0) != (mo["exit"] == 0) or im["steps"] != mo["steps"]:
            ctx.violation("E2", f"model {mo} != implementation {im}", c, found_input=False, impl=im, model=mo)
        ctx.traces_validated += 1
    iteration_checks(ctx, 60 if ctx.tier == "quick" else 1500)
    asymmetric_fields_stream(ctx, 40 if ctx.tier == "quick" else 1000)
    long_sequence_cases(ctx, [257] if ctx.tier == "quick" else [256, 257, 300, 1030])
    ctx.rule = (".pvd sequences of lengths 1..6 on both sides, a deviating step (field value or mesh) at first/last/random position, "
                "plus every position for lengths <= 4 under all option combinations; sequence vs single file; iteration after partial "
                "consumption and twice. non-trivial = a deviating step, differing lengths or a kind mismatch")
    return ctx.finish(assumptions=["per-step comparison results are abstracted to passed / failed / domain-failed (C04 covers them)"],
                      trusted=["harness/c15.py, harness/vtkenc.py"])


def replay(pid, rec):
    c = rec["case"]
    if not c or "res" not in c:
        print("no sequence scenario in this replay:", rec["what"])
        return False
    import tempfile
    d = tempfile.mkdtemp(dir=str(lib.WORK))
    im = run_impl(c, d, 0)
    os.rmdir(d)
    orc = oracle(c)
    print("implementation:", im, "statement:", orc)
    return not im["escaped"] and (im["exit"] == 0) == orc["exit_zero"] and (orc["steps"] is None or im["steps"] == orc["steps"])
