#!/bin/bash
# harness/all_thorough.sh [tier] — every check once in the given tier (default thorough) from the directory that holds this copy of
# /verif (e.g. a `vp run` snapshot); builds the Coq development first; evidence goes to a scratch directory.
cd "$(dirname "$0")/.." || exit 2
TIER=${1:-thorough}
(cd coq && coq_makefile -f _CoqProject -o Makefile >/dev/null 2>&1 && make -j16 >/dev/null 2>&1) || { echo "coq build failed"; exit 2; }
mkdir -p work
for p in C01 C02 C03 C04 C05 C06 C07 C08 C09 C10 C11 C12 C13 C14 C15 C16 C17 C18 C19 C20; do
  S=$(date +%s)
  VERIF_EVIDENCE_DIR=$PWD/work/tmp_evid ./check $p $TIER > work/${TIER}_$p.log 2>&1
  echo "$p exit=$? $(( $(date +%s) - S ))s $(grep -c '^VIOLATION' work/${TIER}_$p.log) violations"
  grep '^VIOLATION' work/${TIER}_$p.log | head -5
done
echo ALLDONE
