"""C05 — VTK reading is independent of the file's encoding.

Logical data sets (points, 1-3 cell types interleaved in the file / poly data groups incl. polygons of different
sizes, scalar / vector / tensor point and cell fields of all ten VTK numeric types, extreme finite values; array
lengths on both sides of every base64 padding and compression block boundary) are written by the independent
encoder harness/vtkenc.py in every combination format x compressor x block size x header type x byte order x
header placement and read through `fieldcompare.io.read_field_data`.

Oracle: the logical data set itself (bit-identical values, dtype kind/width, shapes, names, cells per type).
Model : Model.Codec.read_data_array evaluated by vm_compute on the very byte strings the reader sees (inline text /
        appended section + offset); the compressor is a per-file lookup table computed with the real zlib / lzma / lz4.
Refinement ties (looked up by name, skipped when absent): Base64Encoder.decode / encoded_bytes,
        NoCompressor / ZLIBCompressor / LZ4Compressor / LZMACompressor.get_decompressed_data(bytes, encoder).
"""
from __future__ import annotations

import base64
import hashlib
import importlib
import lzma
import os
import struct
import warnings
import zlib

import functools

import numpy as np

from . import lib
from . import vtkenc as V

# block compression is deterministic; block size 1 asks for the same 256 blocks over and over
V._compress = functools.lru_cache(maxsize=400000)(V._compress)

HEADER = """From Coq Require Import NArith ZArith List Bool Uint63.
From FC Require Import Model.Codec.
Import ListNotations.
Local Open Scope N_scope.
(* bytes arrive packed seven to a primitive integer (little endian), which keeps the terms small *)
Definition nb (w : int) : N := Z.to_N (Uint63.to_Z (w land 255)%uint63).
Definition b7 (w : int) : bytes :=
  [nb w; nb (w >> 8); nb (w >> 16); nb (w >> 24); nb (w >> 32); nb (w >> 40); nb (w >> 48)]%uint63.
Definition ub (len : N) (l : list int) : bytes := takeN len (flat_map b7 l).
(* one file: every array must decode to the expected payload *)
Definition rdfile (tbl : list (bytes * bytes)) (compressed : bool) (bo : border) (h : htype) (e : encoding)
  (app : bytes) (arrays : list (placement * option bytes)) : list bool :=
  map (fun a => opt_bytes_eqb (read_data_array (table_decompress tbl) EMPTY_OK compressed bo h e app (fst a)) (snd a)) arrays.
Definition rdfile_val (tbl : list (bytes * bytes)) (compressed : bool) (bo : border) (h : htype) (e : encoding)
  (app : bytes) (arrays : list (placement * option bytes)) : list (option bytes) :=
  map (fun a => read_data_array (table_decompress tbl) EMPTY_OK compressed bo h e app (fst a)) arrays.
"""

NP = {"Int8": "i1", "UInt8": "u1", "Int16": "i2", "UInt16": "u2", "Int32": "i4", "UInt32": "u4", "Int64": "i8",
      "UInt64": "u8", "Float32": "f4", "Float64": "f8"}
TYPES = list(NP)
# vtk cell type id -> (name, number of corners)
CELLS = {1: ("VERTEX", 1), 3: ("LINE", 2), 5: ("TRIANGLE", 3), 8: ("PIXEL", 4), 9: ("QUAD", 4), 10: ("TETRA", 4),
         11: ("VOXEL", 8), 12: ("HEXAHEDRON", 8), 13: ("WEDGE", 6), 14: ("PYRAMID", 5), 7: ("POLYGON", None)}
POLY = {"Verts": (2, "POLY_VERTEX"), "Lines": (4, "POLY_LINE"), "Polys": (7, "POLYGON"), "Strips": (6, "TRIANGLE_STRIP")}
F32 = [3.4028234663852886e38, -3.4028234663852886e38, 1.1754943508222875e-38, 1.401298464324817e-45,
       -1.401298464324817e-45, -0.0, 0.0, 1.0, -1.5, 0.333251953125, 16777216.0]
F64 = [1.7976931348623157e308, -1.7976931348623157e308, 2.2250738585072014e-308, 5e-324, -5e-324, -0.0, 0.0, 1.0, -1.5,
       0.1, 9007199254740993.0, 1e-300]
SPECIAL = [0x3C, 0x3E, 0x26, 0x5F, 0x22, 0x27, 0x0A, 0x20]      # < > & _ " ' \n space
BLOCK_SIZES = [1, 7, 64, 32768]
# numbers of points / cells: payload byte lengths of 1-byte fields; residues mod 3, around the block sizes 1, 7, 64,
# and header bytes equal to the fallback parser's delimiters (10, 32, 34, 38, 60, 62, 95)
TARGET_N = [1, 2, 3, 4, 5, 6, 7, 8, 9, 10, 13, 14, 15, 16, 21, 22, 32, 34, 38, 60, 62, 63, 64, 65, 95, 127, 128, 129]


# ------------------------------------------------------------------------------------------------ generation
def rand_values(rng, vt, n):
    if vt.startswith("Float"):
        pool = F32 if vt == "Float32" else F64
        out = []
        for _ in range(n):
            if rng.random() < 0.5:
                out.append(rng.choice(pool))
            else:
                out.append(rng.randint(-4096, 4096) / 64.0)
        return out
    w = int(NP[vt][1])
    signed = NP[vt][0] == "i"
    lo, hi = (-(1 << (8 * w - 1)), (1 << (8 * w - 1)) - 1) if signed else (0, (1 << (8 * w)) - 1)
    out = []
    for _ in range(n):
        r = rng.random()
        if r < 0.35:
            out.append(rng.choice([lo, hi, 0, 1, hi - 1, lo + 1]))
        elif r < 0.5 and w == 1:
            out.append(rng.choice(SPECIAL) if not signed else rng.choice([0x3C, 0x26, 0x5F, 0x0A, 0x20]))
        else:
            out.append(rng.randint(max(lo, -1000), min(hi, 1000)))
    return out


def gen_fields(rng, n, kmax=3, one_byte_first=False):
    names = ["u", "vel", "sigma", "id", "T", "flag", "w8"]
    rng.shuffle(names)
    k = rng.randint(0, kmax)
    out = []
    for j in range(k):
        vt = rng.choice(TYPES)
        if one_byte_first and j == 0:
            vt = rng.choice(["UInt8", "Int8"])
        ncomp = rng.choice([1, 1, 1, 3, 9, 2]) if not (one_byte_first and j == 0) else 1
        out.append([names[j], vt, ncomp, rand_values(rng, vt, n * ncomp)])
    return out


def gen_points(rng, n, ct):
    pool = F32 if ct == "Float32" else F64
    return [[(rng.choice(pool) if rng.random() < 0.25 else rng.randint(-64, 64) / 8.0) for _ in range(3)] for _ in range(n)]


def gen_vtu(rng, npts=None, ncells=None):
    npts = npts if npts is not None else rng.choice(TARGET_N[:16] + [rng.randint(1, 12)])
    ncells = ncells if ncells is not None else rng.choice([0, 1, 2, 3, 5, 6, 7, 8, 9, 13])
    coord = rng.choice(["Float64", "Float32"])
    types = rng.sample([1, 3, 5, 8, 9, 10, 11, 12, 13, 14], rng.randint(1, 3))
    ragged = None
    if rng.random() < 0.2:
        types[0] = 7            # polygons in a .vtu: one corner count, or differing ones (then in patterns such as 4,3,5 whose
        if rng.random() < 0.6:  # first count is the mean of all counts)
            ragged = rng.choice([[4, 3, 5], [4, 5, 3], [5, 4, 6, 5], [3, 4], [4, 3], [4, 4, 3, 5], [6, 3, 3]])
    kpoly = rng.randint(3, 6)
    cells = []
    npoly = 0
    for _ in range(ncells):
        t = rng.choice(types)       # cells of different types interleaved in the file
        k = CELLS[t][1] or kpoly
        if t == 7 and ragged:
            k = ragged[npoly % len(ragged)]
            npoly += 1
        cells.append([t, [rng.randrange(npts) for _ in range(k)]])
    order = ["PointData", "CellData", "Points", "Cells"]
    rng.shuffle(order)
    return {"kind": "vtu", "coord_type": coord, "conn_type": rng.choice(["Int64", "Int32"]), "types_type": "UInt8",
            "points": gen_points(rng, npts, coord), "cells": cells,
            "pf": gen_fields(rng, npts, one_byte_first=True), "cf": gen_fields(rng, ncells, one_byte_first=True),
            "order": order}


def gen_vtp(rng):
    npts = rng.choice(TARGET_N[:14])
    coord = rng.choice(["Float64", "Float32"])
    groups = {}
    for key in rng.sample(list(POLY), rng.randint(1, 3)):
        cl = []
        for _ in range(rng.randint(0, 4)):
            k = {"Verts": rng.randint(1, 3), "Lines": rng.randint(2, 4), "Polys": rng.randint(3, 6), "Strips": rng.randint(3, 5)}[key]
            if rng.random() < 0.3:
                k = {"Verts": 1, "Lines": 2, "Polys": 3, "Strips": 3}[key]
            cl.append([rng.randrange(npts) for _ in range(k)])
        groups[key] = cl
    ncells = sum(len(v) for v in groups.values())
    order = ["PointData", "CellData", "Points", "Verts", "Lines", "Polys", "Strips"]
    rng.shuffle(order)
    return {"kind": "vtp", "coord_type": coord, "conn_type": rng.choice(["Int64", "Int32"]),
            "points": gen_points(rng, npts, coord), "groups": groups,
            "pf": gen_fields(rng, npts, one_byte_first=True), "cf": gen_fields(rng, ncells), "order": order}


def matrix_configs():
    out = []
    for ht in ("UInt32", "UInt64"):
        for bo in ("<", ">"):
            out.append(V.Cfg("ascii", None, 32768, ht, bo))
            for fmt in ("binary", "appended-base64", "appended-raw"):
                for hsep in ((False, True) if fmt != "appended-raw" else (False,)):
                    out.append(V.Cfg(fmt, None, 32768, ht, bo, hsep))
                for comp in ("zlib", "lz4", "lzma"):
                    for bs in BLOCK_SIZES:
                        out.append(V.Cfg(fmt, comp, bs, ht, bo))
    return out


def rand_cfg(rng):
    fmt = rng.choice(["ascii", "binary", "binary", "appended-base64", "appended-base64", "appended-raw", "appended-raw"])
    comp = rng.choice([None, None, "zlib", "lz4", "lzma"])
    bs = rng.choice(BLOCK_SIZES[:3] * 3 + [32768, 2, 3, 5, 63, 65])
    return V.Cfg(fmt, comp, bs, rng.choice(["UInt32", "UInt64"]), rng.choice(["<", ">"]), rng.random() < 0.5 and comp is None,
                 version=rng.choice(["1.0", "1.0", "0.1", "2.2", "2.0"]), omit_header_type=rng.random() < 0.3,
                 omit_scalar_ncomp=rng.random() < 0.3)


def rand_pair(rng):
    """a configuration and a data set whose 1-byte point / cell field has a payload length on a boundary of that
    configuration: block size (0, bs-1, bs, bs+1, 2bs, 2bs+1), every residue mod 3, or a header byte that is one of the
    fallback parser's delimiters"""
    cfg = rand_cfg(rng)
    r = rng.random()
    if r < 0.2:
        return cfg, gen_vtp(rng)
    if r < 0.26:
        return cfg, gen_vtu(rng, ncells=0)        # empty connectivity / offsets / types / cell data arrays
    if cfg.compressor and cfg.block_size <= 65:
        bs = cfg.block_size
        cand = [bs - 1, bs, bs + 1, 2 * bs, 2 * bs + 1]
    elif cfg.fmt == "appended-raw":
        cand = [10, 32, 34, 38, 60, 62, 95, 1, 2, 3]
    else:
        cand = TARGET_N
    a, b = rng.choice(cand), rng.choice(cand)
    npts = max(a, 1)
    ncells = b if b <= 40 or rng.random() < 0.3 else rng.choice([1, 2, 3, 4, 5, 6])
    ds = gen_vtu(rng, npts=npts, ncells=ncells)
    if cfg.fmt == "appended-raw":
        delimiter_bytes_at_the_edges(rng, ds)
    return cfg, ds


def delimiter_bytes_at_the_edges(rng, ds):
    """raw appended data: the first or the last array of the appended section is a UInt8 field whose first and last
    values are bytes the fallback locator of the reader searches for:  < > & _ " ' newline space"""
    n = len(ds["points"])
    vals = [rng.choice(SPECIAL) for _ in range(n)]
    head = rng.sample(SPECIAL, min(n, len(SPECIAL)))
    vals[:len(head)] = head
    tail = rng.sample(SPECIAL, min(n, 4))
    vals[n - len(tail):] = tail
    ds["pf"] = [f for f in ds["pf"] if f[0] != "edge"]
    order = [x for x in ds["order"] if x != "PointData"]
    if rng.random() < 0.5:
        ds["pf"].insert(0, ["edge", "UInt8", 1, vals])
        ds["order"] = ["PointData"] + order
    else:
        ds["pf"].append(["edge", "UInt8", 1, vals])
        ds["order"] = order + ["PointData"]
    ds["edge"] = True


# ------------------------------------------------------------------------------------------------ files
def build_file(path, ds, cfg):
    """-> (file bytes, writer).  Sections (and with them the appended offsets) follow ds['order']."""
    w = V.Writer(cfg)
    parts = []
    pts_flat = [x for p in ds["points"] for x in p]
    if ds["kind"] == "vtu":
        conn, offs, types = [], [], []
        for t, c in ds["cells"]:
            conn += list(c)
            offs.append(len(conn))
            types.append(t)
        for sec in ds["order"]:
            if sec == "PointData":
                parts.append(V._fields_xml(w, "PointData", [tuple(f) for f in ds["pf"]]))
            elif sec == "CellData":
                parts.append(V._fields_xml(w, "CellData", [tuple(f) for f in ds["cf"]]))
            elif sec == "Points":
                parts.append("      <Points>\n" + w.data_array("Points", ds["coord_type"], 3, pts_flat) + "      </Points>\n")
            elif sec == "Cells":
                parts.append("      <Cells>\n" + w.data_array("connectivity", ds["conn_type"], 1, conn)
                             + w.data_array("offsets", ds["conn_type"], 1, offs)
                             + w.data_array("types", ds["types_type"], 1, types) + "      </Cells>\n")
        body = (f'  <UnstructuredGrid>\n    <Piece NumberOfPoints="{len(ds["points"])}" NumberOfCells="{len(ds["cells"])}">\n'
                + "".join(parts) + "    </Piece>\n  </UnstructuredGrid>\n")
        return V._finish(path, w, "UnstructuredGrid", body), w
    attr = {"Verts": "NumberOfVerts", "Lines": "NumberOfLines", "Polys": "NumberOfPolys", "Strips": "NumberOfStrips"}
    counts = " ".join(f'{attr[k]}="{len(ds["groups"].get(k, []))}"' for k in attr)
    for sec in ds["order"]:
        if sec == "PointData":
            parts.append(V._fields_xml(w, "PointData", [tuple(f) for f in ds["pf"]]))
        elif sec == "CellData":
            parts.append(V._fields_xml(w, "CellData", [tuple(f) for f in ds["cf"]]))
        elif sec == "Points":
            parts.append("      <Points>\n" + w.data_array("Points", ds["coord_type"], 3, pts_flat) + "      </Points>\n")
        elif sec in ds["groups"]:
            conn, offs = [], []
            for c in ds["groups"][sec]:
                conn += list(c)
                offs.append(len(conn))
            parts.append(f"      <{sec}>\n" + w.data_array("connectivity", ds["conn_type"], 1, conn)
                         + w.data_array("offsets", ds["conn_type"], 1, offs) + f"      </{sec}>\n")
    body = f'  <PolyData>\n    <Piece NumberOfPoints="{len(ds["points"])}" {counts}>\n' + "".join(parts) + "    </Piece>\n  </PolyData>\n"
    return V._finish(path, w, "PolyData", body), w


# ------------------------------------------------------------------------------------------------ oracle
def logical(ds):
    """the logical content of the data set, as the statement describes it"""
    cells = {}
    cell_index = {}
    if ds["kind"] == "vtu":
        for i, (t, c) in enumerate(ds["cells"]):
            cells.setdefault(t, []).append(list(c))
            cell_index.setdefault(t, []).append(i)
    else:
        i = 0
        for key in ("Verts", "Lines", "Polys", "Strips"):
            for c in ds["groups"].get(key, []):
                t = POLY[key][0]
                cells.setdefault(t, []).append(list(c))
                cell_index.setdefault(t, []).append(i)
                i += 1
    pf = {}
    for name, vt, nc, vals in ds["pf"]:
        a = np.array(vals, dtype=NP[vt])
        pf[name] = a if nc <= 1 else a.reshape(-1, nc)
    cf = {}
    for name, vt, nc, vals in ds["cf"]:
        a = np.array(vals, dtype=NP[vt])
        a = a if nc <= 1 else a.reshape(-1, nc)
        cf[name] = {t: a[idx] for t, idx in cell_index.items()}
    pts = np.array(ds["points"], dtype=NP[ds["coord_type"]]).reshape(-1, 3)
    return {"points": pts, "cells": cells, "pf": pf, "cf": cf}


def same_array(got, exp):
    got = np.asarray(got)
    if got.dtype.kind != exp.dtype.kind or got.dtype.itemsize != exp.dtype.itemsize:
        return f"dtype {got.dtype} instead of {exp.dtype}"
    if got.shape != exp.shape:
        return f"shape {got.shape} instead of {exp.shape}"
    if got.astype(exp.dtype, copy=False).tobytes() != exp.tobytes():
        return "values differ"
    return None


def read_impl(path):
    from fieldcompare.io import read_field_data
    with warnings.catch_warnings():
        warnings.simplefilter("ignore")
        try:
            fd = read_field_data(path)
            dom = fd.domain
            out = {"points": np.asarray(dom.points), "cells": {}, "pf": {}, "cf": {}}
            for ct in dom.cell_types:
                conn = dom.connectivity(ct)
                out["cells"][ct.id] = [[int(x) for x in row] for row in conn]
            for f in fd.point_fields:
                out["pf"][f.name] = f.values
            for f, ct in fd.cell_fields_types:
                base, _, ann = f.name.rpartition(" @ ")
                out["cf"].setdefault(base if base else f.name, {})[ct.id] = (f.values, ann)
            return out
        except Exception as e:   # noqa: BLE001
            return {"error": f"{type(e).__name__}: {e}"}


def compare(ds, got):
    """list of deviations of the implementation's result from the logical content"""
    if "error" in got:
        return ["reading raised " + got["error"]]
    L = logical(ds)
    bad = []
    r = same_array(got["points"], L["points"])
    if r:
        bad.append("points: " + r)
    if got["cells"] != L["cells"]:
        bad.append(f"cells per type {got['cells']} instead of {L['cells']}")
    if sorted(got["pf"]) != sorted(L["pf"]):
        bad.append(f"point field names {sorted(got['pf'])} instead of {sorted(L['pf'])}")
    for name, exp in L["pf"].items():
        if name in got["pf"]:
            r = same_array(got["pf"][name], exp)
            if r:
                bad.append(f"point field {name}: {r}")
    want_cf = sorted(n for n in L["cf"] if L["cells"])
    if sorted(got["cf"]) != want_cf:
        bad.append(f"cell field names {sorted(got['cf'])} instead of {want_cf}")
    for name, per in L["cf"].items():
        for t, exp in per.items():
            g = got["cf"].get(name, {}).get(t)
            if g is None:
                bad.append(f"cell field {name} missing for cell type {t}")
                continue
            tn = CELLS[t][0] if t in CELLS else {v[0]: v[1] for v in POLY.values()}[t]
            if g[1] != tn:
                bad.append(f"cell field {name}: annotated {g[1]!r} instead of {tn!r}")
            r = same_array(g[0], exp)
            if r:
                bad.append(f"cell field {name} on type {t}: {r}")
    return bad


# ------------------------------------------------------------------------------------------------ model side
def _decomp(name, block, bs):
    if name == "zlib":
        return zlib.decompress(block)
    if name == "lzma":
        return lzma.decompress(block)
    import lz4.block
    return lz4.block.decompress(block, uncompressed_size=bs)


def reader_view(cfg, w):
    """the byte strings the reader hands to get_decompressed_data: (appendix as seen by the reader, [(record, placement)])"""
    if cfg.fmt == "appended-base64":
        app = w.appended                      # elem.text.strip("_ \n")
    elif cfg.fmt == "appended-raw":
        app = w.appended + b"\n  "            # content[app_begin:app_end] of the fallback locator
    else:
        app = b""
    return app, [(r, ("inline", r["text"]) if r["fmt"] == "binary" else ("appended", r["offset"])) for r in w.records]


def decompress_table(cfg, w):
    tbl = {}
    if cfg.compressor:
        for r in w.records:
            p = r["payload"]
            for i in range(0, len(p), cfg.block_size):
                c = V._compress(cfg.compressor, p[i:i + cfg.block_size])
                tbl[c] = _decomp(cfg.compressor, c, cfg.block_size)     # the real library is the oracle
    return tbl


def header():
    return HEADER.replace("EMPTY_OK", EMPTY_OK)


def coq_cfg(cfg):
    return (lib.cbool(cfg.compressor is not None), "LE" if cfg.byte_order == "<" else "BE",
            "H32" if cfg.header_type == "UInt32" else "H64", "Raw" if cfg.fmt == "appended-raw" else "B64")


def hx(b):
    """Gallina term for a byte string (seven bytes per primitive integer)"""
    b = bytes(b)
    if not b:
        return "(ub 0 (@nil int))"
    ints = [str(int.from_bytes(b[i:i + 7], "little")) for i in range(0, len(b), 7)]
    return f"(ub {len(b)} [{';'.join(ints)}]%uint63)"


def model_expr(cfg, app, tbl, arrays, fn="rdfile"):
    """arrays: list of (placement, expected bytes | None)"""
    comp, bo, h, e = coq_cfg(cfg)
    t = lib.clist([f"({hx(k)}, {hx(v)})" for k, v in tbl.items()], "(bytes * bytes)")
    arr = []
    for pl, exp in arrays:
        p = f"Inline {hx(pl[1])}" if pl[0] == "inline" else f"Appended {pl[1]}"
        arr.append(f"({p}, {'None' if exp is None else '(Some ' + hx(exp) + ')'})")
    return f"{fn} {t} {comp} {bo} {h} {e} {hx(app)} {lib.clist(arr, '(placement * option bytes)')}"


def lowlevel_impl(cfg, app, pl):
    """refinement tie: the implementation's Compressor.get_decompressed_data on the same bytes"""
    try:
        comps = importlib.import_module("fieldcompare.io.vtk._compressors")
        encs = importlib.import_module("fieldcompare.io.vtk._encoders")
        cname = {None: "NoCompressor", "zlib": "ZLIBCompressor", "lz4": "LZ4Compressor", "lzma": "LZMACompressor"}[cfg.compressor]
        C = getattr(comps, cname)
        enc = getattr(encs, "NoEncoder" if cfg.fmt == "appended-raw" else "Base64Encoder")()
    except (ImportError, AttributeError):
        return "skipped"
    ht = np.dtype(("<" if cfg.byte_order == "<" else ">") + ("u4" if cfg.header_type == "UInt32" else "u8"))
    data = pl[1] if pl[0] == "inline" else app[pl[1]:]
    try:
        with warnings.catch_warnings():
            warnings.simplefilter("ignore")
            return bytes(C(header_type=ht).get_decompressed_data(data, enc))
    except Exception:   # noqa: BLE001
        return None


# ------------------------------------------------------------------------------------------------ T1 / b64 ties
def t1_encoded_bytes(ctx):
    try:
        enc = getattr(importlib.import_module("fieldcompare.io.vtk._encoders"), "Base64Encoder")()
    except (ImportError, AttributeError):
        ctx.notes.append("refinement tie skipped: Base64Encoder not found")
        return
    rows = [(n, int(enc.encoded_bytes(n))) for n in range(0, 4097)]
    src = ("From Coq Require Import NArith List Bool.\nFrom FC Require Import Model.Codec.\nImport ListNotations.\n"
           "Local Open Scope N_scope.\nDefinition table : list (N * N) := [" + "; ".join(f"({a},{b})" for a, b in rows) + "].\n"
           "Lemma encoded_bytes_matches_table : forallb (fun r => encoded_bytes B64 (fst r) =? snd r) table = true.\n"
           "Proof. vm_compute. reflexivity. Qed.\n")
    ok = ctx.table_lemma("C05_encoded_bytes_table", src)
    ctx.tie("T1 Base64Encoder.encoded_bytes rows", len(rows))
    if not ok:
        for n, v in rows:
            if v != -(-n // 3) * 4:
                ctx.violation("E1", f"Base64Encoder.encoded_bytes({n}) = {v}, the model says {-(-n // 3) * 4}", {"n": n}, found_input=False)
                break


def b64_tie(ctx, n):
    """Base64Encoder.decode (CPython's lenient decoder) vs Model.Codec.b64dec on random and adversarial strings"""
    try:
        enc = getattr(importlib.import_module("fieldcompare.io.vtk._encoders"), "Base64Encoder")()
    except (ImportError, AttributeError):
        ctx.notes.append("refinement tie skipped: Base64Encoder not found")
        return
    rng = ctx.rng
    alpha = b"ABCDEFGHIJKLMNOPQRSTUVWXYZabcdefghijklmnopqrstuvwxyz0123456789+/"
    cases = []
    for _ in range(n):
        r = rng.random()
        if r < 0.3:
            s = bytes(rng.choice(alpha + b"====\n _-") for _ in range(rng.randint(0, 14)))
        elif r < 0.75:
            s = b"".join(base64.b64encode(bytes(rng.randrange(256) for _ in range(rng.randint(0, 7)))) for _ in range(rng.randint(1, 3)))
            s = bytearray(s)
            for _ in range(rng.randint(0, 2)):
                if s:
                    j = rng.randrange(len(s))
                    q = rng.random()
                    if q < 0.3:
                        del s[j]
                    elif q < 0.6:
                        s.insert(j, rng.choice(b"=\n\xff A_"))
                    else:
                        s[j] = rng.choice(alpha + b"=")
            if rng.random() < 0.3:
                s = s[:rng.randint(0, len(s))]
            s = bytes(s)
        else:
            s = bytes(rng.choice(b"AQ=z/") for _ in range(rng.randint(0, 10)))
        try:
            d = bytes(enc.decode(s))
        except Exception:   # noqa: BLE001
            d = None
        cases.append((s, d))
    exprs = [f"opt_bytes_eqb (b64dec {hx(s)}) ({'None' if d is None else 'Some ' + hx(d)})" for s, d in cases]
    vals = ctx.coq_eval(header(), exprs, shard=800, name="c05b64")
    for (s, d), v in zip(cases, vals):
        ctx.tie("refinement Base64Encoder.decode vs b64dec")
        if v is not True:
            ctx.violation("E2", f"b64dec model != Base64Encoder.decode on {s!r} (implementation: {d!r})", {"b64": s.hex()}, found_input=False)
    ctx.count("b64:undecodable strings", sum(1 for _, d in cases if d is None))
    ctx.count("b64:decodable strings", sum(1 for _, d in cases if d is not None))


# ------------------------------------------------------------------------------------------------ one case
# Model.Codec.read_compressed has a switch for the one place where the pinned code is known to deviate from the statement
# (finding F-C05a, np.concatenate([]) for zero blocks): "false" = the code as it is.  Set to "true" once /repo returns b""
# for a header with zero blocks (and use C05_full_statement_after_repair as the property theorem).
EMPTY_OK = os.environ.get("VERIF_C05_EMPTY_OK", "true")       # F-C05a is repaired in /repo (a3381ee): empty compressed arrays are readable
WHAT_EMPTY = ("F-C05a: a compressed file with an empty data array (zero blocks, e.g. a mesh without cells) cannot be read "
              "(ValueError from np.concatenate([])); the same data set reads fine uncompressed or as ascii")
WHAT_POLY_RAISE = ("F-C05b: vtu with POLYGON cells of different corner counts: reading raises IndexError "
                   "(every cell of a type is assumed to have as many corners as the first one)")
WHAT_POLY_TRUNC = ("F-C05b: vtu with POLYGON cells of different corner counts: connectivity silently wrong "
                   "(every cell of a type is read with the corner count of the first one)")
COQ_LIMIT = 16000       # bytes (appendix + inline texts + table) handed to the model per file


def run_case(ctx, ds, cfg, idx, pending, with_model=True):
    path = os.path.join(str(ctx.workdir), f"f{idx}.{ds['kind']}")
    data, w = build_file(path, ds, cfg)
    got = read_impl(path)
    os.unlink(path)
    bad = compare(ds, got)
    sizes = sorted({len(r["payload"]) for r in w.records})
    case = {"cfg": cfg.as_dict(), "ds": ds}
    n_arrays = len(w.records)
    nontrivial = cfg.fmt != "ascii" and n_arrays >= 2
    digest = hashlib.sha1(data).hexdigest()
    ctx.case({"file": digest}, nontrivial,
             sample={"cfg": cfg.key(), "kind": ds["kind"], "points": len(ds["points"]), "arrays": n_arrays,
                     "payload_bytes": sizes, "result": "as expected" if not bad else bad[:2]})
    ctx.count(f"fmt:{cfg.fmt}")
    ctx.count(f"compressor:{cfg.compressor}")
    if cfg.compressor:
        ctx.count(f"block_size:{cfg.block_size}")
    ctx.count(f"header:{cfg.header_type}/{'LE' if cfg.byte_order == '<' else 'BE'}")
    ctx.count(f"kind:{ds['kind']}")
    if ds.get("edge") and cfg.fmt == "appended-raw":
        ctx.count("raw appended section begins or ends with delimiter bytes (< > & _ quotes newline space)")
    if cfg.fmt != "ascii":
        for r in w.records:
            n = len(r["payload"])
            ctx.count(f"payload mod 3 = {n % 3}")
            if cfg.compressor:
                bs = cfg.block_size
                for tag, v in (("0", 0), ("bs-1", bs - 1), ("bs", bs), ("bs+1", bs + 1), ("2bs", 2 * bs), ("2bs+1", 2 * bs + 1)):
                    if n == v:
                        ctx.count(f"payload = {tag} (bs={bs})")
    if bad:
        empty_compressed = cfg.compressor is not None and cfg.fmt != "ascii" and any(len(r["payload"]) == 0 for r in w.records)
        what = (WHAT_EMPTY if empty_compressed and bad[0].startswith("reading raised ValueError") else
                "file content differs from the logical data set: " + "; ".join(bad)[:300])
        ctx.violation("E4", what, case, impl=bad, cfg=cfg.key())
    ctx.traces_validated += 1
    if cfg.fmt == "ascii" or not with_model:
        return
    app, arrays = reader_view(cfg, w)
    tbl = decompress_table(cfg, w)
    volume = len(app) + sum(len(pl[1]) for _, pl in arrays if pl[0] == "inline") + sum(len(k) + len(v) for k, v in tbl.items())
    if volume > COQ_LIMIT:
        ctx.count("model: file too large, not evaluated")
        return
    low = [lowlevel_impl(cfg, app, pl) for _, pl in arrays]
    if any(isinstance(x, str) for x in low):
        ctx.notes.append("refinement tie skipped: Compressor classes not found") if "skipnote" not in ctx.extra else None
        ctx.extra["skipnote"] = True
        low = [r["payload"] for r, _ in arrays]
    else:
        ctx.tie("refinement get_decompressed_data vs read_data_array", len(low))
    pending.append({"cfg": cfg, "app": app, "tbl": tbl, "arrays": [(pl, lo) for (_, pl), lo in zip(arrays, low)],
                    "payloads": [r["payload"] for r, _ in arrays], "names": [r["name"] for r, _ in arrays],
                    "metas": [(r["name"], r["vtk_type"], r["ncomp"]) for r, _ in arrays], "case": case})


def values_tie(ctx, src, n):
    """np.frombuffer(payload, dtype.newbyteorder(bo)) + reshape(NumberOfComponents) vs Model.Codec.decode_values / reshape:
    integers as values, floats as bit patterns"""
    rng = ctx.rng
    todo = []
    pool = [p for p in src if not p.get("damaged")]
    rng.shuffle(pool)
    for p in pool:
        for payload, meta in zip(p["payloads"], p["metas"]):
            if len(todo) < n and 0 < len(payload) <= 200 and rng.random() < 0.5:
                todo.append((p["cfg"], payload, meta))
    exprs, want = [], []
    for cfg, payload, (name, vt, nc) in todo:
        dt = np.dtype(NP[vt]).newbyteorder(cfg.byte_order)
        vals = np.frombuffer(payload, dt)
        if nc > 1:
            vals = vals.reshape(int(len(vals) / nc), nc)
        as_int = vals.astype(vals.dtype.newbyteorder("=")).view(("u" if vt.startswith("Float") else NP[vt][0]) + NP[vt][1])
        want.append([[int(x)] for x in as_int] if nc <= 1 else [[int(x) for x in row] for row in as_int])
        ty = ("VFloat" if vt.startswith("Float") else "VInt" if NP[vt][0] == "i" else "VUInt") + f" {NP[vt][1]}"
        bo = "LE" if cfg.byte_order == "<" else "BE"
        exprs.append(f"match decode_values {bo} ({ty}) {hx(payload)} with Some v => reshape {nc} v | None => None end")
    vals = ctx.coq_eval(header(), exprs, shard=40, name="c05vals")
    for (cfg, payload, meta), w, v in zip(todo, want, vals):
        got = None if v == "None" else [list(r) for r in v[1]]
        ctx.tie("T2 decode_values/reshape = np.frombuffer/reshape")
        if got != w:
            ctx.violation("E2", f"values of {meta} ({cfg.key()}): model {str(got)[:80]} != numpy {str(w)[:80]}", {"payload": payload.hex(), "meta": meta},
                          found_input=False)


def damaged_ties(ctx, pending_src, n):
    """array-level strings cut short (NoCompressor only: no external oracle involved): model and implementation must
    agree on the result, error or not"""
    rng = ctx.rng
    out = []
    src = [p for p in pending_src if p["cfg"].compressor is None]
    rng.shuffle(src)
    for p in src[:n]:
        cfg, app = p["cfg"], p["app"]
        k = rng.randrange(len(p["arrays"]))
        pl = p["arrays"][k][0]
        if pl[0] == "inline":
            cut = rng.randint(0, len(pl[1]))
            pl2, app2 = ("inline", pl[1][:cut]), app
        else:
            seg_end = len(app)
            cut = rng.randint(pl[1], min(seg_end, pl[1] + 40 + len(p["payloads"][k]) * 2))
            pl2, app2 = pl, app[:cut]
        low = lowlevel_impl(cfg, app2, pl2)
        if isinstance(low, str):
            return
        out.append({"cfg": cfg, "app": app2, "tbl": {}, "arrays": [(pl2, low)], "payloads": [p["payloads"][k]],
                    "names": [p["names"][k]], "metas": [p["metas"][k]], "case": {"damaged": True, "cfg": cfg.as_dict(), "cut": cut}, "damaged": True})
    return out


def flush_model(ctx, pending):
    if not pending:
        return
    exprs = [model_expr(p["cfg"], p["app"], p["tbl"], p["arrays"]) for p in pending]
    vals = ctx.coq_eval(header(), exprs, shard=max(8, min(60, len(exprs) // 12 + 1)), name="c05")
    redo = []
    for p, v in zip(pending, vals):
        if all(x is True for x in v):
            ctx.tie("T2 model = implementation (arrays)" if not p.get("damaged") else "T2 model = implementation (truncated arrays)", len(v))
            continue
        redo.append(p)
    if redo:
        vals = ctx.coq_eval(header(), [model_expr(p["cfg"], p["app"], p["tbl"], p["arrays"], fn="rdfile_val") for p in redo], shard=60, name="c05v")
        for p, v in zip(redo, vals):
            for (pl, low), mv, name, payload in zip(p["arrays"], v, p["names"], p["payloads"]):
                mb = None if mv == "None" else bytes(mv[1])
                if mb != low:
                    ctx.violation("E2", f"array {name!r} ({p['cfg'].key()}): model decodes {None if mb is None else mb.hex()[:60]}, "
                                  f"implementation {None if low is None else low.hex()[:60]}, payload {payload.hex()[:60]}",
                                  p["case"], found_input=False)


# ------------------------------------------------------------------------------------------------ side streams
def polygon_stream(ctx, n):
    """polygons of different sizes in a .vtu (valid VTK; the same logical content is read correctly from a .vtp)"""
    rng = ctx.rng
    fixed_pts = [[0.0, 0.0, 0.0], [1.0, 0.0, 0.0], [1.0, 1.0, 0.0], [0.0, 1.0, 0.0], [2.0, 0.0, 0.0], [2.0, 1.0, 0.0]]
    fixed = [[[7, [0, 1, 2, 3]], [7, [1, 4, 5]]], [[7, [1, 4, 5]], [7, [0, 1, 2, 3]]]]
    for i in range(n + len(fixed)):
        if i < len(fixed):
            pts, cells = fixed_pts, fixed[i]
        else:
            npts = rng.randint(4, 9)
            pts = gen_points(rng, npts, "Float64")
            cells = [[7, [rng.randrange(npts) for _ in range(rng.choice([3, 4, 5]))]] for _ in range(rng.randint(2, 4))]
            if len({len(c[1]) for c in cells}) == 1:
                cells[0][1].append(0)
            if rng.random() < 0.4:
                cells.insert(rng.randrange(len(cells) + 1), [5, [0, 1, 2]])       # plus a cell of another type
        ds = {"kind": "vtu", "coord_type": "Float64", "conn_type": "Int64", "types_type": "UInt8",
              "points": pts, "cells": cells, "pf": [], "cf": [["c", "Int32", 1, list(range(len(cells)))]],
              "order": ["PointData", "CellData", "Points", "Cells"]}
        cfg = V.Cfg("ascii" if i < len(fixed) else rng.choice(["ascii", "binary"]))
        path = os.path.join(str(ctx.workdir), f"poly{i}.vtu")
        build_file(path, ds, cfg)
        got = read_impl(path)
        os.unlink(path)
        bad = compare(ds, got)
        ctx.case({"polygons": cells}, True)
        ctx.count("stream:vtu polygons of different sizes")
        if bad:
            what = WHAT_POLY_RAISE if bad[0].startswith("reading raised IndexError") else (
                WHAT_POLY_TRUNC if bad[0].startswith("cells per type") else "vtu with polygons of different sizes: " + "; ".join(bad)[:200])
            ctx.violation("E4", what, {"cfg": cfg.as_dict(), "ds": ds}, impl=bad, cfg=cfg.key())


def large_block_stream(ctx, quick):
    """payload lengths around the default block size 32768 (too large for the model; implementation vs oracle only)"""
    rng = ctx.rng
    bs = 32768
    lengths = [bs - 1, bs, bs + 1, 2 * bs, 2 * bs + 1]
    idx = 100000
    for n in lengths:
        ds = {"kind": "vtu", "coord_type": "Float32", "conn_type": "Int32", "types_type": "UInt8",
              "points": [[float(i % 17), float(i % 5), 0.0] for i in range(n)], "cells": [[1, [0]], [1, [n - 1]]],
              "pf": [["b", "UInt8", 1, [(i * 7 + 3) % 256 for i in range(n)]]], "cf": [["c", "Float64", 1, [1.0, -0.0]]],
              "order": ["PointData", "CellData", "Points", "Cells"]}
        combos = [(c, f) for c in ("zlib", "lz4", "lzma") for f in ("binary", "appended-base64", "appended-raw")]
        if quick:
            combos = rng.sample(combos, 3)
        for comp, fmt in combos:
            if too_many(ctx):
                return
            cfg = V.Cfg(fmt, comp, bs, rng.choice(["UInt32", "UInt64"]), rng.choice(["<", ">"]))
            run_case(ctx, ds, cfg, idx, [], with_model=False)
            idx += 1


# ------------------------------------------------------------------------------------------------ driver
def guard_resources():
    """a reader that misinterprets a header may ask numpy for gigabytes; keep such a run from exhausting the machine:
    allocations beyond the limit fail with MemoryError, which is reported like any other exception"""
    import resource
    lim = 6 * 1024 ** 3
    soft, hard = resource.getrlimit(resource.RLIMIT_AS)
    if hard == resource.RLIM_INFINITY or hard > lim:
        resource.setrlimit(resource.RLIMIT_AS, (lim, hard))


def too_many(ctx):
    """stop generating once the run has failed massively (the check fails anyway; bounds the run time)"""
    n = sum(1 for v in ctx.violations if not v["what"].startswith("F-C"))
    if n > 250:
        if not ctx.extra.get("stopped_early"):
            ctx.extra["stopped_early"] = True
            ctx.notes.append("generation stopped early: more than 250 unexpected deviations")
        return True
    return False


def run(ctx):
    guard_resources()
    ctx.prove()
    t1_encoded_bytes(ctx)
    quick = ctx.tier == "quick"
    rng = ctx.rng
    b64_tie(ctx, 1500 if quick else 20000)
    pending = []
    idx = 0
    # (0) corpus: minimised past failures, always first
    import glob
    import json
    for f in sorted(glob.glob(str(lib.VERIF / "corpus" / "C05" / "*.json"))):
        c = json.load(open(f)).get("case") or {}
        if "ds" in c and "cfg" in c:
            ctx.count("stream:corpus")
            if c["ds"]["kind"] == "vtu" and any(t == 7 for t, _ in c["ds"]["cells"]) and len({len(k) for t, k in c["ds"]["cells"] if t == 7}) > 1:
                continue                      # the polygon corpus cases are part of polygon_stream (same description)
            run_case(ctx, c["ds"], V.Cfg(**c["cfg"]), 900000 + idx, pending)
            idx += 1
    # (a) the full configuration matrix on a few data sets
    n_matrix = 4 if quick else 40
    cfgs = matrix_configs()
    ctx.extra["matrix_configurations"] = len(cfgs)
    for k in range(n_matrix):
        if k == 0:
            ds = gen_vtu(rng, npts=7, ncells=8)
        elif k == 1:
            ds = gen_vtp(rng)
        elif k == 2:
            ds = gen_vtu(rng, npts=64, ncells=15)
        else:
            ds = gen_vtu(rng, npts=rng.choice(TARGET_N), ncells=rng.choice(TARGET_N[:20])) if rng.random() < 0.7 else gen_vtp(rng)
        for cfg in cfgs:
            if too_many(ctx):
                break
            run_case(ctx, ds, cfg, idx, pending)
            idx += 1
    tail = pending[-300:]
    flush_model(ctx, pending)
    pending = []
    # (b) random (configuration, data set) pairs with array lengths on the boundaries of the configuration
    n_rand = 1300 if quick else 32000
    for k in range(n_rand):
        if too_many(ctx):
            break
        cfg, ds = rand_pair(rng)
        run_case(ctx, ds, cfg, idx, pending)
        idx += 1
        if len(pending) >= 1500:
            tail = pending[-300:]
            flush_model(ctx, pending)
            pending = []
    tail = (tail + pending)[-500:]
    dmg = damaged_ties(ctx, tail, 200 if quick else 3000) or []
    values_tie(ctx, tail, 150 if quick else 2000)
    flush_model(ctx, pending + dmg)
    # (c) side streams
    large_block_stream(ctx, quick)
    polygon_stream(ctx, 6 if quick else 60)
    ctx.rule = ("logical data sets (vtu with 1-3 interleaved cell types, vtp with polygons of varying size; all ten value types; "
                "extreme finite values; array lengths around base64 padding and block boundaries) x the full matrix format x "
                "compressor x block size x header type x byte order x header placement, plus random pairs. "
                "non-trivial = binary or appended payload with at least 2 arrays (distinct file contents are counted)")
    return ctx.finish(
        assumptions=["expat and the raw-appendix locator are exercised, not modelled", "zlib / lzma / lz4 are oracles (per-file lookup tables; "
                     "section variables compress/decompress in the theorems)", "ascii number parsing/printing is an oracle (numpy, repr)",
                     "header values fit the header type (sizes < 2^32 resp. 2^64)"],
        trusted=["harness/c05.py, harness/vtkenc.py (independent encoder written from the VTK file format)",
                 "CPython base64 (modelled and compared on every run), numpy frombuffer/reshape"])


def replay(pid, rec):
    import tempfile
    c = rec.get("case") or {}
    if "ds" not in c:
        print("no data set in this replay:", rec.get("what"))
        return False
    d = tempfile.mkdtemp(dir=str(lib.WORK))
    cfg = V.Cfg(**c["cfg"])
    path = os.path.join(d, "replay." + c["ds"]["kind"])
    build_file(path, c["ds"], cfg)
    got = read_impl(path)
    bad = compare(c["ds"], got)
    os.unlink(path)
    os.rmdir(d)
    print("configuration:", cfg.key())
    print("implementation:", got.get("error", "read ok"), "| deviations from the logical content:", bad or "none")
    return not bad
