"""Checks of the predicate family: C01 (tolerance formula), C09 (exact int/str), C10 (laws).

Tie to /repo:  T1 tables (shape compatibility, has_floats dispatch, default eps) evaluated exhaustively on the
running implementation and proved equal to the model inside Coq;  T2 differential runs of
fieldcompare.predicates.{FuzzyEquality,DefaultEquality,ExactEquality,ScaledTolerance} against the Gallina
model (`vm_compute`), on an exact-arithmetic stream (every floating-point operation of the implementation is
exact, checked per case) and a bit-exact binary64 stream (PrimFloat kernel).
Oracle: the property statement re-implemented with fractions.Fraction.
"""
from __future__ import annotations

import itertools
import json
import math
from fractions import Fraction as Fr

import numpy as np

from . import lib
from .lib import cq, cz, cnat, clist, cstr

HEADER = """From Coq Require Import String.
From Coq Require Import QArith ZArith List Bool PrimFloat.
From FC Require Import Model.Scalar Model.Predicates.
Import ListNotations.
Definition A (k : dkind) (s : list nat) (d : list scalar) : arr := {| kind := k; shape := s; data := d |}.
Definition F (m e : Z) : scalar := SF (dy m e).
Definition qout (q : Q) : Z * Z := let r := Qred q in (Qnum r, Zpos (Qden r)).
Definition enc (r : res) : Z := match r with Ok true => 1 | Ok false => 0 | Err => 2 end.
"""

FLOAT_DT = {"float64": "KF64", "float32": "KF32"}
INT_DT = {f"{'u' if not s else ''}int{w}": (w, s) for w in (8, 16, 32, 64) for s in (True, False)}


# ------------------------------------------------------------------------------------------------
# case <-> numpy / Coq / oracle
# ------------------------------------------------------------------------------------------------
def kind_of(dt: str) -> str:
    if dt in FLOAT_DT:
        return FLOAT_DT[dt]
    if dt in INT_DT:
        w, s = INT_DT[dt]
        return f"(KInt {w} {'true' if s else 'false'})"
    return "KStr"


def np_array(a):
    dt = a["dtype"]
    if dt == "str":
        arr = np.array([str(v) for v in a["vals"]], dtype=str) if a["vals"] else np.array([], dtype="U1")
    elif dt in FLOAT_DT:
        arr = np.array([float(v) for v in a["vals"]], dtype=dt)
    else:
        arr = np.array([int(v) for v in a["vals"]], dtype=dt)
    return with_memory_layout(arr.reshape(a["shape"]))


def with_memory_layout(arr):
    """the same array (equal shape, dtype and values) in one of several memory layouts, chosen by a checksum of its content:
    C order, Fortran order, a strided view, a reversed-then-reversed view (negative strides), a transposed copy, non-native
    byte order"""
    if arr.ndim == 0 or arr.size == 0 or arr.dtype.kind in "US":
        return arr
    import zlib
    k = zlib.crc32(arr.tobytes() + str(arr.shape).encode()) % 8
    if k == 6:
        arr = arr.copy()
        arr.setflags(write=False)        # a write-protected array (as numpy hands out for data read from a binary file)
        return arr
    if k == 5 and arr.dtype.itemsize > 1:
        return arr.astype(arr.dtype.newbyteorder())      # same values, non-native byte order (as read from a big-endian file)
    if k == 1 and arr.ndim >= 2:
        return np.asfortranarray(arr)
    if k == 2:
        big = np.zeros((2 * arr.shape[0] + 1, *arr.shape[1:]), dtype=arr.dtype)
        big[1::2] = arr
        return big[1::2]
    if k == 3:
        return np.ascontiguousarray(arr[::-1])[::-1]
    if k == 4 and arr.ndim >= 2:
        return np.ascontiguousarray(arr.T).T
    return arr


def coq_scalar(dt, v):
    if dt == "str":
        return f"(SS {cstr(v)})"
    if dt in FLOAT_DT:
        m, e = lib.frac_to_dy(Fr(v))
        return f"(F {cz(m)} {cz(e)})"
    return f"(SI {cz(int(v))})"


def coq_arr(a):
    return (f"(A {kind_of(a['dtype'])} {clist([cnat(x) for x in a['shape']], 'nat')} "
            f"{clist([coq_scalar(a['dtype'], v) for v in a['vals']], 'scalar')})")


def coq_tol(t, which="rel"):
    k = t[0]
    if k == "num":
        return f"(TNum {cq(t[1])})"
    if k == "comp":
        return f"(TComp {clist([cq(x) for x in t[1]], 'Q')})"
    if k == "scaled":
        return f"(TScaled {cq(t[1])})"
    if k == "scaledcomp":
        return f"(TScaledComp {cq(t[1])})"
    return "TDefault" if which == "rel" else "(TNum 0)"   # the default absolute tolerance is the number 0.0


def coq_expr(c):
    if c["pred"] == "exact":
        return f"enc (exact_eq {coq_arr(c['a'])} {coq_arr(c['b'])})"
    f = "fuzzy_eq" if c["pred"] == "fuzzy" else "default_eq"
    return f"enc ({f} {coq_tol(c['rel'])} {coq_tol(c['abs'], 'abs')} {coq_arr(c['a'])} {coq_arr(c['b'])})"


def py_tol(t, shape_tail):
    from fieldcompare.predicates import ScaledTolerance

    k = t[0]
    if k == "num":
        return float(t[1])
    if k == "comp":
        arr = np.array([float(x) for x in t[1]], dtype=float)
        try:
            return arr.reshape(shape_tail)
        except ValueError:
            return arr        # does not fit the field shape: the predicate has to cope with it (shape mismatch / PredicateError)
    if k == "scaled":
        return ScaledTolerance(float(t[1]))
    if k == "scaledcomp":
        return ScaledTolerance(float(t[1]), use_component_magnitudes=True)
    return None


def recon_shape(c):
    s1, s2 = list(c["a"]["shape"]), list(c["b"]["shape"])
    if len(s1) == len(s2) + 1 and s1[-1] == 1:
        return s1
    if len(s2) == len(s1) + 1 and s2[-1] == 1:
        return s1 + [1]
    return s1


def impl_eval(c, a=None, b=None, pred_obj=None):
    """Run the implementation on one case: 1 = equal, 0 = unequal, 2 = PredicateError, ('X', msg) = other."""
    from fieldcompare import predicates as P

    a = np_array(c["a"]) if a is None else a
    b = np_array(c["b"]) if b is None else b
    try:
        if pred_obj is None:
            if c["pred"] == "exact":
                pred_obj = P.ExactEquality()
            else:
                tail = tuple(recon_shape(c)[1:])
                kw = {}
                r, t = py_tol(c["rel"], tail), py_tol(c["abs"], tail)
                if r is not None:
                    kw["rel_tol"] = r
                if t is not None:
                    kw["abs_tol"] = t
                pred_obj = (P.FuzzyEquality if c["pred"] == "fuzzy" else P.DefaultEquality)(**kw)
        return 1 if bool(pred_obj(a, b)) else 0
    except P.PredicateError:
        return 2
    except Exception as e:  # anything else escaping the predicate
        return ("X", f"{type(e).__name__}: {e}")


# ---- exact-arithmetic semantics of the STATEMENT (oracle), independent of model and code ----------
def shapes_comparable(s1, s2):
    s1, s2 = list(s1), list(s2)
    return s1 == s2 or s1 == s2 + [1] or s2 == s1 + [1]


EPS = {"float64": Fr(1, 2 ** 52), "float32": Fr(1, 2 ** 23)}


def promoted_float(dt1, dt2):
    if "float64" in (dt1, dt2):
        return "float64"
    other = dt2 if dt1 == "float32" else dt1
    if other == "float32" or other in ("int8", "int16", "uint8", "uint16"):
        return "float32"
    return "float64"


def int_pair_eps(d1, d2):
    # the common type of a signed integer and uint64 is float64 (no integer type holds both ranges)
    (w1, s1), (w2, s2) = INT_DT[d1], INT_DT[d2]
    if (s1 and not s2 and w2 == 64) or (s2 and not s1 and w1 == 64):
        return EPS["float64"]
    return Fr(0)


def resolve_tol_oracle(t, c, n_comp, which):
    """Resolved tolerance as function index -> Fraction, from the statement; None = undefined."""
    A, B = c["a"], c["b"]
    va, vb = [Fr(v) for v in A["vals"]], [Fr(v) for v in B["vals"]]
    k = t[0]
    if k == "num":
        return lambda i: Fr(t[1])
    if k == "comp":
        if len(t[1]) != n_comp:
            return None       # tolerance array does not fit the (reconciled) shape: undefined by the statement
        return lambda i: Fr(t[1][i % n_comp])
    if k == "scaled":
        if not va or not vb:
            return None
        m = max(abs(x) for x in va + vb)
        return lambda i: Fr(t[1]) * m
    if k == "scaledcomp":
        if not va or not vb:
            return None
        ms = [max(abs(x) for j, x in enumerate(va) if j % n_comp == cidx) for cidx in range(n_comp)]
        ms2 = [max(abs(x) for j, x in enumerate(vb) if j % n_comp == cidx) for cidx in range(n_comp)]
        return lambda i: Fr(t[1]) * max(ms[i % n_comp], ms2[i % n_comp])
    # default: relative = eps of the promoted type, 0 for integers; absolute default = 0
    if which == "abs":
        return lambda i: Fr(0)
    if A["dtype"] in INT_DT and B["dtype"] in INT_DT:
        return lambda i: int_pair_eps(A["dtype"], B["dtype"])
    return lambda i: EPS[promoted_float(A["dtype"], B["dtype"])]


def tol_misfit(c):
    """a per-component tolerance array that does not fit the (reconciled) field shape: outside the statements and the model's domain"""
    if "comp" not in (c["rel"][0], c["abs"][0]):
        return False
    s = recon_shape(c)
    n_comp = 1
    for x in s[1:]:
        n_comp *= x
    return len(s) < 2 or any(t[0] == "comp" and len(t[1]) != n_comp for t in (c["rel"], c["abs"]))


def oracle(c):
    """1/0 per the property statements (C01 formula, C09 exactness); None where the statement is silent."""
    A, B = c["a"], c["b"]
    if not shapes_comparable(A["shape"], B["shape"]):
        return 0
    numeric = A["dtype"] != "str" and B["dtype"] != "str"
    floats = A["dtype"] in FLOAT_DT or B["dtype"] in FLOAT_DT
    pred = c["pred"]
    if pred == "exact" or (pred == "default" and not floats):
        if numeric:
            return int(all(Fr(x) == Fr(y) for x, y in zip(A["vals"], B["vals"])))
        if A["dtype"] == "str" and B["dtype"] == "str":
            return int(all(x == y for x, y in zip(A["vals"], B["vals"])))
        return int(len(A["vals"]) == 0)  # a string never equals a number
    if not numeric:
        return None
    s = recon_shape(c)
    n_comp = 1
    for x in s[1:]:
        n_comp *= x
    if c["rel"][0] == "comp" or c["abs"][0] == "comp":
        if len(s) < 2 or any(t[0] == "comp" and len(t[1]) != n_comp for t in (c["rel"], c["abs"])):
            return None
    rel = resolve_tol_oracle(c["rel"], c, max(n_comp, 1), "rel")
    ab = resolve_tol_oracle(c["abs"], c, max(n_comp, 1), "abs")
    if rel is None or ab is None:
        return None
    ok = True
    for i, (x, y) in enumerate(zip(A["vals"], B["vals"])):
        x, y = Fr(x), Fr(y)
        if not abs(x - y) <= max(rel(i) * max(abs(x), abs(y)), ab(i)):
            ok = False
            break
    return int(ok)


# ---- exactness of every floating-point operation the implementation performs ----------------------
def representable(q: Fr, dt: str) -> bool:
    try:
        f = float(q)
    except OverflowError:
        return False
    if dt == "float32":
        with np.errstate(over="ignore"):
            f = float(np.float32(f))
    return math.isfinite(f) and Fr(f) == q


def exact_ok(c) -> bool:
    """True if the implementation's float computation on this case involves no rounding."""
    A, B = c["a"], c["b"]
    if c["pred"] == "exact":
        return all(representable(Fr(v), dt) for X in (A, B) for dt in [X["dtype"]] if dt in FLOAT_DT for v in X["vals"])
    fl = [X["dtype"] for X in (A, B) if X["dtype"] in FLOAT_DT]
    if not fl:
        return True
    if A["dtype"] == "str" or B["dtype"] == "str":
        return True
    D = "float32" if all(X["dtype"] == "float32" for X in (A, B)) else "float64"
    for X in (A, B):
        dt = X["dtype"] if X["dtype"] in FLOAT_DT else "float64"
        if not all(representable(Fr(v), dt) for v in X["vals"]):
            return False
        if X["dtype"] in INT_DT and D != "float64":
            return False
    if not shapes_comparable(A["shape"], B["shape"]):
        return True
    s = recon_shape(c)
    n_comp = 1
    for x in s[1:]:
        n_comp *= x
    n_comp = max(n_comp, 1)
    rel = resolve_tol_oracle(c["rel"], c, n_comp, "rel")
    ab = resolve_tol_oracle(c["abs"], c, n_comp, "abs")
    if rel is None or ab is None:
        return True
    DT = D
    if c["rel"][0] in ("comp", "scaled", "scaledcomp") or c["abs"][0] in ("comp", "scaled", "scaledcomp"):
        if D != "float64":
            return False
    for t, fn in ((c["rel"], rel), (c["abs"], ab)):
        if t[0] in ("scaled", "scaledcomp", "num", "comp", "default"):
            for i in range(min(len(A["vals"]), max(n_comp, 1)) or 1):
                if not representable(fn(i), DT):
                    return False
    for i, (x, y) in enumerate(zip(A["vals"], B["vals"])):
        x, y = Fr(x), Fr(y)
        if not representable(y - x, DT):
            return False
        if not representable(max(abs(x), abs(y)) * rel(i), DT):
            return False
    return True


# ------------------------------------------------------------------------------------------------
# generators
# ------------------------------------------------------------------------------------------------
def shape_choices(rng):
    n = rng.choice([0, 1, 1, 2, 2, 3, 3, 4, 5, 7, 17])
    kind = rng.choice(["s", "s", "v", "v", "t", "s1"])
    k = rng.choice([1, 2, 3])
    if kind == "s":
        return [n]
    if kind == "s1":
        return [n, 1]
    if kind == "v":
        return [n, k]
    return [n, k, k]


def gen_fuzzy_case(rng, dtype="float64", pred="fuzzy"):
    """One exact-stream case with a single deviating entry placed on / inside / outside the boundary."""
    f32 = dtype == "float32"
    shape = shape_choices(rng)
    size = int(np.prod(shape))
    n_comp = int(np.prod(shape[1:])) if len(shape) > 1 else 1
    E = rng.randint(-100, 90) if f32 else rng.choice([rng.randint(-1040, 960), rng.randint(-40, 40), rng.randint(-1070, -1000), rng.randint(900, 960)])
    mb_bits = 8 if f32 else 16
    kmax = 6 if f32 else 20

    def val():
        return Fr(rng.choice([-1, 1]) * rng.randint(1, 2 ** mb_bits - 1)) * Fr(2) ** E

    a = [val() for _ in range(size)]
    if rng.random() < 0.1 and size:
        a[rng.randrange(size)] = Fr(0)
    b = list(a)
    mode = rng.choice(["abs", "rel", "rel", "both", "zero"])
    place = rng.choice(["on", "in", "out"])
    k = rng.randint(1, kmax)
    r = rng.choice([1, 1, 3]) if k >= 2 else 1
    relv = Fr(r, 2 ** k) if mode in ("rel", "both") else Fr(0)
    expect = None
    j = rng.randrange(size) if size else None
    absv = Fr(0)
    if size:
        M = abs(b[j])
        if M == 0:
            M = Fr(2) ** E
            b[j] = M
        sgn = 1 if b[j] > 0 else -1
        if mode in ("rel", "both"):
            diff = M * relv
            delta = M * Fr(1, 2 ** (k + 8))
            if mode == "both":
                absv = rng.choice([diff / 2, diff * 2, diff])   # abs below / above / equal the relative threshold
                if absv > diff:
                    diff = absv
        elif mode == "abs":
            diff = Fr(rng.randint(1, 2 ** mb_bits)) * Fr(2) ** (E - rng.randint(0, 12))
            delta = diff / 1024
            absv = diff
            if diff >= M:  # keep |a| <= |b| so that max(|a|,|b|) = |b|
                diff = M / 2
                absv = diff
                delta = diff / 1024
        else:  # zero tolerances: any difference fails
            diff = Fr(0)
            delta = Fr(2) ** (E - 8)
        d = {"on": diff, "in": diff - delta if diff > 0 else Fr(0), "out": diff + delta}[place]
        a[j] = b[j] - sgn * d   # |a| < |b|
        expect = 0 if place == "out" else 1
    rel_t = ["num", relv]
    abs_t = ["num", absv]
    tk = rng.random()
    if len(shape) >= 2 and n_comp >= 1 and tk < 0.35 and not f32 and size:
        cj = j % n_comp
        # per-component tolerances: the deviating component gets the boundary tolerance, the others random ones
        which = rng.choice(["rel", "abs", "both"])
        if which in ("rel", "both"):
            rel_t = ["comp", [relv if ci == cj else Fr(rng.choice([0, 1, 3]), 2 ** rng.randint(1, 20)) for ci in range(n_comp)]]
        if which in ("abs", "both"):
            abs_t = ["comp", [absv if ci == cj else rng.choice([Fr(0), absv * 2, absv / 2]) for ci in range(n_comp)]]
    elif tk < 0.6 and size and not f32 and mode == "abs":
        # scaled absolute tolerance  base*max:  choose base so that base*max == absv  when that is dyadic
        mx = max(abs(x) for x in a + b)
        base = absv / mx
        if base.denominator & (base.denominator - 1) == 0:
            abs_t = ["scaled", base]
    elif tk < 0.58 and mode in ("rel",) and r == 1 and ((dtype == "float64" and k == 52) or (f32 and k == 23)):
        rel_t = ["default"]
    # some noise inside tolerance at other entries
    c = {"pred": pred, "a": {"dtype": dtype, "shape": shape, "vals": a},
         "b": {"dtype": dtype, "shape": list(shape), "vals": b}, "rel": rel_t, "abs": abs_t,
         "meta": {"mode": mode, "place": place, "j": j, "expect": expect}}
    # shape variants: (n,) vs (n,1)
    if rng.random() < 0.12 and len(shape) == 1:
        c["b"]["shape"] = shape + [1]
        c["meta"]["shape_variant"] = "n_vs_n1"
    elif rng.random() < 0.06:
        other = shape_choices(rng)
        if int(np.prod(other)) == size:
            c["b"]["shape"] = other
            c["meta"]["shape_variant"] = "reshaped"
    if rng.random() < 0.5:
        c["a"], c["b"] = c["b"], c["a"]
    return c


def gen_default_eps_case(rng, dtype):
    """Relative default tolerance (machine epsilon of the data type): boundary at exactly eps*max."""
    k = 52 if dtype == "float64" else 23
    n = rng.choice([1, 2, 3, 5])
    E = rng.randint(-60, 60)
    bvals, avals = [], []
    j = rng.randrange(n)
    place = rng.choice(["on", "out", "in"])
    for i in range(n):
        m = rng.randint(2 ** k, 2 ** (k + 1) - 1)     # full-precision mantissa, M = m*2^E
        x = Fr(m) * Fr(2) ** E
        bvals.append(x)
        if i != j:
            avals.append(x)
            continue
        # eps*M = m*2^(E-k): not representable unless low bits vanish; use m multiple of 2^k... use ulp steps
        steps = {"on": None, "out": 2, "in": 0}[place]
        if steps is None:
            # |a-b| = 1 ulp = 2^E ; threshold eps*M = m*2^(E-k) >= 2^E  (m >= 2^k): inside or on (on iff m == 2^k)
            avals.append(x - Fr(2) ** E)
        else:
            avals.append(x - steps * Fr(2) ** E)
    c = {"pred": "fuzzy", "a": {"dtype": dtype, "shape": [n], "vals": avals},
         "b": {"dtype": dtype, "shape": [n], "vals": bvals}, "rel": ["default"], "abs": ["default"],
         "meta": {"mode": "default_eps", "place": place, "j": j}}
    if rng.random() < 0.5:
        c["a"], c["b"] = c["b"], c["a"]
    return c


def gen_congruent_int_case(rng):
    """integer arrays of different width whose only difference is an entry that coincides with the other side's entry modulo
    the range of the narrower type (259 against 3 for int8): different integers, whatever a cast to the narrow type would say"""
    narrow = rng.choice(["int8", "uint8", "int16", "uint16", "int32", "uint32"])
    wn, sn = INT_DT[narrow]
    wide = rng.choice([d for d, (w, s_) in INT_DT.items() if w > wn])
    ww, sw = INT_DT[wide]
    shape = shape_choices(rng)
    size = int(np.prod(shape))
    if size == 0:
        shape, size = [3], 3
    lo, hi = (-(2 ** (wn - 1)), 2 ** (wn - 1) - 1) if sn else (0, 2 ** wn - 1)
    wlo, whi = (-(2 ** (ww - 1)), 2 ** (ww - 1) - 1) if sw else (0, 2 ** ww - 1)
    vals = [rng.randint(max(lo, 0), hi) for _ in range(size)]        # non-negative: representable in every wide type
    j = rng.choice([0, size - 1, rng.randrange(size)])
    k = rng.choice([1, 1, 2, 3])
    wv = list(vals)
    wv[j] = vals[j] + k * 2 ** wn
    if not wlo <= wv[j] <= whi:
        wv[j] = vals[j] + 2 ** wn
    A = {"dtype": wide, "shape": shape, "vals": wv}
    B = {"dtype": narrow, "shape": shape, "vals": vals}
    if rng.random() < 0.5:
        A, B = B, A
    tol = rng.choice([["default"], ["num", Fr(0)], ["num", Fr(1, 1024)], ["num", Fr(1000)]])
    return {"pred": rng.choice(["default", "default", "exact"]), "a": A, "b": B, "rel": tol, "abs": rng.choice([["default"], ["num", Fr(0)], ["num", Fr(1)]]),
            "meta": {"mode": "congruent_modulo_narrow_type", "place": "first" if j == 0 else "last" if j == size - 1 else "inner"}}


def gen_c09_case(rng):
    kinds = list(INT_DT) + ["str", "str"]
    dta = rng.choice(kinds)
    dtb = rng.choice([dta, dta, rng.choice(kinds)])
    floatmix = rng.random() < 0.2
    shape = shape_choices(rng)
    size = int(np.prod(shape))

    def ival(dt):
        w, s = INT_DT[dt]
        lo, hi = (-(2 ** (w - 1)), 2 ** (w - 1) - 1) if s else (0, 2 ** w - 1)
        return rng.choice([lo, hi, 0, 1, rng.randint(lo, hi), rng.randint(max(lo, -5), min(hi, 5)), hi - 1, lo + 1])

    def common_val():
        if dta == "str" or dtb == "str":
            return rng.choice(["a", "b", "ab", "", "1", "x y", "Zz", "1.0", "abc" * 3])
        wa, sa = INT_DT[dta]
        wb, sb = INT_DT[dtb]
        lo = max(-(2 ** (wa - 1)) if sa else 0, -(2 ** (wb - 1)) if sb else 0)
        hi = min(2 ** (wa - 1) - 1 if sa else 2 ** wa - 1, 2 ** (wb - 1) - 1 if sb else 2 ** wb - 1)
        return rng.choice([lo, hi, 0, rng.randint(lo, hi), min(hi, max(lo, rng.randint(-3, 3)))])

    if (dta == "str") != (dtb == "str"):
        # int vs str: values rendered on each side
        va = [common_val() for _ in range(size)]
        a = [str(v) if dta == "str" else (int(v) if str(v).lstrip("-").isdigit() else 0) for v in va]
        b = [str(v) if dtb == "str" else (int(v) if str(v).lstrip("-").isdigit() else 0) for v in va]
        if dta != "str":
            a = [ival(dta) for _ in range(size)]
        if dtb != "str":
            b = [ival(dtb) for _ in range(size)]
    else:
        a = [common_val() for _ in range(size)]
        b = list(a)
    place = None
    if size and rng.random() < 0.7 and not ((dta == "str") != (dtb == "str")):
        j = rng.choice([0, size - 1, rng.randrange(size)])
        place = j
        if dtb == "str":
            b[j] = b[j] + rng.choice(["x", " ", "0"]) if rng.random() < 0.7 else b[j][:-1] if b[j] else "q"
        else:
            w, s = INT_DT[dtb]
            lo, hi = (-(2 ** (w - 1)), 2 ** (w - 1) - 1) if s else (0, 2 ** w - 1)
            nv = b[j] + rng.choice([-1, 1])
            if not lo <= nv <= hi:
                nv = b[j] - (nv - b[j])
            if not lo <= nv <= hi:
                nv = b[j]
            b[j] = nv
    pred = rng.choice(["default", "default", "default", "exact"])
    tols = [Fr(0), Fr(1, 1024), Fr(1), Fr(2) ** 900, Fr(1000)]
    rel = rng.choice([["num", rng.choice(tols)], ["default"], ["scaled", Fr(1024)]])
    ab = rng.choice([["num", rng.choice(tols)], ["default"], ["scaled", Fr(1024)]])
    c = {"pred": pred, "a": {"dtype": dta, "shape": shape, "vals": a},
         "b": {"dtype": dtb, "shape": list(shape), "vals": b}, "rel": rel, "abs": ab,
         "meta": {"mode": "c09", "j": place}}
    if floatmix and dta != "str" and dtb != "str":
        # one side float64 holding the same integers (|v| < 2^53): the fuzzy path must be taken
        small = all(abs(v) < 2 ** 53 for v in a + b)
        if small:
            c["b"]["dtype"] = "float64"
            c["b"]["vals"] = [Fr(v) for v in b]
            c["meta"]["mode"] = "c09_floatmix"
            c["rel"] = rng.choice([["num", Fr(0)], ["num", Fr(1, 4)], ["default"]])
            c["abs"] = rng.choice([["num", Fr(0)], ["num", Fr(1)], ["num", Fr(2)]])
    if rng.random() < 0.1 and len(shape) == 1:
        c["b"]["shape"] = shape + [1]
    if rng.random() < 0.05:
        other = shape_choices(rng)
        if int(np.prod(other)) == size:
            c["b"]["shape"] = other
    if rng.random() < 0.5:
        c["a"], c["b"] = c["b"], c["a"]
    return c


def float_stream_case(rng):
    """arbitrary binary64 values for the bit-exact PrimFloat kernel"""
    import struct

    def rnd_double():
        while True:
            bits = rng.getrandbits(64)
            x = struct.unpack("<d", struct.pack("<Q", bits))[0]
            if math.isfinite(x):
                return x

    mode = rng.choice(["random", "near", "near", "near", "subnormal", "huge"])
    n = rng.choice([1, 1, 2, 3, 8])
    rel = rng.choice([0.0, 2.0 ** -52, 1e-3, 1e-9, 0.1, rng.random() * 1e-6])
    ab = rng.choice([0.0, 0.0, 1e-12, 1e-300, 5e-324, rng.random()])
    a, b = [], []
    for _ in range(n):
        if mode == "random":
            x, y = rnd_double(), rnd_double()
            if abs(x) > 1e300 or abs(y) > 1e300:   # statement: magnitudes up to 1e300 (no overflow in b-a)
                x, y = x / 1e10, y / 1e10
        elif mode == "subnormal":
            x = rng.choice([-1, 1]) * rng.randint(0, 2 ** 52) * 5e-324
            y = x + rng.choice([-2, -1, 0, 1, 2]) * 5e-324
        elif mode == "huge":
            x = rng.choice([-1, 1]) * rng.uniform(1e290, 1e300)
            y = x * (1 + rng.choice([0, 1e-16, 2e-16, 1e-3, -1e-3]))
        else:
            x = rng.choice([-1, 1]) * math.ldexp(rng.random() + 0.5, rng.randint(-300, 300))
            thr = max(rel * abs(x), ab)
            y = x + rng.choice([-1, 1]) * thr
            for _ in range(rng.randint(0, 3)):
                y = math.nextafter(y, rng.choice([-math.inf, math.inf]))
        a.append(x)
        b.append(y)
    return {"a": a, "b": b, "rel": rel, "abs": ab, "mode": mode}


def cfloat(x: float) -> str:
    h = float(x).hex()
    return f"({h})" if h.startswith("-") else h


# ------------------------------------------------------------------------------------------------
# T1 tables
# ------------------------------------------------------------------------------------------------
def all_shapes(max_rank=3, extents=(0, 1, 2, 3)):
    out = [[]]
    for r in range(1, max_rank + 1):
        out += [list(t) for t in itertools.product(extents, repeat=r)]
    return out


def t1_tables(ctx):
    from fieldcompare import predicates as P

    # (1) shape compatibility, observed at the public level: all-zero arrays compare exactly equal iff compatible
    shapes = all_shapes()
    rows = []
    ex = P.ExactEquality()
    for s1 in shapes:
        z1 = np.zeros(s1)
        for s2 in shapes:
            rows.append((s1, s2, bool(ex(z1, np.zeros(s2)))))
    tbl = clist([f"({clist([cnat(x) for x in s1], 'nat')}, {clist([cnat(x) for x in s2], 'nat')}, {lib.cbool(v)})"
                 for s1, s2, v in rows])
    src = HEADER + f"""
Definition table : list (list nat * list nat * bool) := {tbl}.
Lemma compatible_matches_impl :
  forallb (fun r => Bool.eqb (compatible (fst (fst r)) (snd (fst r))) (snd r)) table = true.
Proof. vm_compute. reflexivity. Qed.
"""
    ok = ctx.table_lemma("T1_shape_compat", src)
    ctx.tie("T1 shape-compatibility rows", len(rows))
    if not ok:
        # failing-input search: which rows differ, and do they contradict the statement?
        for s1, s2, v in rows:
            want = shapes_comparable(s1, s2)
            if v != want:
                ctx.violation("E4", "shape rule: ExactEquality on all-zero arrays", {"s1": s1, "s2": s2, "impl": v,
                              "statement": want, "replay": "shape"})
    # (2) has_floats dispatch and default epsilon, for every dtype pair
    dts = list(INT_DT) + list(FLOAT_DT) + ["str"]
    rows2 = []
    for d1 in dts:
        for d2 in dts:
            if "str" in (d1, d2) and d1 != d2:
                continue
            a = np.array(["1"], dtype=str) if d1 == "str" else np.array([1], dtype=d1)
            b = np.array(["2"], dtype=str) if d2 == "str" else np.array([2], dtype=d2)
            # with a huge tolerance, 1 vs 2 compare equal iff the fuzzy path is taken
            try:
                took_fuzzy = bool(P.DefaultEquality(rel_tol=10.0, abs_tol=10.0)(a, b))
            except P.PredicateError:
                took_fuzzy = None
            rows2.append((d1, d2, took_fuzzy))
    tbl2 = clist([f"({kind_of(d1)}, {kind_of(d2)}, {lib.cbool(bool(v))})" for d1, d2, v in rows2 if v is not None])
    src2 = HEADER + f"""
Definition table : list (dkind * dkind * bool) := {tbl2}.
Definition one (k : dkind) (z : Z) : arr := A k [1%nat] [match k with KStr => SS (if Z.eqb z 1 then "1" else "2") | KF32 | KF64 => SF (inject_Z z) | _ => SI z end].
Lemma dispatch_matches_impl :
  forallb (fun r => match default_eq (TNum (10#1)) (TNum (10#1)) (one (fst (fst r)) 1) (one (snd (fst r)) 2) with
                    | Ok v => Bool.eqb v (snd r) | Err => false end) table = true.
Proof. vm_compute. reflexivity. Qed.
"""
    ok2 = ctx.table_lemma("T1_has_floats_dispatch", src2)
    ctx.tie("T1 dtype-dispatch rows", len(rows2))
    if not ok2:
        for d1, d2, v in rows2:
            want = (d1 in FLOAT_DT) or (d2 in FLOAT_DT)
            if v is not None and v != want:
                ctx.violation("E4", "DefaultEquality(rel=10,abs=10)([1],[2]) must be equal iff a side is floating point",
                              {"d1": d1, "d2": d2, "impl": v, "statement": want, "replay": "dispatch"})
    # (3) default epsilon (refinement tie: internal name, skipped when absent)
    try:
        from fieldcompare._common import _default_base_tolerance
        fn = _default_base_tolerance()
    except Exception:
        ctx.notes.append("refinement tie _default_base_tolerance skipped (name not found)")
        return
    rows3 = []
    nums = [d for d in dts if d != "str"]
    for d1 in nums:
        for d2 in nums:
            v = Fr(fn(np.zeros(1, dtype=d1), np.zeros(1, dtype=d2)))
            rows3.append((d1, d2, v))
    tbl3 = clist([f"({kind_of(d1)}, {kind_of(d2)}, {cq(v)})" for d1, d2, v in rows3])
    src3 = HEADER + f"""
Definition table : list (dkind * dkind * Q) := {tbl3}.
Lemma default_eps_matches_impl :
  forallb (fun r => match default_eps (fst (fst r)) (snd (fst r)) with Some e => Qeq_bool e (snd r) | None => false end) table = true.
Proof. vm_compute. reflexivity. Qed.
"""
    ok3 = ctx.table_lemma("T1_default_eps", src3)
    ctx.tie("T1 default-eps rows", len(rows3))
    if not ok3:
        for d1, d2, v in rows3:
            if d1 in INT_DT and d2 in INT_DT:
                want = int_pair_eps(d1, d2)
            else:
                want = EPS[promoted_float(d1 if d1 in FLOAT_DT else d2, d2 if d1 in FLOAT_DT else d1)] if (d1 in FLOAT_DT or d2 in FLOAT_DT) else None
            if want is not None and v != want:
                ctx.violation("E4", "default relative tolerance must be machine epsilon of the data type (0 for integers)",
                              {"d1": d1, "d2": d2, "impl": str(v), "statement": str(want), "replay": "eps"})


def decode_case(c):
    """json record -> case with Fractions / ints"""
    c = json.loads(json.dumps(c))
    for X in (c["a"], c["b"]):
        X["vals"] = [Fr(v) if X["dtype"] in FLOAT_DT else (v if X["dtype"] == "str" else int(v)) for v in X["vals"]]
    for k in ("rel", "abs"):
        t = c.get(k)
        if t is None:
            continue
        if t[0] in ("num", "scaled", "scaledcomp"):
            t[1] = Fr(t[1])
        elif t[0] == "comp":
            t[1] = [Fr(x) for x in t[1]]
    return c


def corpus_cases(pid):
    out = []
    d = lib.VERIF / "corpus" / pid
    for f in sorted(d.glob("*.json")) if d.exists() else []:
        rec = json.load(open(f))
        c = rec.get("case")
        if isinstance(c, dict) and ("pred" in c or "scaled_tolerance" in c):
            c = decode_case(c)
            c.setdefault("meta", {})["mode"] = "corpus"
            out.append(c)
    return out


# ------------------------------------------------------------------------------------------------
def judge(ctx, cases, impls, models, label):
    """compare implementation / model / oracle on a batch"""
    for c, im, mo in zip(cases, impls, models):
        orc = oracle(c)
        canon = {k: c[k] for k in ("pred", "a", "b", "rel", "abs")}
        nontrivial = c["a"]["vals"] != c["b"]["vals"] or c["a"]["shape"] != c["b"]["shape"]
        ctx.case(canon, nontrivial, sample={"case": canon, "impl": im, "model": mo, "oracle": orc})
        ctx.count(f"{label}:{c['pred']}:{c['a']['dtype']}/{c['b']['dtype']}")
        ctx.count(f"{label}:rank{len(c['a']['shape'])}")
        m = c.get("meta", {})
        if "place" in m:
            ctx.count(f"{label}:boundary:{m['place']}")
        if "mode" in m:
            ctx.count(f"{label}:mode:{m['mode']}")
        ctx.count(f"{label}:tol:{c['rel'][0]}/{c['abs'][0]}")
        ctx.count(f"{label}:outcome:{im if not isinstance(im, tuple) else 'X'}")
        if isinstance(im, tuple):
            ctx.violation("E4", f"{label}: exception other than PredicateError escaped the predicate: {im[1]}",
                          canon, impl=im, model=mo, oracle=orc)
            continue
        if orc is not None and im != orc:
            ctx.violation("E4", f"{label}: implementation verdict {im} contradicts the statement ({orc})",
                          canon, impl=im, model=mo, oracle=orc)
        elif orc is None and tol_misfit(c) and shapes_comparable(c["a"]["shape"], c["b"]["shape"]):
            ctx.count(f"{label}:tolerance array does not fit the field (not compared)")
        elif im != mo:
            ctx.violation("E2", f"{label}: model {mo} != implementation {im}", canon, found_input=False,
                          impl=im, model=mo, oracle=orc)
        ctx.traces_validated += 1


def run_exact_stream(ctx, cases, label):
    impls = [impl_eval(c) for c in cases]
    models = ctx.coq_eval(HEADER, [coq_expr(c) for c in cases], name=label)
    judge(ctx, cases, impls, models, label)


def gen_exact_cases(rng, n, gen):
    out = []
    tries = 0
    while len(out) < n and tries < 20 * n:
        tries += 1
        c = gen()
        if exact_ok(c):
            out.append(c)
    return out


def run_float_stream(ctx, n):
    from fieldcompare.predicates import FuzzyEquality

    rng = ctx.rng
    cases = [float_stream_case(rng) for _ in range(n)]
    exprs = []
    impls = []
    for c in cases:
        exprs.append(f"fuzzy_all_f {cfloat(c['rel'])} {cfloat(c['abs'])} "
                     f"{clist([cfloat(x) for x in c['a']])}%float {clist([cfloat(x) for x in c['b']])}%float")
        with np.errstate(all="ignore"):
            impls.append(bool(FuzzyEquality(rel_tol=c["rel"], abs_tol=c["abs"])(np.array(c["a"]), np.array(c["b"]))))
    models = ctx.coq_eval(HEADER, exprs, name="floatstream")
    for c, im, mo in zip(cases, impls, models):
        # oracle with a rounding guard band
        verdict = None
        worst = None
        for x, y in zip(c["a"], c["b"]):
            X, Y = Fr(x), Fr(y)
            thr = max(Fr(c["rel"]) * max(abs(X), abs(Y)), Fr(c["abs"]))
            margin = abs(abs(X - Y) - thr)
            scale = max(abs(X), abs(Y), thr, Fr(5e-324))
            ulp = Fr(math.ulp(float(scale)))
            ok = abs(X - Y) <= thr
            if margin <= 4 * ulp:
                verdict = "band"
                break
            if not ok:
                verdict = False
                break
        else:
            verdict = True
        canon = {"a": [x.hex() for x in c["a"]], "b": [y.hex() for y in c["b"]], "rel": c["rel"].hex(), "abs": c["abs"].hex()}
        ctx.case(canon, c["a"] != c["b"], sample={"float_case": canon, "impl": im, "model": mo, "oracle": verdict})
        ctx.count(f"float:{c['mode']}")
        ctx.count(f"float:oracle:{verdict}")
        if verdict in (True, False) and im != verdict:
            ctx.violation("E4", f"float stream: implementation {im} contradicts the formula ({verdict}) outside the rounding band",
                          {"float_case": canon}, impl=im, model=mo)
        elif im != mo:
            ctx.violation("E2", f"float stream: PrimFloat model {mo} != implementation {im}", {"float_case": canon},
                          found_input=False, impl=im, model=mo)
        ctx.traces_validated += 1


# ------------------------------------------------------------------------------------------------
def run_c01(ctx):
    q = ctx.tier == "quick"
    n_exact, n_f32, n_eps, n_float = (4200, 900, 500, 1500) if q else (60000, 12000, 5000, 40000)
    rng = ctx.rng
    t1_tables(ctx)
    cases = gen_exact_cases(rng, n_exact, lambda: gen_fuzzy_case(rng, "float64", rng.choice(["fuzzy", "fuzzy", "default"])))
    cases += gen_exact_cases(rng, n_f32, lambda: gen_fuzzy_case(rng, "float32"))
    cases += gen_exact_cases(rng, n_eps, lambda: gen_default_eps_case(rng, rng.choice(["float64", "float32"])))
    # deviating entry at EVERY position of small arrays
    for shape in ([5], [3, 2], [2, 2, 2], [6, 1]):
        size = int(np.prod(shape))
        for j in range(size):
            for place, d in (("on", Fr(1, 4)), ("out", Fr(1, 4) + Fr(1, 1024))):
                a = [Fr(i + 1) for i in range(size)]
                b = list(a)
                b[j] = a[j] + d
                cases.append({"pred": "fuzzy", "a": {"dtype": "float64", "shape": shape, "vals": a},
                              "b": {"dtype": "float64", "shape": shape, "vals": b},
                              "rel": ["num", Fr(0)], "abs": ["num", Fr(1, 4)], "meta": {"mode": "every_position", "place": place, "j": j}})
    # large arrays: deviation at first / last / middle
    for n in (1000,):
        for j in (0, n // 2, n - 1):
            a = [Fr(i % 97 + 1) for i in range(n)]
            b = list(a)
            b[j] = a[j] + Fr(3, 8)
            cases.append({"pred": "fuzzy", "a": {"dtype": "float64", "shape": [n], "vals": a},
                          "b": {"dtype": "float64", "shape": [n], "vals": b},
                          "rel": ["num", Fr(0)], "abs": ["num", Fr(1, 4)], "meta": {"mode": "large", "place": "out", "j": j}})
    run_exact_stream(ctx, cases, "exact")
    long_array_stream(ctx, "c01", ["float"], 30 if ctx.tier == "quick" else 1000)
    f32_numpy_tolerance_stream(ctx, 300 if ctx.tier == "quick" else 8000)
    array_scalar_tolerance_stream(ctx, 120 if ctx.tier == "quick" else 3000)
    extreme_shape_and_tolerance_stream(ctx, 80 if ctx.tier == "quick" else 2000)
    run_float_stream(ctx, n_float)
    ctx.rule = ("exact stream: dyadic inputs on which every floating-point operation of the implementation is exact "
                "(checked per case), one deviating entry placed on/inside/outside the boundary of the applicable "
                "tolerance (scalar, per-component, t*max, default eps), shapes (n,),(n,1),(n,k),(n,k,k), n in 0..17 and "
                "1000; float stream: arbitrary finite doubles through the bit-exact PrimFloat kernel. non-trivial = the "
                "two arrays differ in a value or in shape; distinct = hash of the canonical case")


def f32_numpy_tolerance_stream(ctx, n):
    """single-precision fields compared under tolerances handed over as numpy values (np.float64 scalars or per-component
    arrays, as they come out of a computation), the tolerance set a hair (2^-30 relative) below or above the deviation: the
    threshold rel*max(|a|,|b|) is a double-precision number and must not be rounded to the precision of the data before it is
    compared with |a-b|.  The verdict is judged in exact arithmetic (the margin is far above double-precision rounding)."""
    from fieldcompare import predicates as P
    rng = ctx.rng
    for it in range(n):
        k = rng.choice([None, None, 3])
        L = rng.randint(1, 5)
        shape = (L,) if k is None else (L, k)
        size = int(np.prod(shape))
        a = np.array([np.float32(rng.choice([1.0, 1.5, 3.0, 0.75, 1024.0, 6.0e-3]) * rng.choice([1, -1])) for _ in range(size)],
                     dtype=np.float32).reshape(shape)
        b = a.copy()
        j = rng.randrange(size)
        fa = a.reshape(-1)[j]
        # neighbouring single-precision numbers: the deviation is a few units in the last place of the data
        steps = rng.choice([1, 1, 2, 3])
        fb = fa
        for _ in range(steps):
            fb = np.nextafter(fb, np.float32(0.0) if rng.random() < 0.5 else np.float32(np.sign(fa) * np.inf), dtype=np.float32)
        b.reshape(-1)[j] = fb
        d = abs(Fr(float(fa)) - Fr(float(fb)))
        m = max(abs(Fr(float(fa))), abs(Fr(float(fb))))
        side = rng.choice(["just_below", "just_above"])
        factor = Fr(2 ** 30 - 1, 2 ** 30) if side == "just_below" else Fr(2 ** 30 + 1, 2 ** 30)
        which = rng.choice(["rel", "rel", "abs"])
        rel_v = float(d / m * factor) if which == "rel" else 0.0
        abs_v = float(d * factor) if which == "abs" else 0.0
        form = rng.choice(["np.float64", "array"]) if k is not None else "np.float64"
        if form == "array":
            rel_t = np.full((k,), rel_v, dtype=np.float64)
            abs_t = np.full((k,), abs_v, dtype=np.float64)
        else:
            rel_t, abs_t = np.float64(rel_v), np.float64(abs_v)
        want = d <= max(Fr(rel_v) * m, Fr(abs_v))
        canon = {"f32_numpy_tolerance": {"shape": list(shape), "entry": j, "a": float(fa), "b": float(fb), "rel_tol": rel_v,
                                         "abs_tol": abs_v, "tolerance_given_as": form, "side": side}}
        res = {}
        for nm, x, y in (("ab", a, b), ("ba", b, a)):
            try:
                res[nm] = bool(P.FuzzyEquality(rel_tol=rel_t, abs_tol=abs_t)(x, y))
            except Exception as e:  # noqa: BLE001
                res[nm] = f"raised {type(e).__name__}: {e}"
        ctx.case(canon, True, sample={"case": canon, "impl": res, "statement": want})
        ctx.count(f"c01:float32 data, tolerance as {form}, {side}")
        ctx.tie("T2 float32 data under numpy-typed tolerances: implementation = exact formula")
        for nm in ("ab", "ba"):
            if res[nm] is not want:
                ctx.violation("E4", f"c01: float32 data, tolerance given as {form} {side} the deviation: verdict {res[nm]}, the formula "
                                    f"gives {want}", canon, impl=res)
                break
        ctx.traces_validated += 1


def array_scalar_tolerance_stream(ctx, n):
    """vector fields compared under SCALAR tolerances handed over as 0-d numpy arrays (np.asarray(1e-2), as a computation or a
    DynamicTolerance may return them), relative and absolute tolerance far apart and the deviation between the two thresholds;
    and one predicate object with data-derived default tolerances used for several fields in a row (single precision first, double
    precision next; large magnitudes first, small ones next): every verdict is the exact formula's for THIS pair"""
    from fieldcompare import predicates as P
    rng = ctx.rng
    for it in range(n):
        L, k = rng.randint(2, 5), rng.choice([2, 3])
        mag = rng.choice([100.0, 500.0, 1000.0])
        a = np.array([[mag + rng.randint(0, 8) for _ in range(k)] for _ in range(L)], dtype=float)
        b = a.copy()
        i, j = rng.randrange(L), rng.randrange(k)
        b[i, j] += 0.5
        rel_v, abs_v = rng.choice([(1e-2, 1e-6), (1e-9, 1e-2), (1e-2, 0.0), (0.0, 1e-2), (1e-9, 1.0)])
        form = rng.choice(["0-d array", "0-d array", "float"])
        mk = (lambda v: np.asarray(v)) if form == "0-d array" else float
        d, m = Fr(1, 2), Fr(max(abs(float(a[i, j])), abs(float(b[i, j]))))
        want = d <= max(Fr(rel_v) * m, Fr(abs_v))
        canon = {"array_scalar_tolerance": {"shape": [L, k], "entry": [i, j], "magnitude": mag, "rel_tol": rel_v, "abs_tol": abs_v,
                                            "tolerances_given_as": form}}
        res = {}
        for nm, x, y in (("ab", a, b), ("ba", b, a)):
            try:
                res[nm] = bool(P.FuzzyEquality(rel_tol=mk(rel_v), abs_tol=mk(abs_v))(x, y))
            except Exception as e:  # noqa: BLE001
                res[nm] = f"raised {type(e).__name__}: {e}"
        ctx.case(canon, True, sample={"case": canon, "impl": res, "statement": want})
        ctx.count(f"c01:vector field, scalar tolerances as {form}")
        ctx.tie("T2 vector fields under 0-d array tolerances: implementation = exact formula")
        if res["ab"] is not want or res["ba"] is not want:
            ctx.violation("E4", f"c01: vector field, tolerances rel={rel_v} abs={abs_v} given as {form}: verdicts {res}, the formula gives {want}",
                          canon, impl=res)
        ctx.traces_validated += 1
    # one predicate with default (data-derived) tolerances over a sequence of pairs
    for it in range(max(10, n // 4)):
        pred = rng.choice([P.FuzzyEquality(), P.DefaultEquality(), P.FuzzyEquality(abs_tol=P.ScaledTolerance(1e-3), rel_tol=0.0)])
        scaled = "abs_tol: dynamic" in str(pred) or "ScaledTolerance" in repr(getattr(pred, "_abs_tol", ""))
        hist = []
        for step in range(rng.randint(2, 4)):
            dt = rng.choice(["float32", "float64"])
            mag = rng.choice([1.0, 1.0e6])
            a = (np.array([1.0, 1.5, 1.25]) * mag).astype(dt)
            b = a.copy()
            # relative deviation 1e-10 in double precision (beyond eps64, far below eps32); for float32 data 4 ulp
            if dt == "float64":
                b[1] = a[1] * (1.0 + 1e-10)
            else:
                b[1] = a[1] + 4 * np.spacing(a[1])
            hist.append(f"{dt}@{mag:g}")
            fresh = type(pred)(**({"abs_tol": P.ScaledTolerance(1e-3), "rel_tol": 0.0} if scaled else {}))
            try:
                got, ref = (bool(pred(a, a.copy())), bool(pred(a, b))), (bool(fresh(a, a.copy())), bool(fresh(a, b)))
            except Exception as e:  # noqa: BLE001
                got, ref = f"raised {type(e).__name__}: {e}", None
            canon = {"default_tolerances_reused": {"predicate": str(type(pred).__name__), "scaled_abs_tol": scaled, "pairs_so_far": list(hist)}}
            ctx.case(canon, len(hist) > 1, sample={"case": canon, "reused": got, "fresh": ref})
            ctx.count("c01:predicate with data-derived tolerances reused")
            ctx.tie("T2 a reused predicate with default tolerances = a fresh one")
            if got != ref:
                ctx.violation("E4", f"c01: one {type(pred).__name__} with data-derived tolerances used for {hist} answers {got} "
                                    f"(identical pair, deviating pair) where a fresh one answers {ref}", canon)
                break
            ctx.traces_validated += 1


def run_c09(ctx):
    q = ctx.tier == "quick"
    n = 5000 if q else 120000
    rng = ctx.rng
    t1_tables(ctx)
    cases = gen_exact_cases(rng, n, lambda: gen_c09_case(rng))
    # directed: k vs k+1 at the edges of the exactly-representable ranges, under huge tolerances
    for dt, k in (("int64", 2 ** 53), ("int64", 2 ** 62), ("uint64", 2 ** 63), ("uint64", 2 ** 64 - 2), ("int64", -(2 ** 63)),
                  ("int32", 2 ** 31 - 2), ("uint8", 254), ("int8", -128)):
        for tol in (Fr(0), Fr(2) ** 900):
            cases.append({"pred": "default", "a": {"dtype": dt, "shape": [2], "vals": [0, k]},
                          "b": {"dtype": dt, "shape": [2], "vals": [0, k + 1]},
                          "rel": ["num", tol], "abs": ["num", tol], "meta": {"mode": "c09_edges"}})
    cases += gen_exact_cases(rng, 150 if q else 4000, lambda: gen_congruent_int_case(rng))
    # directed: two integer types of one width whose memory holds the same bytes for different values (a negative number and
    # its two's complement read as unsigned), next to equal entries
    for w, sdt, udt in ((8, "int8", "uint8"), (16, "int16", "uint16"), (32, "int32", "uint32"), (64, "int64", "uint64")):
        for neg in (-1, -2, -(2 ** (w - 1))):
            for tol in (Fr(0), Fr(2) ** 70):
                for flip in (False, True):
                    A = {"dtype": sdt, "shape": [3], "vals": [7, neg, 0]}
                    B = {"dtype": udt, "shape": [3], "vals": [7, neg + 2 ** w, 0]}
                    cases.append({"pred": "default", "a": B if flip else A, "b": A if flip else B,
                                  "rel": ["num", tol], "abs": ["num", tol], "meta": {"mode": "c09_same_bytes_other_type"}})
    run_exact_stream(ctx, cases, "c09")
    shared_predicate_stream(ctx, cases, "c09")
    long_array_stream(ctx, "c09", ["int64", "int32", "uint8", "str"], 40 if q else 1500)
    mesh_integer_stream(ctx, 150 if q else 4000)
    object_array_stream(ctx, 200 if q else 5000)
    ragged_rows_stream(ctx, 120 if q else 3000)
    ctx.rule = ("integer (8 dtypes, extremes), string and int/float-mixed arrays (also object arrays holding both), shapes as C01, a differing entry at "
                "first/last/random position, tolerances in {default, 0, 2^-10, 1, 1000, 2^900, 1024*max}; "
                "non-trivial = arrays differ in a value, a dtype or shape")


def object_array_stream(ctx, n):
    """arrays of dtype object whose entries are Python ints and floats mixed (as an API user may hand them over): with explicit
    tolerances the default predicate decides by the fuzzy formula as soon as ONE entry on either side is a float, and exactly
    when every entry on both sides is an integer"""
    from fieldcompare import predicates as P
    rng = ctx.rng
    for it in range(n):
        L = rng.randint(2, 6)
        base = [rng.randint(-50, 50) for _ in range(L)]
        n_float = rng.choice([0, 1, 1, 2, L])
        fpos = rng.sample(range(L), min(n_float, L))
        side_with_floats = rng.choice(["a", "b", "both"]) if n_float else "none"
        va = [float(v) + 0.5 if (i in fpos and side_with_floats in ("a", "both")) else v for i, v in enumerate(base)]
        vb = [float(v) + 0.5 if (i in fpos and side_with_floats in ("b", "both")) else
              (v + 0.5 if (i in fpos and side_with_floats == "a") else v) for i, v in enumerate(base)]
        if side_with_floats == "b":
            va = [v + 0.5 if i in fpos else v for i, v in enumerate(base)]
        # now va == vb in value; deviate one entry by `dev`
        j = rng.randrange(L)
        dev = rng.choice([Fr(0), Fr(1, 1024), Fr(1), Fr(3)])
        tol = rng.choice([Fr(1, 2 ** 20), Fr(1, 8), Fr(2), Fr(1000)])
        vb = list(vb)
        if dev:
            vb[j] = (vb[j] + float(dev)) if isinstance(vb[j], float) or dev.denominator != 1 else vb[j] + int(dev)
        any_float = any(isinstance(v, float) for v in va + vb)
        a, b = np.array(va, dtype=object), np.array(vb, dtype=object)
        pred = P.DefaultEquality(rel_tol=0.0, abs_tol=float(tol))
        canon = {"object_arrays": {"a": [repr(v) for v in va], "b": [repr(v) for v in vb], "abs_tol": str(tol), "deviation": str(dev)}}
        res = {}
        for nm, x, y in (("ab", a, b), ("ba", b, a)):
            try:
                res[nm] = bool(pred(x, y))
            except Exception as e:  # noqa: BLE001
                res[nm] = f"raised {type(e).__name__}: {e}"
        ctx.case(canon, bool(dev), sample={"case": canon, "impl": res})
        ctx.count(f"c09:object arrays:{'some float entry' if any_float else 'integers only'}")
        ctx.tie("T2 object arrays of ints and floats: implementation = statement")
        if dev == tol:
            ctx.traces_validated += 1
            continue
        want = (dev <= tol) if any_float else (dev == 0)
        for nm in ("ab", "ba"):
            if res[nm] is not want:
                ctx.violation("E4", f"c09: object arrays ({'with' if any_float else 'without'} float entries), deviation {dev}, abs_tol {tol}: "
                                    f"verdict {res[nm]}, the statement requires {want}", canon, impl=res)
                break
        ctx.traces_validated += 1


def ragged_rows_stream(ctx, n):
    """integer / string data held as one array per row with rows of different lengths (the layout of polygon connectivity): equal
    iff every row has the same length and the same entries — a row [7] is not the row [7, 7]"""
    from fieldcompare import predicates as P
    rng = ctx.rng
    for it in range(n):
        L = rng.randint(2, 4)
        rows = [[rng.randint(0, 9) for _ in range(rng.randint(1, 4))] for _ in range(L)]
        if len({len(r) for r in rows}) == 1:
            rows[0] = rows[0] + [rows[0][0]]
        other = [list(r) for r in rows]
        j = rng.randrange(L)
        how = rng.choice(["same", "repeat_single_value", "append", "change"])
        if how == "repeat_single_value":
            rows[j] = [rows[j][0]]
            other[j] = [rows[j][0]] * rng.randint(2, 3)
        elif how == "append":
            other[j] = other[j] + [rng.randint(0, 9)]
        elif how == "change":
            other[j][rng.randrange(len(other[j]))] += 1

        def arr(rs):
            out = np.empty(len(rs), dtype=object)
            for i_, r_ in enumerate(rs):
                out[i_] = np.array(r_, dtype=np.int64)
            return out
        pred = rng.choice([P.ExactEquality(), P.DefaultEquality(rel_tol=0.5, abs_tol=10.0)])
        canon = {"ragged_rows": {"a": rows, "b": other, "how": how, "predicate": type(pred).__name__}}
        res = {}
        for nm, x, y in (("ab", arr(rows), arr(other)), ("ba", arr(other), arr(rows))):
            try:
                res[nm] = bool(pred(x, y))
            except Exception as e:  # noqa: BLE001
                res[nm] = f"raised {type(e).__name__}: {e}"
        want = rows == other
        ctx.case(canon, how != "same", sample={"case": canon, "impl": res})
        ctx.count(f"c09:rows of different lengths:{how}")
        ctx.tie("T2 integer rows of different lengths: implementation = statement")
        if res["ab"] is not want or res["ba"] is not want:
            ctx.violation("E4", f"c09: integer data in rows of different lengths ({how}): verdicts {res}, identical rows: {want}", canon, impl=res)
        ctx.traces_validated += 1


def long_array_stream(ctx, label, kinds, n):
    """long arrays (a few thousand to 10^5 entries, lengths around powers of two) with at most ONE deviating entry, placed at
    the last index, just behind a multiple of a power of two, or at random: the verdict is 'equal' iff there is no deviation.
    The implementation is compared with the statement only (arrays of this length are not evaluated in the model)."""
    from fieldcompare import predicates as P
    rng = ctx.rng
    lengths = [1000, 4097, 8191, 16385, 20000, 32769, 40001, 65537, 100003]
    for it in range(n):
        kind = rng.choice(kinds)
        L = rng.choice(lengths)
        comps = rng.choice([None, None, 3])
        shape = (L,) if comps is None else (L // comps, comps)
        size = int(np.prod(shape))
        if kind == "float":
            a = (np.arange(size, dtype=float) % 977) * 0.25 + 1.0
        elif kind == "str":
            a = np.array([f"s{i % 131}" for i in range(size)])
        else:
            a = (np.arange(size, dtype=kind) % 113).astype(kind)
        a = a.reshape(shape)
        b = a.copy()
        flat = b.reshape(-1)
        where = rng.choice(["none", "last", "behind block", "random", "first"])
        j = None
        if where != "none":
            blk = rng.choice([1024, 4096, 8192, 16384, 32768, 65536])
            j = {"last": size - 1, "first": 0, "random": rng.randrange(size),
                 "behind block": min(size - 1, blk * (size // blk) + rng.randrange(0, max(1, size - blk * (size // blk))))}[where]
            if kind == "str":
                flat[j] = "zz"
            elif kind == "float":
                flat[j] = flat[j] + 0.5
            else:
                flat[j] = flat[j] + 1
        predname = rng.choice(["default", "exact"] if kind != "float" else ["default", "fuzzy"])
        tol = rng.choice([None, 1e-6, 1e-3]) if kind == "float" else rng.choice([None, 10.0, 1e6])
        kw = {} if tol is None or predname == "exact" else {"rel_tol": tol, "abs_tol": tol if kind != "float" else 0.0}
        pred = {"default": P.DefaultEquality, "fuzzy": P.FuzzyEquality, "exact": P.ExactEquality}[predname](**kw)
        canon = {"long_array": {"kind": kind, "shape": list(shape), "deviation_at": j, "where": where, "pred": predname, "tol": tol}}
        res = {}
        for nm, x, y in (("ab", a, b), ("ba", b, a)):
            try:
                res[nm] = bool(pred(with_memory_layout(x), y))
            except Exception as e:  # noqa: BLE001
                res[nm] = f"raised {type(e).__name__}: {e}"
        ctx.case(canon, where != "none", sample={"case": canon, "impl": res})
        ctx.count(f"{label}:long array:{kind}:{where}")
        ctx.tie("T2 long arrays: implementation = statement")
        want = where == "none"
        for nm in ("ab", "ba"):
            if res[nm] is not want:
                ctx.violation("E4", f"{label}: long array ({size} entries, deviation {where} at {j}): verdict {res[nm]}, the statement "
                                    f"requires {want}", canon, impl=res)
                break
        ctx.traces_validated += 1


def shared_predicate_stream(ctx, cases, label):
    """One DefaultEquality object per tolerance setting, used for a whole sequence of fields (float fields first, then
    integer and string fields) the way FieldDataComparator uses the object a predicate selector hands out: every verdict
    must still be the statement's."""
    from fieldcompare import predicates as P

    groups = {}
    for c in cases:
        if c["pred"] != "default" or "comp" in (c["rel"][0], c["abs"][0]):
            continue
        groups.setdefault(json.dumps([c["rel"], c["abs"]], default=str), []).append(c)
    n_seq = 0
    for key, cs in groups.items():
        floats_first = sorted(cs, key=lambda c: 0 if (c["a"]["dtype"] in FLOAT_DT or c["b"]["dtype"] in FLOAT_DT) else 1)
        for start in range(0, len(floats_first), 40):
            chunk = floats_first[:3] + floats_first[start:start + 40]     # a few float fields, then the chunk
            kw = {}
            r, t = py_tol(chunk[0]["rel"], ()), py_tol(chunk[0]["abs"], ())
            if r is not None:
                kw["rel_tol"] = r
            if t is not None:
                kw["abs_tol"] = t
            obj = P.DefaultEquality(**kw)
            n_seq += 1
            for c in chunk:
                want = oracle(c)
                if want is None:
                    continue
                got = impl_eval(c, pred_obj=obj)
                ctx.tie("T2 one predicate object over a sequence of fields = statement")
                if got != want:
                    ctx.violation("E4", f"{label}: a predicate object used for several fields in a row gives {got}, the statement {want}",
                                  {k: c[k] for k in ("pred", "a", "b", "rel", "abs")}, sequence_head=[x["a"]["dtype"] for x in chunk[:3]])
                    break
    ctx.count(f"{label}:shared predicate sequences", n_seq)


def mesh_integer_stream(ctx, n):
    """Integer point / cell fields (scalars and vectors) on meshes, compared through MeshFieldsComparator with large
    tolerances, the reference stored relabeled and / or with zero-padded third coordinate and vector components: a field
    passes iff its integers are identical (the views and the dimension matching must not turn integers into floats)."""
    import copy
    import warnings
    import numpy as np
    from fieldcompare.mesh import MeshFieldsComparator
    from fieldcompare import predicates as P
    from . import meshgen as G

    rng = ctx.rng
    for it in range(n):
        M = None
        while M is None or G.has_coincident_points(M):
            M = G.gen_mesh(rng, max_cells=4)
        npts, d = len(M["pts"]), M["dim"]
        big = rng.random() < 0.3
        ival = (lambda: rng.choice([2 ** 53 + 1, -(2 ** 53) - 3, 2 ** 62 + 5])) if big else (lambda: rng.randint(-50, 50))
        M["pf"]["id"] = [ival() for _ in range(npts)]
        if d >= 2:
            M["pf"]["iv"] = [[ival() for _ in range(d)] for _ in range(npts)]
        M["cf"]["cid"] = {t: [ival() for _ in rows] for t, rows in M["blocks"]}
        if d >= 2:
            M["cf"]["civ"] = {t: [[ival() for _ in range(d)] for _ in rows] for t, rows in M["blocks"]}
        R = copy.deepcopy(M)
        changed = None
        if rng.random() < 0.6:
            name = rng.choice(sorted(R["pf"]) + sorted(R["cf"]))
            if name in R["pf"]:
                rows = R["pf"][name]
                owner = name
            else:
                t = rng.choice(sorted(R["cf"][name]))
                rows = R["cf"][name][t]
                owner = f"{name} @ {t}"
            i = rng.randrange(len(rows))
            if isinstance(rows[i], list):
                rows[i][rng.randrange(len(rows[i]))] += rng.choice([-1, 1])
            else:
                rows[i] += rng.choice([-1, 1])
            changed = owner
        layout = rng.choice(["same", "relabeled", "padded", "padded+relabeled"]) if d < 3 else rng.choice(["same", "relabeled"])
        if "padded" in layout:
            R["dim"] = 3
            R["pts"] = [p + [Fr(0)] * (3 - d) for p in R["pts"]]
            for nm in ("iv",):
                if nm in R["pf"]:
                    R["pf"][nm] = [r + [0] * (3 - d) for r in R["pf"][nm]]
            if "civ" in R["cf"]:
                R["cf"]["civ"] = {t: [r + [0] * (3 - d) for r in rows] for t, rows in R["cf"]["civ"].items()}
        if "relabeled" in layout:
            R = G.relabel(rng, R)[0]
        role = rng.choice(["low_is_source", "low_is_reference"])
        A, B = (M, R) if role == "low_is_source" else (R, M)
        tol = rng.choice([1.0, 1000.0, 2.0 ** 40])
        canon = {"mesh": json.loads(json.dumps({k: v for k, v in M.items() if not k.startswith("_")}, default=str)),
                 "layout": layout, "changed": changed, "role": role, "tol": tol, "big": big}
        try:
            with warnings.catch_warnings():
                warnings.simplefilter("ignore")

                def to_fc(X):
                    f = G.to_fieldcompare(X)
                    return f
                suite = MeshFieldsComparator(to_fc(A), to_fc(B))(
                    predicate_selector=lambda s_, r_: P.DefaultEquality(rel_tol=tol, abs_tol=tol),
                    fieldcomp_callback=lambda c: None, reordering_callback=lambda m: None)
            res = {c.name: c.status.name for c in suite}
            dom = bool(suite.domain_equality_check)
        except Exception as e:  # noqa: BLE001
            ctx.case(canon, True)
            ctx.violation("E4", f"c09 mesh stream: comparison raised {type(e).__name__}: {e}", canon)
            continue
        ctx.case(canon, True, sample={"layout": layout, "changed": changed, "role": role, "tol": tol, "result": res})
        ctx.count(f"c09mesh:{layout}:{'changed' if changed else 'identical'}")
        ctx.tie("T2 integer mesh fields through MeshFieldsComparator = statement")
        if not dom:
            ctx.violation("E4", "c09 mesh stream: equal meshes do not pass the domain check", canon, impl=res)
            continue
        for name, st in res.items():
            want = "failed" if name == changed else "passed"
            if st != want:
                ctx.violation("E4", f"c09 mesh stream: integer field '{name}' is reported {st}, the statement requires {want} "
                                    f"(tolerance {tol}, reference stored {layout})", canon, impl=res)
                break
        ctx.traces_validated += 1


def c10_variants(c):
    """the six evaluations of one C10 triple"""
    ca = json.loads(json.dumps(c, default=str))
    return ca


def run_c10(ctx):
    from fieldcompare import predicates as P

    q = ctx.tier == "quick"
    n = 1400 if q else 40000
    rng = ctx.rng
    t1_tables(ctx)
    corpus = corpus_cases("C10")
    base = [c for c in corpus if "pred" in c]
    ctx.count("corpus cases", len(corpus))
    base += gen_exact_cases(rng, n, lambda: gen_fuzzy_case(rng, rng.choice(["float64", "float64", "float32"]),
                                                            rng.choice(["fuzzy", "default"])))
    base += gen_exact_cases(rng, n // 3, lambda: gen_c09_case(rng))
    # integer arrays given directly to FuzzyEquality / DefaultEquality with non-negative tolerances
    base += gen_exact_cases(rng, n // 3, lambda: gen_int_fuzzy_case(rng))
    base += gen_exact_cases(rng, n // 6, lambda: gen_congruent_int_case(rng))
    cases, groups = [], []
    for c in base:
        variants = {}
        ab = dict(c)
        ba = dict(c, a=c["b"], b=c["a"])
        aa = dict(c, b=json.loads(json.dumps(c["a"], default=str)) if False else dict(c["a"]))
        bb = dict(c, a=dict(c["b"]), b=dict(c["b"]))
        variants = {"ab": ab, "ba": ba, "aa": aa, "bb": bb}
        # a larger tolerance level (doubling / adding): monotonicity
        if c["pred"] != "exact":
            big = dict(c)
            big["rel"] = bigger(c["rel"], rng)
            big["abs"] = bigger(c["abs"], rng)
            variants["ab_big"] = big
        g = {}
        for name, v in variants.items():
            if exact_ok(v):
                g[name] = len(cases)
                cases.append(v)
        groups.append((c, g))
    impls = [impl_eval(c) for c in cases]
    models = ctx.coq_eval(HEADER, [coq_expr(c) for c in cases], name="c10")
    # one predicate object reused across a whole batch must give the same verdicts as fresh ones
    reuse_mismatch = 0
    shared = {}
    for idx, c in enumerate(cases):
        if c["pred"] == "exact" or c["rel"][0] == "comp" or c["abs"][0] == "comp":
            continue
        key = json.dumps([c["pred"], c["rel"], c["abs"]], default=str)
        tail = tuple(recon_shape(c)[1:])
        if key not in shared:
            kw = {}
            r, t = py_tol(c["rel"], tail), py_tol(c["abs"], tail)
            if r is not None:
                kw["rel_tol"] = r
            if t is not None:
                kw["abs_tol"] = t
            shared[key] = (P.FuzzyEquality if c["pred"] == "fuzzy" else P.DefaultEquality)(**kw)
        again = impl_eval(c, pred_obj=shared[key])
        ctx.tie("predicate object reused")
        if again != impls[idx]:
            reuse_mismatch += 1
            ctx.violation("E4", f"verdict depends on predicate object state: fresh {impls[idx]} vs reused {again}",
                          {k: c[k] for k in ("pred", "a", "b", "rel", "abs")})
    # the same predicate object evaluated on (a,b), (b,a), (a,a), (a,b) again must reproduce the fresh verdicts
    for c, g in groups:
        if c["pred"] == "exact" or "ab" not in g or "ba" not in g:
            continue
        if c["a"]["shape"] != c["b"]["shape"] and "comp" in (c["rel"][0], c["abs"][0]):
            continue      # a per-component tolerance array fits only one of the two shapes
        tail = tuple(recon_shape(c)[1:])
        kw = {}
        r, t = py_tol(c["rel"], tail), py_tol(c["abs"], tail)
        if r is not None:
            kw["rel_tol"] = r
        if t is not None:
            kw["abs_tol"] = t
        obj = (P.FuzzyEquality if c["pred"] == "fuzzy" else P.DefaultEquality)(**kw)
        seq = [("ab", cases[g["ab"]]), ("ba", cases[g["ba"]])] + ([("aa", cases[g["aa"]])] if "aa" in g else []) + [("ab", cases[g["ab"]])]
        for name, v in seq:
            again = impl_eval(v, pred_obj=obj)
            ctx.tie("predicate object reused within a triple")
            if again != impls[g[name]]:
                ctx.violation("E4", f"verdict depends on predicate/tolerance object state: fresh {impls[g[name]]} vs reused {again} on {name}",
                              {k: v[k] for k in ("pred", "a", "b", "rel", "abs")})
                break
    judge(ctx, cases, impls, models, "c10")
    # the laws themselves (oracle = the statement), evaluated on the implementation
    for c, g in groups:
        canon = {k: c[k] for k in ("pred", "a", "b", "rel", "abs")}
        finite_num = c["a"]["dtype"] != "str" and c["b"]["dtype"] != "str"
        for self_name in ("aa", "bb"):
            if self_name in g and impls[g[self_name]] != 1 and (finite_num or c["pred"] != "fuzzy"):
                v = cases[g[self_name]]
                if oracle(v) is not None:     # (None: the given tolerance array does not fit this array's shape)
                    ctx.violation("E4", f"reflexivity: an array does not compare equal to itself (result {impls[g[self_name]]})",
                                  {k: v[k] for k in ("pred", "a", "b", "rel", "abs")}, law="reflexive")
        if "ab" in g and "ba" in g and impls[g["ab"]] != impls[g["ba"]]:
            ctx.violation("E4", f"symmetry: P(a,b)={impls[g['ab']]} but P(b,a)={impls[g['ba']]}", canon, law="symmetric")
        if "ab" in g and "ab_big" in g and impls[g["ab"]] == 1 and impls[g["ab_big"]] != 1:
            v = cases[g["ab_big"]]
            ctx.violation("E4", "monotonicity: enlarging the tolerances turned a pass into a fail",
                          {**canon, "rel2": v["rel"], "abs2": v["abs"]}, law="monotone")
        ctx.tie("law triples evaluated")
    # ScaledTolerance numeric value
    n_sc = 400 if q else 8000
    exprs, vals, metas = [], [], []
    sc_corpus = [c for c in corpus if "scaled_tolerance" in c]
    for it in range(n_sc + len(sc_corpus)):
        if it < len(sc_corpus):
            cc = sc_corpus[it]
            run_scaled_case(ctx, Fr(cc["scaled_tolerance"]), cc["per_component"], cc["a"]["dtype"], cc["a"]["shape"],
                            cc["a"]["vals"], cc["b"]["vals"], exprs, vals)
            continue
        dt = rng.choice(["float64", "float64", "int32", "int64", "uint16", "int8"])
        shape = shape_choices(rng)
        size = int(np.prod(shape))
        if size == 0:
            continue
        E = rng.randint(-30, 30)
        if dt == "float64":
            a = [Fr(rng.randint(-999, 999)) * Fr(2) ** E for _ in range(size)]
            b = [Fr(rng.randint(-999, 999)) * Fr(2) ** E for _ in range(size)]
        else:
            w, s = INT_DT[dt]
            lo, hi = (-(2 ** (w - 1)), 2 ** (w - 1) - 1) if s else (0, 2 ** w - 1)
            lo, hi = max(lo, -2 ** 50), min(hi, 2 ** 50)
            a = [rng.choice([lo, hi, rng.randint(lo, hi), rng.randint(lo, hi)]) for _ in range(size)]
            b = [rng.choice([lo, hi, rng.randint(lo, hi), rng.randint(lo, hi)]) for _ in range(size)]
        if rng.random() < 0.08:
            a, b = [0 * x for x in a], [0 * x for x in b]       # identically zero fields: t * max|value| is zero
        t = Fr(rng.choice([1, 3, 5]), 2 ** rng.randint(0, 12))
        comp = rng.random() < 0.4
        run_scaled_case(ctx, t, comp, dt, shape, a, b, exprs, vals)
    default_base_reuse_stream(ctx, 60 if q else 1500)
    unbounded_tolerance_stream(ctx, 80 if q else 2000)
    extreme_shape_and_tolerance_stream(ctx, 60 if q else 1500)
    outs = ctx.coq_eval(HEADER, exprs, name="scaled")
    for want, out in zip(vals, outs):
        got = [Fr(x[0], x[1]) for x in out]
        ctx.tie("scaled tolerance value: model vs implementation")
        if got != want:
            ctx.violation("E2", f"scaled tolerance: model {got} != implementation/statement {want}", {"want": [str(w) for w in want]},
                          found_input=False)
    ctx.rule = ("triples (A,B,tol1<=tol2) from the C01/C09 generators plus integer arrays given directly to the fuzzy "
                "predicates; P(A,A), P(B,B), P(A,B), P(B,A) and P at the larger tolerance are evaluated on implementation and "
                "model; fresh vs reused predicate objects; ScaledTolerance values. non-trivial = arrays differ")


def unbounded_tolerance_stream(ctx, n):
    """the largest tolerance there is: with abs_tol = inf (scalar, or one component of a per-component tolerance) every finite
    array equals itself and every finite pair passes — enlarging a tolerance up to infinity never turns a pass into a fail"""
    from fieldcompare import predicates as P
    rng = ctx.rng
    for it in range(n):
        k = rng.choice([None, 3])
        L = rng.randint(1, 4)
        shape = (L,) if k is None else (L, k)
        dt = rng.choice(["float64", "float32", "int32"])
        a = np.array([rng.randint(-1000, 1000) for _ in range(int(np.prod(shape)))]).reshape(shape).astype(dt)
        b = a.copy()
        b.reshape(-1)[rng.randrange(b.size)] += rng.choice([0, 1, 7])
        if k is not None and rng.random() < 0.5:
            tol = np.array([1.0, np.inf, 0.5])
            form = "one component infinite"
        else:
            tol = np.inf
            form = "infinite"
        canon = {"unbounded_tolerance": {"dtype": dt, "shape": list(shape), "abs_tol": form, "a": a.tolist(), "b": b.tolist()}}
        res = {}
        for nm, x, y in (("aa", a, a.copy()), ("ab", a, b), ("ba", b, a)):
            try:
                res[nm] = bool(P.FuzzyEquality(rel_tol=0.0, abs_tol=tol)(x, y))
            except Exception as e:  # noqa: BLE001
                res[nm] = f"raised {type(e).__name__}: {e}"
        small = bool(P.FuzzyEquality(rel_tol=0.0, abs_tol=(np.array([1.0, 8.0, 0.5]) if form != "infinite" else 8.0))(a, b))
        ctx.case(canon, True, sample={"case": canon, "impl": res, "with abs_tol 8": small})
        ctx.count(f"c10:absolute tolerance {form}")
        ctx.tie("T2 unbounded tolerances: reflexive, and a pass at a finite tolerance stays a pass")
        if res["aa"] is not True:
            ctx.violation("E4", f"c10: an array does not compare equal to itself under an {form} absolute tolerance: {res['aa']}", canon, impl=res)
        elif res["ab"] != res["ba"]:
            ctx.violation("E4", f"c10: verdict depends on the argument order under an {form} absolute tolerance: {res}", canon, impl=res)
        elif small and res["ab"] is not True:
            ctx.violation("E4", f"c10: a pair that passes at abs_tol 8 fails at an {form} absolute tolerance", canon, impl=res)
        elif form == "infinite" and res["ab"] is not True:
            ctx.violation("E4", "c10: a finite pair does not pass under an infinite absolute tolerance", canon, impl=res)
        ctx.traces_validated += 1


def extreme_shape_and_tolerance_stream(ctx, n):
    """(a) relative tolerances so large that rel*max(|a|,|b|) exceeds the largest double (a way to switch a component off): the
    formula's threshold is then simply huge, every finite pair passes; (b) an empty array against a non-empty one: different
    shapes never compare equal, whichever of the two is passed first"""
    from fieldcompare import predicates as P
    rng = ctx.rng
    for it in range(n):
        if it % 2 == 0:
            k = rng.choice([None, 2])
            L = rng.randint(1, 4)
            shape = (L,) if k is None else (L, k)
            mag = rng.choice([1.0e9, 1.0e300, 3.0e12])
            a = np.full(shape, mag) * np.array([rng.choice([1.0, 0.5, -1.0]) for _ in range(int(np.prod(shape)))]).reshape(shape)
            b = a.copy()
            if rng.random() < 0.6:
                b.reshape(-1)[rng.randrange(b.size)] *= 0.5
            rel = 1e300 if k is None or rng.random() < 0.5 else np.array([1e300, 1e300])
            canon = {"huge_relative_tolerance": {"shape": list(shape), "magnitude": mag, "per_component": not np.isscalar(rel),
                                                 "identical": bool(np.array_equal(a, b))}}
            res = {}
            for nm, x, y in (("aa", a, a.copy()), ("ab", a, b), ("ba", b, a)):
                try:
                    res[nm] = bool(P.FuzzyEquality(rel_tol=rel, abs_tol=0.0)(x, y))
                except Exception as e:  # noqa: BLE001
                    res[nm] = f"raised {type(e).__name__}: {e}"
            ctx.case(canon, True, sample={"case": canon, "impl": res})
            ctx.count("c01:relative tolerance beyond the largest double")
            if not (res["aa"] is True and res["ab"] is True and res["ba"] is True):
                ctx.violation("E4", f"values of magnitude {mag:g} under rel_tol=1e300 (threshold beyond every deviation): verdicts {res}, the formula "
                                    "gives equal", canon, impl=res)
        else:
            k = rng.choice([None, 3])
            L = rng.randint(1, 4)
            dt = rng.choice(["float64", "float32", "int32"])
            full = np.arange(L * (k or 1)).reshape((L,) if k is None else (L, k)).astype(dt)
            empty = np.zeros((0,) if k is None else (0, k), dtype=dt)
            pred = rng.choice([P.FuzzyEquality(rel_tol=1e-3, abs_tol=1e-3), P.DefaultEquality(), P.ExactEquality()])
            canon = {"empty_vs_nonempty": {"dtype": dt, "shape": list(full.shape), "predicate": type(pred).__name__}}
            res = {}
            for nm, x, y in (("empty_first", empty, full), ("empty_second", full, empty), ("both_empty", empty, empty.copy())):
                try:
                    res[nm] = bool(pred(x, y))
                except Exception as e:  # noqa: BLE001
                    res[nm] = f"raised {type(e).__name__}: {e}"
            ctx.case(canon, True, sample={"case": canon, "impl": res})
            ctx.count("c01:empty array against a non-empty one")
            if res["empty_first"] is not False or res["empty_second"] is not False or res["both_empty"] is not True:
                ctx.violation("E4", f"an empty array against an array of shape {list(full.shape)} ({type(pred).__name__}): verdicts {res}; arrays of "
                                    "different shape never compare equal (in either order), two empty ones do", canon, impl=res)
        ctx.traces_validated += 1


def default_base_reuse_stream(ctx, n):
    """ONE ScaledTolerance() created without base tolerance (the default: machine epsilon of the fields' common float type, zero
    for integers), evaluated on a sequence of fields of different numeric types, directly and inside one FuzzyEquality: every
    value is default(types of THIS pair) * max|value| and every verdict the one of a fresh object — whatever came before"""
    from fieldcompare import predicates as P
    rng = ctx.rng
    EPS_ = {"float64": 2.0 ** -52, "float32": 2.0 ** -23}
    for it in range(n):
        tol = P.ScaledTolerance()
        pred = P.FuzzyEquality(abs_tol=P.ScaledTolerance(), rel_tol=0.0)
        seq = [rng.choice(["int32", "float64", "float32", "int64", "float64"]) for _ in range(rng.randint(2, 5))]
        hist = []
        for dt in seq:
            L = rng.randint(1, 4)
            if dt.startswith("int"):
                a = np.array([rng.randint(-1000, 1000) for _ in range(L)], dtype=dt)
                b = a.copy()
            else:
                a = np.array([rng.randint(1, 64) / 8.0 * rng.choice([1, -1]) * 2.0 ** rng.randint(-3, 6) for _ in range(L)], dtype=dt)
                b = a.copy()
            mx = float(max(np.max(np.abs(a.astype(float))), np.max(np.abs(b.astype(float)))))
            base = 0.0 if dt.startswith("int") else EPS_[dt]
            want_val = base * mx
            # a deviation of half / twice the tolerance at the entry of largest magnitude (floats only)
            verdicts = None
            if not dt.startswith("int"):
                j = int(np.argmax(np.abs(a)))
                b_in, b_out = a.copy(), a.copy()
                ulp = np.spacing(np.abs(a[j]))           # = eps(type) * 2^floor(log2|a_j|) <= base * mx
                b_out[j] = a[j] + np.sign(a[j]) * 4 * ulp
                verdicts = (bool(pred(a, a.copy())), bool(pred(a, b_out)),
                            bool(P.FuzzyEquality(abs_tol=P.ScaledTolerance(), rel_tol=0.0)(a, b_out)))
            hist.append(dt)
            canon = {"default_base_reuse": {"types_so_far": list(hist), "values": [float(x) for x in a]}}
            try:
                got = float(np.max(np.asarray(tol(a, b), dtype=float)))
            except Exception as e:  # noqa: BLE001
                ctx.violation("E4", f"ScaledTolerance() raised {type(e).__name__}: {e}", canon)
                break
            ctx.case(canon, len(hist) > 1, sample={"case": canon, "value": got, "statement": want_val})
            ctx.count(f"c10:default base tolerance reused:{dt} after {hist[-2] if len(hist) > 1 else 'nothing'}")
            ctx.tie("T2 ScaledTolerance() default base over a sequence of field types")
            if abs(got - want_val) > 1e-12 * max(want_val, 1e-300):
                ctx.violation("E4", f"ScaledTolerance() used for {hist}: value {got!r} for the last pair, the statement gives "
                                    f"eps(type) * max|value| = {want_val!r}", canon)
                break
            if verdicts is not None and (verdicts[0] is not True or verdicts[1] != verdicts[2]):
                ctx.violation("E4", f"a FuzzyEquality holding ScaledTolerance() and used for {hist} answers {verdicts[:2]} (identical, "
                                    f"4 ulp off) where a fresh one answers (True, {verdicts[2]})", canon)
                break
            ctx.traces_validated += 1


def run_scaled_case(ctx, t, comp, dt, shape, a, b, exprs, vals):
    from fieldcompare import predicates as P

    size = int(np.prod(shape))
    n_comp = int(np.prod(shape[1:])) if len(shape) > 1 else 1
    A = {"dtype": dt, "shape": shape, "vals": a}
    B = {"dtype": dt, "shape": shape, "vals": b}
    tol = P.ScaledTolerance(float(t), use_component_magnitudes=comp)
    got = np.asarray(tol(np_array(A), np_array(B)), dtype=float).reshape(-1)
    got_swapped = np.asarray(tol(np_array(B), np_array(A)), dtype=float).reshape(-1)
    got_again = np.asarray(tol(np_array(A), np_array(B)), dtype=float).reshape(-1)
    if not (np.array_equal(got, got_swapped) and np.array_equal(got, got_again)):
        ctx.violation("E4", "ScaledTolerance value changes when the same object is evaluated again / with swapped arguments",
                      {"scaled_tolerance": str(t), "per_component": comp, "a": A, "b": B},
                      impl=[got.tolist(), got_swapped.tolist(), got_again.tolist()])
    fa, fb = [Fr(x) for x in a], [Fr(x) for x in b]
    if comp:
        want = [t * max(max(abs(x) for i, x in enumerate(fa) if i % n_comp == cc),
                        max(abs(x) for i, x in enumerate(fb) if i % n_comp == cc)) for cc in range(n_comp)]
    else:
        want = [t * max(abs(x) for x in fa + fb)]
    if not all(representable(w_, "float64") for w_ in want):
        return
    got_fr = [Fr(float(x)) for x in got]
    canon = {"scaled_tolerance": str(t), "per_component": comp, "a": A, "b": B}
    ctx.case(canon, True, sample={"case": canon, "impl": [str(x) for x in got_fr], "statement": [str(x) for x in want]})
    ctx.count(f"scaled:{dt}:{'comp' if comp else 'scalar'}")
    if got_fr != want:
        ctx.violation("E4", "ScaledTolerance(t)(a,b) is not t * max|value| " + ("per component" if comp else ""),
                      canon, impl=[str(x) for x in got_fr], statement=[str(x) for x in want])
    spec = f"(TScaledComp {cq(t)})" if comp else f"(TScaled {cq(t)})"
    kd = kind_of(dt)
    exprs.append(f"match resolve {spec} {kd} {kd} {clist([cnat(x) for x in shape], 'nat')} "
                 f"{clist([cq(x) for x in fa], 'Q')} {clist([cq(x) for x in fb], 'Q')} with "
                 f"Some (RNum v) => [qout v] | Some (RComp l) => map qout l | None => [] end")
    vals.append(want)



def bigger(t, rng):
    k = t[0]
    if k == "num":
        return ["num", rng.choice([Fr(t[1]) * 2, Fr(t[1]) + Fr(1, 2 ** rng.randint(0, 30)), Fr(t[1])])]
    if k == "comp":
        return ["comp", [Fr(x) * rng.choice([1, 2]) for x in t[1]]]
    if k in ("scaled", "scaledcomp"):
        return [k, Fr(t[1]) * rng.choice([1, 2, 4])]
    return t


def gen_int_fuzzy_case(rng):
    """integer arrays given directly to FuzzyEquality (no wrap-around in this stream: small magnitudes)"""
    dt = rng.choice(list(INT_DT))
    w, s = INT_DT[dt]
    shape = shape_choices(rng)
    size = int(np.prod(shape))
    lo, hi = (-(2 ** (w - 2)), 2 ** (w - 2) - 1) if s else (0, 2 ** (w - 1) - 1)
    lo, hi = max(lo, -2 ** 40), min(hi, 2 ** 40)
    a = [rng.randint(lo, hi) for _ in range(size)]
    b = [min(hi, max(lo, x + rng.choice([0, 0, 1, -1, 2, 5]))) for x in a]
    rel = rng.choice([["num", Fr(0)], ["num", Fr(1, 2)], ["num", Fr(1, 8)], ["default"]])
    ab = rng.choice([["num", Fr(0)], ["num", Fr(1)], ["num", Fr(2)], ["default"]])
    return {"pred": rng.choice(["fuzzy", "fuzzy", "default"]), "a": {"dtype": dt, "shape": shape, "vals": a},
            "b": {"dtype": dt, "shape": list(shape), "vals": b}, "rel": rel, "abs": ab, "meta": {"mode": "int_fuzzy"}}


# ------------------------------------------------------------------------------------------------
def run(ctx):
    ctx.prove()
    {"C01": run_c01, "C09": run_c09, "C10": run_c10}[ctx.pid](ctx)
    return ctx.finish(
        assumptions=[
            "numpy 2.x elementwise float ops are IEEE-754 binary64/binary32 without fused contraction (float stream is bit-exact against PrimFloat)",
            "on the exact stream every floating-point operation of the implementation is exact (verified per case with Fraction)",
        ],
        trusted=["harness/predfam.py generators, exactness filter, Fraction oracle", "numpy (array semantics are modelled as shape + flat list)"],
    )


def replay(pid, rec):
    c = rec["case"]
    if c is None:
        print("no concrete input in this replay (broken obligation):", rec["what"])
        return False
    if "float_case" in c:
        from fieldcompare.predicates import FuzzyEquality
        fc = c["float_case"]
        a = np.array([float.fromhex(x) for x in fc["a"]])
        b = np.array([float.fromhex(x) for x in fc["b"]])
        im = bool(FuzzyEquality(rel_tol=float.fromhex(fc["rel"]), abs_tol=float.fromhex(fc["abs"]))(a, b))
        print("implementation:", im, "recorded:", rec.get("impl"))
        return im != rec.get("impl")
    if "scaled_tolerance" in c:
        from fieldcompare.predicates import ScaledTolerance
        cc = decode_case(c)
        t, comp = Fr(cc["scaled_tolerance"]), cc["per_component"]
        got = np.asarray(ScaledTolerance(float(t), use_component_magnitudes=comp)(np_array(cc["a"]), np_array(cc["b"])), dtype=float).reshape(-1)
        fa, fb = [Fr(x) for x in cc["a"]["vals"]], [Fr(x) for x in cc["b"]["vals"]]
        shape = cc["a"]["shape"]
        n_comp = int(np.prod(shape[1:])) if len(shape) > 1 else 1
        want = ([t * max(max(abs(x) for i, x in enumerate(fa) if i % n_comp == k), max(abs(x) for i, x in enumerate(fb) if i % n_comp == k))
                 for k in range(n_comp)] if comp else [t * max(abs(x) for x in fa + fb)])
        print("implementation:", [str(Fr(float(x))) for x in got], "statement:", [str(x) for x in want])
        return [Fr(float(x)) for x in got] == want
    if "pred" in c:
        for X in (c["a"], c["b"]):
            X["vals"] = [Fr(v) if X["dtype"] in FLOAT_DT else (v if X["dtype"] == "str" else int(v)) for v in X["vals"]]
        for k in ("rel", "abs"):
            t = c[k]
            if t[0] in ("num", "scaled", "scaledcomp"):
                t[1] = Fr(t[1])
            elif t[0] == "comp":
                t[1] = [Fr(x) for x in t[1]]
        law = rec.get("law")
        im = impl_eval(c)
        if law == "symmetric":
            im2 = impl_eval(dict(c, a=c["b"], b=c["a"]))
            print("P(a,b) =", im, " P(b,a) =", im2)
            return im == im2
        if law == "reflexive":
            print("P(a,a) =", im)
            return im == 1
        if law == "monotone":
            big = dict(c, rel=[c["rel2"][0], Fr(c["rel2"][1])] if c["rel2"][0] != "comp" else c["rel"],
                       abs=[c["abs2"][0], Fr(c["abs2"][1])] if c["abs2"][0] != "comp" else c["abs"])
            im2 = impl_eval(big)
            print("small tol:", im, "large tol:", im2)
            return not (im == 1 and im2 != 1)
        orc = oracle(c)
        print("implementation:", im, "statement:", orc)
        return orc is None or im == orc
    print("table row:", c)
    return False
