"""Classifiers of the open known findings (known_findings.json).  A classifier recognises exactly the
documented failing input class from a violation record; it is never extended at run time."""


def image_parameters_close_points_not(rec):
    """F-C16c: two ImageMesh objects whose spacing differs by LESS than the absolute tolerance (all defining parameters agree
    within tolerance, so parameter-wise equality answers 'equal') while the points generated far from the origin differ by
    more than the tolerance.  Only this input class: image meshes, spacing difference below tolerance."""
    c = rec.get("case") or {}
    ch = c.get("changed") or [None]
    return (rec.get("property") == "C16" and c.get("kind") == "image" and ch[0] == "spacing-below-tolerance"
            and "image meshes compare equal although their points differ" in rec.get("what", ""))


def merge_piece_without_new_points(rec):
    """F-C06a: merging (or reading a .pvtu/.pvtp whose) later piece contributes NO new point — all its points already
    exist in the pieces merged before it — drops that piece's cells and cell data (early `return fields1` in _merge).
    Only this input class: the violation record names at least one piece without new points."""
    what = rec.get("what", "")
    part = (rec.get("case") or {}).get("part") or {}
    pieces = part.get("pieces") or []
    if rec.get("property") != "C06" or not what.startswith("F-C06a "):
        return False
    # re-derive from the recorded partition that some later piece indeed adds no new point
    seen = set()
    nofresh = False
    for i, pc in enumerate(pieces):
        pts = set(pc.get("points", []))
        if i > 0 and pts <= seen:
            nofresh = True
        seen |= pts
    return nofresh and bool(rec.get("pieces_without_new_points", True))
