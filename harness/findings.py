"""Classifiers of the open known findings (known_findings.json).  A classifier recognises exactly the
documented failing input class from a violation record; it is never extended at run time."""


def image_parameters_close_points_not(rec):
    """F-C16c: two ImageMesh objects whose spacing differs by LESS than the absolute tolerance (all defining parameters agree
    within tolerance, so parameter-wise equality answers 'equal') while the points generated far from the origin differ by
    more than the tolerance.  Only this input class: image meshes, spacing difference below tolerance."""
    c = rec.get("case") or {}
    ch = c.get("changed") or [None]
    return (rec.get("property") == "C16" and c.get("kind") == "image" and ch[0] == "spacing-below-tolerance"
            and "image meshes compare equal although their points differ" in rec.get("what", ""))


def merge_piece_without_new_points(rec):
    """F-C06a: merging (or reading a .pvtu/.pvtp whose) later piece contributes NO new point — all its points already
    exist in the pieces merged before it — drops that piece's cells and cell data (early `return fields1` in _merge).
    Only this input class: the violation record names at least one piece without new points."""
    what = rec.get("what", "")
    part = (rec.get("case") or {}).get("part") or {}
    pieces = part.get("pieces") or []
    if rec.get("property") != "C06" or not what.startswith("F-C06a "):
        return False
    # re-derive from the recorded partition that some later piece indeed adds no new point
    seen = set()
    nofresh = False
    for i, pc in enumerate(pieces):
        pts = set(pc.get("points", []))
        if i > 0 and pts <= seen:
            nofresh = True
        seen |= pts
    return nofresh and bool(rec.get("pieces_without_new_points", True))


def merge_many_piece_without_new_points(rec):
    """F-C08c (= F-C06a seen through C08's conservation law): merge() of several pieces in one call where every point of some
    later piece already exists in the pieces before it; exactly that piece's cells are missing.  Only this input class: the
    recorded pieces are re-examined for a later piece without new points, and the harness has established that nothing but the
    cells of such pieces is missing."""
    what = rec.get("what", "")
    if rec.get("property") != "C08" or not what.startswith("F-C06a (seen through C08) "):
        return False
    pieces = (rec.get("case") or {}).get("pieces") or []
    seen, nofresh = set(), []
    for i, pc in enumerate(pieces):
        own = {tuple(map(str, pt)) for pt in pc.get("pts", [])}
        if i > 0 and own <= seen:
            nofresh.append(i)
        seen |= own
    return bool(nofresh) and rec.get("pieces_without_new_points") == nofresh


def _cols(rec):
    return ((rec.get("case") or {}).get("cols")) or []


def _is_number_like(s):
    try:
        float(s)
        return True
    except (TypeError, ValueError):
        return False


def csv_string_column_with_numeric_cell(rec):
    """F-C13c: a csv STRING column that contains both a cell that parses as a number and a cell that does not
    (np.genfromtxt(dtype=None) of numpy 2.x raises TypeError while deducing the column type)."""
    if rec.get("property") != "C13" or not rec.get("what", "").startswith("F-C13c:"):
        return False
    return any(t == "str" and any(_is_number_like(v) for v in vals) and any(not _is_number_like(v) for v in vals)
               for _, t, vals in _cols(rec))


def csv_string_cell_outer_whitespace(rec):
    """F-C13e: a string cell with leading white space in the first column / trailing white space in the last column
    (np.genfromtxt strips every line before splitting it)."""
    if rec.get("property") != "C13" or not rec.get("what", "").startswith("F-C13e:"):
        return False
    cols = _cols(rec)
    if not cols:
        return False
    first, last = cols[0], cols[-1]
    return (first[1] == "str" and any(str(v) != str(v).lstrip() for v in first[2])) or \
           (last[1] == "str" and any(str(v) != str(v).rstrip() for v in last[2]))


def csv_uint64_beyond_int64(rec):
    """F-C13f: an unsigned integer csv column holding a value >= 2^63 (np.genfromtxt tries int64, then float64)."""
    if rec.get("property") != "C13" or not rec.get("what", "").startswith("F-C13f:"):
        return False
    return any(t in ("uint", "int") and any(isinstance(v, int) and v >= 2 ** 63 for v in vals) for _, t, vals in _cols(rec))


def csv_column_named_like_numpy_excludelist(rec):
    """F-C13g: a csv column whose name is exactly 'file', 'print' or 'return' (the fixed `excludelist` of numpy's NameValidator,
    which cannot be switched off through np.genfromtxt) comes back with '_' appended."""
    if rec.get("property") != "C13" or not rec.get("what", "").startswith("F-C13g:"):
        return False
    return any(nm in ("file", "print", "return") for nm, _, _ in _cols(rec))


def csv_column_name_with_double_quote(rec):
    """F-C13h: a csv column whose NAME contains a double quote character (numpy's NameValidator always adds '"' to the characters
    it deletes from names; np.genfromtxt's deletechars argument cannot remove it) comes back without the quote."""
    if rec.get("property") != "C13" or not rec.get("what", "").startswith("F-C13h:"):
        return False
    return any('"' in str(nm) for nm, _, _ in _cols(rec))


def table_integer_difference_beyond_double(rec):
    """F-C14b: diff_to of two TABLES whose integer-typed columns (not uint64) differ by more than 2^53 in an entry: the result
    column is double precision, so that entry is the nearest double of the exact difference.  Only this input class: a table case,
    and some integer column pair of the recorded case has an exact difference that is no double."""
    if rec.get("property") != "C14" or not rec.get("what", "").startswith("F-C14b:"):
        return False
    c = rec.get("case") or {}
    if c.get("kind") != "table":
        return False
    dts = c.get("dtypes", {})
    S, R = dict(c.get("src", [])), dict(c.get("ref_stored", c.get("ref", [])))
    ints = ("i8", "i4", "i1", "u1", "u2")
    for n in S:
        if n in R and dts.get("src", {}).get(n) in ints and dts.get("ref", {}).get(n) in ints:
            for a, b in zip(S[n], R[n]):
                try:
                    d = int(b) - int(a)
                except (TypeError, ValueError):
                    continue
                if int(float(d)) != d:
                    return True
    return False
