"""Classifiers of the open known findings (known_findings.json).  A classifier recognises exactly the
documented failing input class from a violation record; it is never extended at run time."""


def image_parameters_close_points_not(rec):
    """F-C16c: two ImageMesh objects whose spacing differs by LESS than the absolute tolerance (all defining parameters agree
    within tolerance, so parameter-wise equality answers 'equal') while the points generated far from the origin differ by
    more than the tolerance.  Only this input class: image meshes, spacing difference below tolerance."""
    c = rec.get("case") or {}
    ch = c.get("changed") or [None]
    return (rec.get("property") == "C16" and c.get("kind") == "image" and ch[0] == "spacing-below-tolerance"
            and "image meshes compare equal although their points differ" in rec.get("what", ""))
