"""Classifiers of the open known findings (known_findings.json).  A classifier recognises exactly the
documented failing input class from a violation record; it is never extended at run time."""
