"""C11 — every field reported exactly once with the correct status; filtered fields cannot affect the verdict.

T1: FieldComparisonStatus truthiness and FieldComparisonSuite.__bool__ tables.  T2: FieldDataComparator /
MeshFieldsComparator on TabularFields and MeshFields with random overlapping name sets vs Model.Compare.compare.
Oracle: set algebra on the name sets, from the statement.
"""
from __future__ import annotations

import fnmatch
import itertools
import json

import numpy as np

from . import lib
from .lib import cnat, clist

HEADER = """From Coq Require Import Arith Bool List.
From FC Require Import Model.Compare.
Import ListNotations.
Definition F (n b : nat) : field := {| fname := n; fbase := b |}.
Definition code (s : fstatus) : nat := match s with Passed => 0 | Failed => 1 | Error => 2 | MissingSource => 3 | MissingReference => 4 | Filtered => 5 end.
Definition tbl (l : list nat) (n : nat) : bool := existsb (Nat.eqb n) l.
Definition outs (l : list outcome) (n : nat) : outcome := nth n l OPass.
Definition run (d : bool) (incl excl : list nat) (o : list outcome) (src ref : list field) :=
  let S := compare d (tbl incl) (tbl excl) (outs o) src ref in
  (map (fun e => (fst e, code (snd e))) (entries S), trace S, suite_bool S).
"""
STATUS_CODE = {"passed": 0, "failed": 1, "error": 2, "missing_source": 3, "missing_reference": 4, "filtered": 5}
POOL = ["p", "u", "vel", "T", "rho", "x_1", "a b", "k[0]", "q*", "w?", "temp", "pressure", "s", "S"]
ODD = ["a @ b", " @ ", "p @ TRIANGLE", "", "*", "[!a]", "x @ y @ z"]


class Raising:
    def __call__(self, a, b):
        raise RuntimeError("predicate exploded")

    def __str__(self):
        return "Raising"


def gen_case(rng, odd=False):
    kind = rng.choice(["table", "table", "mesh", "meshcmp"])
    pool = POOL + (ODD if odd and kind == "table" else [])
    k = rng.randint(2, 8)
    base = rng.sample(pool, min(k, len(pool)))
    c = {"kind": kind, "domain_ok": rng.random() > 0.08}
    if kind == "table":
        src = [n for n in base if rng.random() < 0.75]
        ref = [n for n in base if rng.random() < 0.75]
        rng.shuffle(src)
        rng.shuffle(ref)
        # (full name, base name): filters and predicate selection see the name up to the last " @ " (annotation)
        c["src"] = [[n, n.rsplit(" @ ", 1)[0]] for n in src]
        c["ref"] = [[n, n.rsplit(" @ ", 1)[0]] for n in ref]
    else:
        # point fields and cell fields on a mesh with cell types TRIANGLE and QUAD (iteration order: the mesh's)
        types = rng.choice([["TRIANGLE", "QUAD"], ["QUAD", "TRIANGLE"], ["QUAD"]])
        c["types"] = types

        def side():
            pts = [n for n in base if rng.random() < 0.6]
            cells = [n for n in base if rng.random() < 0.6]
            rng.shuffle(pts)
            rng.shuffle(cells)
            return pts, cells

        (ps, cs), (pr, cr) = side(), side()
        c["src_pc"], c["ref_pc"] = [ps, cs], [pr, cr]
        c["src"] = [[n, n] for n in ps] + [[f"{n} @ {t}", n] for t in types for n in cs]
        c["ref"] = [[n, n] for n in pr] + [[f"{n} @ {t}", n] for t in types for n in cr]
        if kind == "meshcmp":
            c["domain_ok"] = True
    common = [n for n, _ in c["src"] if n in {m for m, _ in c["ref"]}]
    c["outcome"] = {n: rng.choice(["pass", "pass", "fail", "raise", "shape", "selector_raise"]) for n in common}
    if kind != "table" and len(c["types"]) == 2 and rng.random() < 0.15:
        # the QUAD block is declared but holds no cell: its cell fields (empty arrays) are fields like any other
        c["empty_quad"] = True
        for n in common:
            if n.endswith(" @ QUAD") and c["outcome"][n] in ("fail", "raise"):
                c["outcome"][n] = "pass"
    # a predicate selector only sees the annotation-free name: a raising selection applies to every field of that base name
    bases_raise = {dict(c["src"])[n] for n, o in c["outcome"].items() if o == "selector_raise"}
    for n in common:
        if dict(c["src"])[n] in bases_raise:
            c["outcome"][n] = "selector_raise"
    # filters on base names: explicit sets or wildcard patterns
    mode = rng.choice(["none", "set", "set", "pattern"])
    if mode == "none":
        c["incl_pat"], c["excl_pat"] = None, None
    elif mode == "set":
        c["incl_pat"] = [fnmatch_escape(n) for n in base if rng.random() < 0.7] if rng.random() < 0.7 else None
        c["excl_pat"] = [fnmatch_escape(n) for n in base if rng.random() < 0.3] if rng.random() < 0.7 else None
    else:
        c["incl_pat"] = rng.choice([["*"], ["p*", "u"], ["?"], ["[a-t]*"], ["*e*"]])
        c["excl_pat"] = rng.choice([None, ["*"], ["t*"], ["?"], ["*o*"]])
    return c


def fnmatch_escape(n):
    return "".join("[" + ch + "]" if ch in "*?[" else ch for ch in n)


def flt(pats, default):
    if pats is None:
        return lambda name: default
    return lambda name: any(fnmatch.fnmatch(name, p) for p in pats)


def values_for(name, outcome, side, n):
    """payloads that force the requested predicate outcome"""
    h = sum(ord(ch) for ch in name) % 7
    base = np.arange(n, dtype=float) + h
    if outcome in ("pass", "selector_raise") or outcome is None:
        return base
    if outcome == "fail":
        return base if side == "src" else base + 1.0
    if outcome == "shape":
        return base if side == "src" else np.stack([base, base], axis=1)
    if outcome == "raise":      # a string column against a float column: the fuzzy predicate raises PredicateError
        return base if side == "src" else np.array([f"s{i}" for i in range(n)])
    raise ValueError(outcome)


def run_impl(c):
    from fieldcompare import FieldDataComparator
    from fieldcompare.mesh import Mesh, MeshFields, MeshFieldsComparator, CellTypes
    from fieldcompare.tabular import Table, TabularFields
    from fieldcompare.predicates import DefaultEquality

    incl, excl = flt(c["incl_pat"], True), flt(c["excl_pat"], False)
    oc = c["outcome"]

    raise_bases = {dict(c["src"])[full] for full, o in oc.items() if o == "selector_raise"}

    def selector(a, b):
        # a.name is the annotation-free name
        if a.name in raise_bases:
            return Raising()
        return DefaultEquality()

    fired = []
    cb = lambda comp: fired.append(comp.name)  # noqa: E731
    if c["kind"] == "table":
        n = 3
        src = TabularFields(Table(num_rows=n), {nm: values_for(nm, oc.get(nm), "src", n) for nm, _ in c["src"]})
        nr = n if c["domain_ok"] else n + 1
        ref = TabularFields(Table(num_rows=nr), {nm: values_for(nm, oc.get(nm), "ref", nr) for nm, _ in c["ref"]})
        comparator = FieldDataComparator(src, ref, incl, excl)
        suite = comparator(selector, cb)
    else:
        pts = np.array([[0.0, 0.0], [1.0, 0.0], [1.0, 1.0], [0.0, 1.0], [2.0, 0.0], [2.0, 1.0]])
        conn = {"TRIANGLE": np.array([[1, 4, 5], [1, 5, 2]]), "QUAD": np.array([[0, 1, 2, 3]])}
        ct = {"TRIANGLE": CellTypes.triangle, "QUAD": CellTypes.quad}
        if c.get("empty_quad"):
            conn["QUAD"] = np.zeros((0, 4), dtype=np.int64)

        def mk(side, pc, moved):
            p = pts.copy()
            if moved:
                p[0, 0] = -5.0
            mesh = Mesh(p, [(ct[t], conn[t]) for t in c["types"]])
            pd = {nm: values_for(nm, oc.get(nm), side, 6) for nm in pc[0]}
            cd = {nm: [values_for(f"{nm} @ {t}", oc.get(f"{nm} @ {t}"), side, len(conn[t])) for t in c["types"]] for nm in pc[1]}
            return MeshFields(mesh, pd, cd)

        src = mk("src", c["src_pc"], False)
        ref = mk("ref", c["ref_pc"], not c["domain_ok"])
        if c["kind"] == "meshcmp":
            comparator = MeshFieldsComparator(src, ref, field_inclusion_filter=incl, field_exclusion_filter=excl)
        else:
            comparator = FieldDataComparator(src, ref, incl, excl)
        suite = comparator(selector, cb)
    entries = sorted((comp.name, STATUS_CODE[comp.status.name]) for comp in suite)
    out = {"entries": [list(e) for e in entries], "bool": bool(suite), "fired": sorted(fired),
           "domain": bool(suite.domain_equality_check), "len": len(suite)}
    # the same comparator object invoked once more (e.g. a re-run with another predicate) must give the same report
    fired2 = []
    try:
        suite2 = comparator(selector, lambda comp: fired2.append(comp.name))
        out["second"] = {"entries": [list(e) for e in sorted((comp.name, STATUS_CODE[comp.status.name]) for comp in suite2)],
                         "bool": bool(suite2), "fired": sorted(fired2)}
    except Exception as e:  # noqa: BLE001
        out["second"] = {"exception": f"{type(e).__name__}: {e}"}
    return out


def oracle(c):
    """the statement: every name once; status by set algebra; verdict; callback once per comparison"""
    incl, excl = flt(c["incl_pat"], True), flt(c["excl_pat"], False)
    if not c["domain_ok"]:
        return {"entries": [], "bool": False, "fired": []}
    S = {n: b for n, b in c["src"]}
    R = {n: b for n, b in c["ref"]}
    ent, fired = [], []
    for n in sorted(set(S) | set(R)):
        if n in S and n in R:
            if incl(S[n]) and not excl(S[n]):
                o = c["outcome"][n]
                ent.append([n, {"pass": 0, "fail": 1, "shape": 1, "raise": 2, "selector_raise": 2}[o]])
                fired.append(n)
            else:
                ent.append([n, 5])
        elif n in S:
            ent.append([n, 4])
        else:
            ent.append([n, 3])
    ent.sort()
    return {"entries": ent, "bool": all(st not in (1, 2) for _, st in ent), "fired": sorted(fired)}


def model_expr(c):
    names = sorted({n for n, _ in c["src"]} | {n for n, _ in c["ref"]})
    bases = sorted({b for _, b in c["src"]} | {b for _, b in c["ref"]})
    nid = {n: i for i, n in enumerate(names)}
    bid = {b: i for i, b in enumerate(bases)}
    incl, excl = flt(c["incl_pat"], True), flt(c["excl_pat"], False)
    itab = [bid[b] for b in bases if incl(b)]     # fnmatch is an oracle: the boolean table goes to the model
    etab = [bid[b] for b in bases if excl(b)]
    omap = {"pass": "OPass", "fail": "OFail", "shape": "OFail", "raise": "ORaise", "selector_raise": "ORaise"}
    outs = [omap[c["outcome"][n]] if n in c["outcome"] else "OPass" for n in names]
    src = clist([f"F {nid[n]} {bid[b]}" for n, b in c["src"]], "field")
    ref = clist([f"F {nid[n]} {bid[b]}" for n, b in c["ref"]], "field")
    expr = (f"run {lib.cbool(c['domain_ok'])} {clist(map(str, itab), 'nat')} {clist(map(str, etab), 'nat')} "
            f"{clist(outs, 'outcome')} {src} {ref}")
    return expr, names


def decode_model(val, names):
    ents, trace, b = val
    return {"entries": sorted([names[n], st] for n, st in ents), "bool": b, "fired": sorted(names[n] for n in trace)}


def t1(ctx):
    from fieldcompare import FieldComparisonStatus, FieldComparisonSuite, FieldComparison
    from fieldcompare.predicates import PredicateResult

    order = ["passed", "failed", "error", "missing_source", "missing_reference", "filtered"]
    ctor = ["Passed", "Failed", "Error", "MissingSource", "MissingReference", "Filtered"]
    rows = []
    for d in (True, False):
        for k in range(0, 4):
            for combo in itertools.product(range(6), repeat=k):
                comps = [FieldComparison(f"f{i}", FieldComparisonStatus[order[s]], "", "") for i, s in enumerate(combo)]
                s = FieldComparisonSuite(PredicateResult(d), comps)
                rows.append((d, combo, bool(s), s.status.name == "passed", len(s), sorted(STATUS_CODE[x.status.name] for x in s)))
    tbl = clist([f"({lib.cbool(d)}, {clist([ctor[s] for s in combo], 'fstatus')}, {lib.cbool(b)})" for d, combo, b, *_ in rows])
    src = HEADER + f"""
Definition table : list (bool * list fstatus * bool) := {tbl}.
Lemma suite_bool_matches_impl :
  forallb (fun r => Bool.eqb (suite_bool {{| dom_ok := fst (fst r); entries := map (fun s => (0, s)) (snd (fst r)); trace := [] |}}) (snd r)) table = true.
Proof. vm_compute. reflexivity. Qed.
Definition truth : list (fstatus * bool) := {clist([f"({ctor[i]}, {lib.cbool(bool(FieldComparisonStatus[order[i]]))})" for i in range(6)])}.
Lemma status_ok_matches_impl : forallb (fun r => Bool.eqb (status_ok (fst r)) (snd r)) truth = true.
Proof. vm_compute. reflexivity. Qed.
"""
    ok = ctx.table_lemma("T1_suite_bool", src)
    ctx.tie("T1 suite truthiness rows", len(rows))
    for d, combo, b, st, ln, kept in rows:
        want = d and all(s not in (1, 2) for s in combo)
        if b != want or st != want:
            ctx.violation("E4", "FieldComparisonSuite verdict must be: domain equal and no failed/error comparison",
                          {"domain": d, "statuses": [order[s] for s in combo], "bool": b, "status_passed": st})
        if ln != len(combo) or kept != sorted(combo):
            ctx.violation("E4", "FieldComparisonSuite loses or duplicates comparisons",
                          {"domain": d, "statuses": [order[s] for s in combo], "len": ln})


def run(ctx):
    ctx.prove()
    t1(ctx)
    from . import globtie
    globtie.tie(ctx, 400 if ctx.tier == "quick" else 10000, "field filters")
    n = 3000 if ctx.tier == "quick" else 60000
    rng = ctx.rng
    cases = [gen_case(rng, odd=(i % 10 == 9)) for i in range(n)]
    for f in sorted((lib.VERIF / "corpus" / "C11").glob("*.json")) if (lib.VERIF / "corpus" / "C11").exists() else []:
        cases.insert(0, json.load(open(f))["case"])
    impls = []
    for c in cases:
        try:
            impls.append(run_impl(c))
        except Exception as e:  # noqa: BLE001
            impls.append({"exception": f"{type(e).__name__}: {e}"})
    exprs, nms = zip(*[model_expr(c) for c in cases])
    vals = ctx.coq_eval(HEADER, list(exprs), name="c11")
    for c, im, val, names in zip(cases, impls, vals, nms):
        mo = decode_model(val, names)
        orc = oracle(c)
        nsrc, nref = {n for n, _ in c["src"]}, {n for n, _ in c["ref"]}
        nontrivial = len(nsrc | nref) >= 2 and (nsrc != nref or c["incl_pat"] is not None or c["excl_pat"] is not None)
        canon = {k: c[k] for k in c}
        ctx.case(canon, nontrivial, sample={"case": canon, "impl": im, "model": mo})
        ctx.count(f"kind:{c['kind']}")
        ctx.count(f"domain_ok:{c['domain_ok']}")
        ctx.count(f"names:{len(nsrc | nref)}")
        for o in c["outcome"].values():
            ctx.count(f"outcome:{o}")
        if "exception" in im:
            ctx.violation("E4", f"comparator raised: {im['exception']}", canon)
            continue
        cmpkeys = ("entries", "bool", "fired")
        names_reported = [e[0] for e in im["entries"]]
        if c["domain_ok"] and (sorted(set(names_reported)) != sorted(nsrc | nref) or len(names_reported) != len(set(names_reported))):
            ctx.violation("E4", "a field name is not reported exactly once", canon, impl=im, oracle=orc)
        elif any(im[k] != orc[k] for k in cmpkeys):
            ctx.violation("E4", "statuses / verdict / callback differ from the statement: "
                          + ", ".join(k for k in cmpkeys if im[k] != orc[k]), canon, impl=im, oracle=orc)
        elif any(im[k] != mo[k] for k in cmpkeys):
            ctx.violation("E2", "model != implementation: " + ", ".join(k for k in cmpkeys if im[k] != mo[k]), canon,
                          found_input=False, impl=im, model=mo)
        if "second" in im and im["second"] != {k: im[k] for k in cmpkeys}:
            ctx.violation("E4", "the same comparator object invoked a second time gives a different report", canon,
                          impl=im, second=im["second"])
        ctx.tie("T2 comparator object invoked twice")
        ctx.traces_validated += 1
    ctx.rule = ("random overlapping name sets (2-8 base names; tables, MeshFields with point+cell fields on 1-2 cell types, "
                "through FieldDataComparator and MeshFieldsComparator), outcomes forced by payloads (equal, different, shape "
                "mismatch, raising predicate, raising selector result), filters as name sets or wildcard patterns; non-trivial = "
                ">= 2 names and (a one-sided name or a filter)")
    return ctx.finish(assumptions=["the filter's boolean table is computed by the harness with fnmatch and given to the model; fnmatch itself is modelled (Model/Glob.v) and compared with PatternFilter in a separate stream",
                                   "field names within one data set are distinct (dict-backed in the implementation)"],
                      trusted=["harness/c11.py"])


def replay(pid, rec):
    c = rec["case"]
    if not c or "kind" not in c:
        print("no concrete comparator input in this replay:", rec["what"])
        return False
    im = run_impl(c)
    orc = oracle(c)
    print("implementation:", im)
    print("statement     :", orc)
    return all(im[k] == orc[k] for k in ("entries", "bool", "fired"))
