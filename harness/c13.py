"""C13 — written files read back to exactly the data that was written.

Mesh field data built through the public API (fieldcompare.mesh.Mesh / MeshFields; all supported cell types, several at
once, 1-3 space dimensions, float32/float64 and all integer widths, extremes, subnormals, -0.0, scalar / vector / tensor
point and cell fields), plain and sorted / stripped / merged / extended / diffed, and data read from little- and big-endian
files, is written with `fieldcompare.io.write` and read back with `read_field_data`.  Tables with float / int / string
columns go through write -> read_field_data(path, {"dsv": {"delimiter": ",", "use_names": True}}).

Oracle: the statement (points padded to three coordinates, same cells per cell type, same field names, same numeric type,
bit-identical values, multi-component fields row-major), evaluated on a snapshot of the public accessors of the object
that was written.
Model : the DataArray elements of the written file are (a) compared with Model.Codec.write_data_array applied to the
snapshot rows (writer model = writer) and (b) decoded by Model.Codec.read_written_array (reader model on real output).
"""
from __future__ import annotations

import os
import sys
import warnings
import xml.etree.ElementTree as ET

import numpy as np

from . import lib
from . import vtkenc as V
from . import c05 as G

HEADER = G.header() + """
From FC Require Import Model.VtuFile Proofs.VtuFileP.
(* whole file: (the file model of the data handed to the writer is the written file element by element,
   what the reader model makes of the written file: points, cells per type, point-data rows, cell-data rows per type) *)
Definition filechk (bo : border) (d : vdata) (f : vfile) :=
  (wf_vdatab d && cdata_alignedb d, vfile_eqb (write_vtu bo d) f,
   option_map (fun r => (a_rows (r_points r), r_groups r, map (fun na => a_rows (snd na)) (r_pdata r),
                         map (fun x => snd (snd x)) (r_cdata r))) (read_vtu bo f)).
Fixpoint zrow_eqb (a b : list Z) : bool :=
  match a, b with [], [] => true | x :: a', y :: b' => Z.eqb x y && zrow_eqb a' b' | _, _ => false end.
Fixpoint zrows_eqb (a b : list (list Z)) : bool :=
  match a, b with [], [] => true | x :: a', y :: b' => zrow_eqb x y && zrows_eqb a' b' | _, _ => false end.
(* (writer model produces exactly the written text, reader model decodes the written text to the rows) *)
Fixpoint lb_eqb (a b : list bytes) : bool :=
  match a, b with [], [] => true | x :: a', y :: b' => list_eqb x y && lb_eqb a' b' | _, _ => false end.
Fixpoint llb_eqb (a b : list (list bytes)) : bool :=
  match a, b with [], [] => true | x :: a', y :: b' => lb_eqb x y && llb_eqb a' b' | _, _ => false end.
(* tables: (writer model reproduces the written file from its cells, reader model splits the file into these cells) *)
Definition csvchk (names : list bytes) (rows : list (list bytes)) (file : bytes) : bool * bool :=
  (list_eqb (write_table names rows) file,
   match read_table file with Some (n, r) => lb_eqb n names && llb_eqb r rows | None => false end).
Definition wr (bo : border) (t : vtype) (nc : N) (rows : list (list Z)) (text : bytes) : bool * bool :=
  (list_eqb (write_data_array bo t nc rows) text,
   match read_written_array bo t nc text with Some r => zrows_eqb r rows | None => false end).
"""

CELLS = {1: 1, 3: 2, 5: 3, 8: 4, 9: 4, 10: 4, 11: 8, 12: 8, 13: 6, 14: 5, 7: None, 21: 3, 22: 6}
FDT = ["f4", "f8"]
IDT = ["i1", "u1", "i2", "u2", "i4", "u4", "i8", "u8"]
F32X = [3.4028234663852886e38, -3.4028234663852886e38, 1.1754943508222875e-38, 1.401298464324817e-45, -0.0, 0.0, 1.0, -2.5]
F64X = [1.7976931348623157e308, -1.7976931348623157e308, 2.2250738585072014e-308, 5e-324, -5e-324, -0.0, 0.0, 0.1, -2.5]

WHAT_BE = ("F-C13a: field data read from a BigEndian file cannot be written (RuntimeError 'Could not determine vtk data type "
           "for >..': dtype_to_vtk_type compares dtypes including the byte order)")
WHAT_NAMES = ("F-C13b: csv column names with spaces or punctuation are altered on reading (numpy genfromtxt's name validator "
              "deletes / replaces characters)")
WHAT_NUMSTR = ("F-C13c: a string column whose first cell looks like a number cannot be read back "
               "(TypeError inside numpy genfromtxt with dtype=None)")
WHAT_HASH = "F-C13d: a string cell containing '#' breaks reading (genfromtxt treats it as a comment)"
WHAT_LSPACE = "F-C13e: leading white space of a string cell is lost on reading"
WHAT_U64 = "F-C13f: unsigned integers >= 2^63 of a csv column come back as rounded floats"
WHAT_DQUOTE = ("F-C13h: a csv column name containing a double quote comes back without it (numpy genfromtxt's name validator "
               "always deletes '\"' from names, also with deletechars='')")
WHAT_EXCL = ("F-C13g: csv columns named 'file', 'print' or 'return' come back as 'file_', 'print_', 'return_' "
             "(numpy genfromtxt's name validator appends '_' to the names on its fixed exclusion list)")


# ------------------------------------------------------------------------------------------------ generation
def rand_array(rng, dt, shape):
    n = int(np.prod(shape))
    if dt[0] == "f":
        pool = F32X if dt == "f4" else F64X
        vals = [rng.choice(pool) if rng.random() < 0.4 else rng.randint(-2048, 2048) / 32.0 for _ in range(n)]
    else:
        info = np.iinfo(dt)
        vals = [rng.choice([info.min, info.max, 0, 1, info.max - 1]) if rng.random() < 0.4
                else rng.randint(max(info.min, -500), min(info.max, 500)) for _ in range(n)]
    return np.array(vals, dtype=dt).reshape(shape)


def gen_mesh_spec(rng, dim=None, with_orphans=True, point_cloud=False):
    dim = dim or rng.choice([1, 2, 3])
    npts = rng.randint(2, 9)
    pdt = rng.choice(FDT)
    # distinct lattice-like coordinates (sorting / merging work on coordinates)
    coords = rng.sample([(i, j, k) for i in range(4) for j in range(4) for k in range(3)], npts)
    pts = np.array([[c[d] * 0.5 + (0.25 if d == 1 else 0.0) for d in range(dim)] for c in coords], dtype=pdt)
    pts = np.unique(pts, axis=0)
    rng_idx = list(range(len(pts)))
    rng.shuffle(rng_idx)
    pts = pts[rng_idx]
    npts = len(pts)
    used = npts if not with_orphans or npts < 3 or rng.random() < 0.6 else npts - 1
    types = rng.sample([1, 3, 5, 8, 9, 10, 11, 12, 13, 14, 7, 22], rng.randint(1, 3))
    if point_cloud:
        types = []          # points and point fields only, no cell at all
    kpoly = rng.randint(3, 5)
    cells = []
    for t in types:
        k = CELLS[t] or kpoly
        nc = rng.randint(1, 4)
        if t == 7 and nc >= 2 and rng.random() < 0.5:
            # polygons with differing corner counts: a ragged connectivity (an object array of index arrays)
            rows = np.empty(nc, dtype=object)
            for i in range(nc):
                rows[i] = np.array([rng.randrange(used) for _ in range(rng.randint(3, 6))], dtype="i8")
            cells.append((t, rows))
            continue
        cells.append((t, np.array([[rng.randrange(used) for _ in range(k)] for _ in range(nc)], dtype=rng.choice(["i8", "i4", "i8"]))))
    return {"dim": dim, "points": pts, "cells": cells}


def gen_field_specs(rng, dim, k=None):
    names = ["u", "vel", "sigma", "id", "T", "flag", "w8", "grad", "flux @ t=0.5", "flux @ t=1.0"]
    rng.shuffle(names)
    out = []
    for j in range(k if k is not None else rng.randint(0, 3)):
        dt = rng.choice(FDT + IDT if rng.random() < 0.7 else FDT)
        shape = rng.choice([(), (), (dim,), (3,), (dim, dim), (3, 3), (1,), (2,)])
        out.append((names[j], dt, tuple(shape)))
    return out


def ser(a):
    a = np.asarray(a)
    if a.dtype == object:
        return ["ragged", [len(a)], [[int(x) for x in r] for r in a]]
    return [str(a.dtype), list(a.shape), a.reshape(-1).tolist()]


LAYOUTS = ["C", "C", "F", "strided", "rev", "T", "bswap"]


def unser(x):
    """the array of a description [dtype, shape, values(, memory layout)]: equal values, different strides"""
    if x[0] == "ragged":
        a = np.empty(len(x[2]), dtype=object)
        for i, r in enumerate(x[2]):
            a[i] = np.array(r, dtype="i8")
        return a
    a = np.array(x[2], dtype=x[0]).reshape(x[1])
    lay = x[3] if len(x) > 3 else "C"
    if lay == "F":
        a = np.asfortranarray(a)
    elif lay == "strided" and a.ndim >= 1:
        big = np.zeros((2 * a.shape[0] + 1, *a.shape[1:]), dtype=a.dtype)
        big[1::2] = a
        a = big[1::2]
    elif lay == "rev" and a.ndim >= 1:
        a = np.ascontiguousarray(a[::-1])[::-1]
    elif lay == "T" and a.ndim >= 2:
        a = np.ascontiguousarray(a.T).T          # what np.array([u, v, w]).T gives
    elif lay == "bswap":
        a = a.astype(a.dtype.newbyteorder())     # same values, non-native byte order in memory
    return a


def with_layout(rng, x):
    return x + [rng.choice(LAYOUTS)]


def gen_fields_serial(rng, mesh_spec, pspecs, cspecs):
    """JSON-able description of a MeshFields object: everything needed to rebuild it through the public API"""
    npts = len(mesh_spec["points"])
    return {"points": with_layout(rng, ser(mesh_spec["points"])), "cells": [[t, with_layout(rng, ser(c))] for t, c in mesh_spec["cells"]],
            "pd": [[name, with_layout(rng, ser(rand_array(rng, dt, (npts, *shape))))] for name, dt, shape in pspecs],
            "cd": [[name, [with_layout(rng, ser(rand_array(rng, dt, (len(c), *shape)))) for _, c in mesh_spec["cells"]]]
                   for name, dt, shape in cspecs]}


def realize_fields(d):
    from fieldcompare.mesh import Mesh, MeshFields, CellType
    mesh = Mesh(points=unser(d["points"]), connectivity=[(CellType(t), unser(c)) for t, c in d["cells"]])
    return MeshFields(mesh, point_data={n: unser(a) for n, a in d["pd"]}, cell_data={n: [unser(a) for a in per] for n, per in d["cd"]})


def realize(spec, workdir):
    """the field data object to be written, from its JSON-able description"""
    from fieldcompare import mesh as M
    from fieldcompare.io import write, read_field_data
    kind = spec["kind"]
    if kind in ("read_LE", "read_BE"):
        path = os.path.join(workdir, "src.vtu")
        G.build_file(path, spec["ds"], V.Cfg(**spec["cfg"]))
        f = read_field_data(path)
        os.unlink(path)
        return f
    f = realize_fields(spec["A"])
    if kind == "sorted":
        return M.sort(f)
    if kind == "sort_points":
        return M.sort_points(f)
    if kind == "sort_cells":
        return M.sort_cells(f)
    if kind == "stripped":
        return M.strip_orphan_points(f)
    if kind == "extended":
        return M.extend_space_dimension_to(3, f)
    if kind == "merged":
        return M.merge(f, realize_fields(spec["B"]))
    if kind == "diffed":
        return f.diff_to(realize_fields(spec["B"]))
    if kind == "rewritten":
        p = write(f, os.path.join(workdir, "first"))
        g = read_field_data(p)
        os.unlink(p)
        return g
    return f


# ------------------------------------------------------------------------------------------------ oracle
def snapshot(fields):
    """the content of a field data object as exposed by its public accessors"""
    dom = fields.domain
    snap = {"points": np.array(dom.points), "cells": {}, "pf": {}, "cf": {}}
    for ct in dom.cell_types:
        snap["cells"][ct.id] = np.array(dom.connectivity(ct))
    for f in fields.point_fields:
        snap["pf"][f.name] = np.array(f.values)
    for f, ct in fields.cell_fields_types:
        base = f.name.rpartition(" @ ")[0] or f.name
        snap["cf"].setdefault(base, {})[ct.id] = np.array(f.values)
    return snap


def normal_values(a):
    """row-major flattening of multi-component entries"""
    a = np.asarray(a)
    if a.ndim <= 1:
        return a
    return a.reshape(a.shape[0], -1)


def same_values(got, exp, what):
    got, exp = np.asarray(got), normal_values(exp)
    if got.dtype.kind != exp.dtype.kind or got.dtype.itemsize != exp.dtype.itemsize:
        return f"{what}: numeric type {got.dtype} instead of {exp.dtype}"
    g = got.reshape(got.shape[0], -1) if got.ndim > 1 else got
    e = exp
    if e.ndim == 2 and e.shape[1] == 1 and g.ndim == 1:
        e = e.reshape(-1)           # a trailing unit axis is not distinguished
    if g.shape != e.shape:
        return f"{what}: shape {got.shape} instead of {exp.shape}"
    nat = exp.dtype.newbyteorder("=")
    if g.astype(nat).tobytes() != e.astype(nat).tobytes():
        return f"{what}: values differ"
    return None


def compare_mesh(snap, got):
    bad = []
    p = snap["points"]
    exp = np.zeros((p.shape[0], 3), dtype="f8")
    exp[:, :p.shape[1]] = p
    gp = np.asarray(got["points"])
    if gp.shape != exp.shape or gp.astype("f8").tobytes() != exp.tobytes():
        bad.append("points differ from the written points padded to three coordinates")
    ecells = {t: [[int(x) for x in r] for r in c] for t, c in snap["cells"].items() if len(c)}
    gcells = {t: [[int(x) for x in r] for r in c] for t, c in got["cells"].items()}
    if ecells != gcells:
        bad.append(f"cells per type {gcells} instead of {ecells}")
    if sorted(got["pf"]) != sorted(snap["pf"]):
        bad.append(f"point field names {sorted(got['pf'])} instead of {sorted(snap['pf'])}")
    for name, e in snap["pf"].items():
        if name in got["pf"]:
            r = same_values(got["pf"][name], e, f"point field {name}")
            if r:
                bad.append(r)
    enames = sorted(n for n, per in snap["cf"].items() if any(len(v) for v in per.values()))
    if sorted(got["cf"]) != enames:
        bad.append(f"cell field names {sorted(got['cf'])} instead of {enames}")
    for name, per in snap["cf"].items():
        for t, e in per.items():
            if not len(e):
                continue
            g = got["cf"].get(name, {}).get(t)
            if g is None:
                bad.append(f"cell field {name} missing for cell type {t}")
                continue
            r = same_values(g, e, f"cell field {name} on cell type {t}")
            if r:
                bad.append(r)
    return bad


def write_read(fields, base):
    from fieldcompare.io import write, read_field_data
    with warnings.catch_warnings():
        warnings.simplefilter("ignore")
        try:
            path = write(fields, base)
        except Exception as e:   # noqa: BLE001
            return None, {"error": f"write raised {type(e).__name__}: {e}"}
        try:
            return path, snapshot(read_field_data(path))
        except Exception as e:   # noqa: BLE001
            return path, {"error": f"reading the written file raised {type(e).__name__}: {e}"}


# ------------------------------------------------------------------------------------------------ model side
VT = {"Int8": "VInt 1", "UInt8": "VUInt 1", "Int16": "VInt 2", "UInt16": "VUInt 2", "Int32": "VInt 4", "UInt32": "VUInt 4",
      "Int64": "VInt 8", "UInt64": "VUInt 8", "Float32": "VFloat 4", "Float64": "VFloat 8"}


def written_arrays(path):
    """(name, section, vtk type, NumberOfComponents, text) of every DataArray of a written file"""
    root = ET.parse(path).getroot()
    out = []
    piece = root.find("UnstructuredGrid/Piece")
    for sec in piece:
        for da in sec.iter("DataArray"):
            out.append((da.attrib["Name"], sec.tag, da.attrib["type"], int(da.attrib.get("NumberOfComponents", 1)),
                        (da.text or "").strip().encode()))
    return root.attrib, out


def expected_rows(snap, name, sec):
    """the rows (integers / bit patterns) the writer is given for this array, from the snapshot"""
    if sec == "PointData":
        a = normal_values(snap["pf"][name])
    elif sec == "CellData":
        parts = [normal_values(snap["cf"][name][t]) for t in snap["cells"] if t in snap["cf"][name]]
        a = np.concatenate(parts) if parts else None
    elif sec == "Points":
        p = snap["points"]
        if p.shape[1] == 3:
            a = p
        else:
            a = np.zeros((p.shape[0], 3), dtype="f8")
            a[:, :p.shape[1]] = p
    else:
        return None
    if a is None:
        return None
    a = np.asarray(a)
    nat = a.dtype.newbyteorder("=")
    a = a.astype(nat)
    if a.dtype.kind == "f":
        a = a.view("u" + str(a.dtype.itemsize))
    if a.ndim == 1:
        return [[int(x)] for x in a]
    return [[int(x) for x in r] for r in a]


def zl(rows):
    return lib.clist([lib.clist([lib.cz(x) for x in r], "Z") for r in rows], "(list Z)")


def model_exprs(path, snap):
    attrs, arrays = written_arrays(path)
    exprs, metas = [], []
    bo = "LE" if sys.byteorder == "little" else "BE"
    for name, sec, vt, nc, text in arrays:
        rows = expected_rows(snap, name, sec)
        if rows is None or len(text) > 3000 or not rows:
            continue
        exprs.append(f"wr {bo} ({VT[vt]}) {nc} {zl(rows)} {G.hx(text)}")
        metas.append((name, sec, vt, nc))
    ok = attrs.get("header_type") == "UInt64" and attrs.get("byte_order") == ("LittleEndian" if sys.byteorder == "little" else "BigEndian")
    return exprs, metas, ok


DT2V = {"int8": "VInt 1", "uint8": "VUInt 1", "int16": "VInt 2", "uint16": "VUInt 2", "int32": "VInt 4", "uint32": "VUInt 4",
        "int64": "VInt 8", "uint64": "VUInt 8", "float32": "VFloat 4", "float64": "VFloat 8"}


def bit_rows(a):
    """rows of integers (floats as bit patterns) of an array with one entry per leading index"""
    a = normal_values(np.asarray(a))
    a = a.astype(a.dtype.newbyteorder("="))
    if a.dtype.kind == "f":
        a = a.view("u" + str(a.dtype.itemsize))
    if a.ndim == 1:
        return [[int(x)] for x in a]
    return [[int(x) for x in r] for r in a]


def nl(rows_):
    return lib.clist([lib.clist([str(int(x)) for x in r], "N") for r in rows_], "(list N)")


def file_expr(path, snap, got):
    """Gallina expression of the whole-file tie and the value expected from the implementation's read-back; None if out of scope"""
    attrs, arrays = written_arrays(path)
    bo = "LE" if sys.byteorder == "little" else "BE"
    by = {}
    for name, sec, vt, nc, text in arrays:
        by.setdefault(sec, []).append((name, vt, nc, text))
    if sum(len(a[4]) for a in arrays) > 12000 or not all(k in by for k in ("Points", "Cells")):
        return None
    if any(t not in per for per in snap["cf"].values() for t in snap["cells"]) or any(len(c) == 0 for c in snap["cells"].values()):
        return None

    def darr(vt, nc, text):
        return f"{{| da_type := {VT[vt]}; da_nc := {nc}; da_text := {G.hx(text)} |}}"

    def narr(a, nc=None):
        a = np.asarray(a)
        comps = int(np.prod(a.shape[1:])) if a.ndim > 1 else 1
        return f"{{| a_type := {DT2V[str(a.dtype.newbyteorder('='))]}; a_nc := {nc or comps}; a_rows := {zl(bit_rows(a))} |}}"

    p = snap["points"]
    if p.shape[1] != 3:
        pp = np.zeros((p.shape[0], 3), dtype="f8")
        pp[:, :p.shape[1]] = p
        p = pp
    groups = lib.clist([f"({t}, {nl(c)})" for t, c in snap["cells"].items()], "(N * list (list N))")
    pnames = [a[0] for a in by.get("PointData", [])]
    cnames = [a[0] for a in by.get("CellData", [])]
    if sorted(pnames) != sorted(snap["pf"]) or sorted(cnames) != sorted(snap["cf"]):
        return None           # (reported by the content comparison)
    pd = lib.clist([f"({G.hx(n.encode())}, {narr(snap['pf'][n])})" for n in pnames], "(bytes * narray)")
    cds = []
    for n in cnames:
        per = [np.asarray(snap["cf"][n][t]) for t in snap["cells"]]
        a0 = per[0]
        comps = int(np.prod(a0.shape[1:])) if a0.ndim > 1 else 1
        cds.append(f"({G.hx(n.encode())}, ({DT2V[str(a0.dtype.newbyteorder('='))]}, {comps}, "
                   f"{lib.clist([zl(bit_rows(x)) for x in per], '(list (list Z))')}))")
    cd = lib.clist(cds, "(bytes * (vtype * N * list (list (list Z))))")
    def corner_dtype(c):     # polygons of differing corner counts are held as an object array of integer rows
        c = np.asarray(c)
        return c.dtype if c.dtype != object else np.result_type(*[np.asarray(r).dtype for r in c])
    idt = np.result_type(*[corner_dtype(c) for c in snap["cells"].values()])
    d = f"{{| v_points := {narr(p, 3)}; v_groups := {groups}; v_itype := {DT2V[str(idt.newbyteorder('='))]}; v_pdata := {pd}; v_cdata := {cd} |}}"
    cells = {a[0]: a for a in by["Cells"]}
    pts = by["Points"][0]
    f = (f"{{| f_points := {darr(*pts[1:])}; f_conn := {darr(*cells['connectivity'][1:])}; f_offs := {darr(*cells['offsets'][1:])}; "
         f"f_types := {darr(*cells['types'][1:])}; "
         f"f_pdata := {lib.clist([f'({G.hx(a[0].encode())}, {darr(*a[1:])})' for a in by.get('PointData', [])], '(bytes * darray)')}; "
         f"f_cdata := {lib.clist([f'({G.hx(a[0].encode())}, {darr(*a[1:])})' for a in by.get('CellData', [])], '(bytes * darray)')} |}}")
    # what the implementation read back from the same file, in the model's output format
    try:
        exp = (bit_rows(got["points"]),
               [(t, [[int(x) for x in r] for r in got["cells"][t]]) for t in sorted(got["cells"])],
               [bit_rows(got["pf"][n]) for n in pnames],
               [[(t, bit_rows(got["cf"][n][t])) for t in sorted(got["cf"][n])] for n in cnames])
    except KeyError:
        return None
    return f"filechk {bo} {d} {f}", exp


def canon(v):
    if isinstance(v, (list, tuple)):
        return [canon(x) for x in v]
    return v


# ------------------------------------------------------------------------------------------------ scenarios
def scenario(rng):
    """JSON-able description of one scenario"""
    kind = rng.choice(["plain", "plain", "sorted", "sort_points", "sort_cells", "stripped", "extended", "merged", "diffed",
                       "read_LE", "read_BE", "rewritten"])
    if kind in ("read_LE", "read_BE"):
        ds = G.gen_vtu(rng, npts=rng.randint(1, 8), ncells=rng.randint(1, 6))
        cfg = V.Cfg(rng.choice(["ascii", "binary", "appended-base64", "appended-raw"]) if kind == "read_LE" else
                    rng.choice(["binary", "appended-base64", "appended-raw"]),
                    rng.choice([None, "zlib"]), 64, rng.choice(["UInt32", "UInt64"]), "<" if kind == "read_LE" else ">")
        return {"kind": kind, "cfg": cfg.as_dict(), "ds": ds}
    dim = rng.choice([1, 2, 3])
    ms = gen_mesh_spec(rng, dim, point_cloud=(kind == "plain" and rng.random() < 0.15))
    ps, cs = gen_field_specs(rng, dim), gen_field_specs(rng, dim)
    if not ms["cells"]:
        cs = []
    spec = {"kind": kind, "A": gen_fields_serial(rng, ms, ps, cs)}
    if kind == "merged":
        ms2 = {"dim": dim, "points": ms["points"] + np.array([0.5] + [0.0] * (dim - 1), dtype=ms["points"].dtype), "cells": ms["cells"]}
        spec["B"] = gen_fields_serial(rng, ms2, ps, cs)
    elif kind == "diffed":
        spec["B"] = gen_fields_serial(rng, ms, ps, cs)
    return spec


def corpus_specs():
    import glob
    import json
    out = []
    for f in sorted(glob.glob(str(lib.VERIF / "corpus" / "C13" / "*.json"))):
        c = json.load(open(f)).get("case") or {}
        if "kind" in c:
            out.append(c)
    return out


def mesh_stream(ctx, n):
    rng = ctx.rng
    exprs, owners = [], []
    fexprs, fowners = [], []
    corpus = corpus_specs()
    for i in range(n + len(corpus)):
        if G.too_many(ctx):
            break
        desc = corpus[i] if i < len(corpus) else scenario(rng)
        kind = desc["kind"]
        try:
            with warnings.catch_warnings():
                warnings.simplefilter("ignore")
                fields = realize(desc, str(ctx.workdir))
                snap = snapshot(fields)
        except Exception as e:   # noqa: BLE001
            ctx.count(f"scenario not constructible ({type(e).__name__})")
            continue
        path, got = write_read(fields, os.path.join(str(ctx.workdir), f"w{i}"))
        bad = compare_mesh(snap, got) if "error" not in got else [got["error"]]
        nfields = len(snap["pf"]) + len(snap["cf"])
        ctx.case(desc, nfields >= 1 or kind != "plain",
                 sample={"kind": kind, "points": list(snap["points"].shape), "cell types": sorted(snap["cells"]),
                         "fields": {k: str(v.dtype) + str(list(v.shape[1:])) for k, v in snap["pf"].items()},
                         "result": "as written" if not bad else bad[:2]})
        ctx.count(f"scenario:{kind}")
        ctx.count(f"dim:{snap['points'].shape[1]}")
        for v in list(snap["pf"].values()) + [x for per in snap["cf"].values() for x in per.values()]:
            ctx.count(f"dtype:{v.dtype.newbyteorder('=')}")
            ctx.count(f"components:{'x'.join(str(s) for s in v.shape[1:]) or 'scalar'}")
        for t in snap["cells"]:
            ctx.count(f"celltype:{t}")
        ctx.traces_validated += 1
        if bad:
            be = kind == "read_BE" and bad[0].startswith("write raised RuntimeError: Could not determine vtk data type")
            ctx.violation("E4", WHAT_BE if be else "vtu round trip (" + kind + "): " + "; ".join(bad)[:260], desc, impl=bad)
        elif path and len(exprs) < ctx.extra.get("model_budget", 10 ** 9):
            try:
                ex, metas, hdr_ok = model_exprs(path, snap)
            except Exception as e:   # noqa: BLE001
                ctx.notes.append(f"written file not parsed for the model tie: {e}")
                ex, metas, hdr_ok = [], [], True
            if not hdr_ok:
                ctx.violation("E2", "writer no longer emits header_type UInt64 / native byte order (model assumption)", desc, found_input=False)
            for e_, m_ in zip(ex, metas):
                exprs.append(e_)
                owners.append((desc, m_))
            if len(fexprs) < ctx.extra.get("file_budget", 400):
                try:
                    fe = file_expr(path, snap, got)
                except Exception as e:   # noqa: BLE001
                    ctx.notes.append(f"written file not translated for the whole-file tie: {type(e).__name__}: {e}")
                    fe = None
                if fe is not None:
                    fexprs.append(fe[0])
                    fowners.append((desc, fe[1]))
                else:
                    ctx.count("whole-file tie: out of scope (empty cell type / field lacking a cell type / large file)")
        if path and os.path.exists(path):
            os.unlink(path)
    fvals = ctx.coq_eval(HEADER, fexprs, shard=max(5, len(fexprs) // 14 + 1), name="c13file") if fexprs else []
    for (desc, exp), v in zip(fowners, fvals):
        ctx.tie("T2 write_vtu model = the written file, element by element")
        ctx.tie("T2 read_vtu model = what the implementation reads back from the written file")
        if v[0] is True:
            ctx.count("whole-file tie: data set meets the hypotheses of C13_vtu_file_write_read (wf_vdatab)")
        else:
            ctx.count("whole-file tie: data set outside the hypotheses of C13_vtu_file_write_read")
        v = v[1:]
        if v[0] is not True:
            ctx.violation("E2", "write_vtu model != the file VTUWriter wrote (some DataArray element differs)", desc, found_input=False)
        if v[1] is None or canon(v[1][1] if isinstance(v[1], (list, tuple)) and len(v[1]) == 2 and v[1][0] == "Some" else v[1]) != canon(exp):
            ctx.violation("E2", "read_vtu model != what VTUReader handed out for the written file", desc, found_input=False,
                          model=repr(v[1])[:600], impl=repr(exp)[:600])
    vals = ctx.coq_eval(HEADER, exprs, shard=max(10, len(exprs) // 12 + 1), name="c13")
    for (desc, meta), v in zip(owners, vals):
        ctx.tie("T2 writer model = written DataArray text")
        ctx.tie("T2 reader model decodes written DataArray to the written rows")
        if v[0] is not True:
            ctx.violation("E2", f"write_data_array model != text written for {meta}", desc, found_input=False)
        if v[1] is not True:
            ctx.violation("E2", f"read_written_array model does not return the written rows for {meta}", desc, found_input=False)


# ------------------------------------------------------------------------------------------------ tables
WORDS = ["a", "b", "ab", "zz", "q", "left", "right", "Alpha", "x_y", "n/a", "on-off", "x y", "v1", "r2d2", "é", '2"-pvc', "it's", '"q"',
         "a;b", "tab\there"]
NAMES = ["x", "y", "p", "vel", "id", "tag", "T", "rho", "u_x", "Time", "k2", "_z", "p'"]


def gen_table(rng):
    k = rng.randint(1, 5)
    n = rng.randint(1, 6)
    names = rng.sample(NAMES, k)
    cols = []
    for nm in names:
        t = rng.choice(["float", "float", "int", "str"])
        if t == "float":
            vals = [rng.choice(F64X + [1e22, 1e16, 123456789012345678.0, 1 / 3]) if rng.random() < 0.5 else rng.randint(-4096, 4096) / 64.0 for _ in range(n)]
        elif t == "int":
            vals = [rng.choice([-2 ** 63, 2 ** 63 - 1, 0, -1]) if rng.random() < 0.3 else rng.randint(-10 ** 6, 10 ** 6) for _ in range(n)]
        else:
            vals = [rng.choice(WORDS) for _ in range(n)]
        cols.append([nm, t, vals])
    return {"cols": cols, "rows": n}


def table_roundtrip(cols, base, keep=None):
    from fieldcompare.tabular import Table, TabularFields
    from fieldcompare.io import write, read_field_data
    n = len(cols[0][2])
    data = {}
    for nm, t, vals in cols:
        data[nm] = np.array(vals, dtype={"float": "f8", "int": "i8", "str": None, "uint": "u8"}[t])
    with warnings.catch_warnings():
        warnings.simplefilter("ignore")
        try:
            path = write(TabularFields(Table(num_rows=n), data), base)
            if keep is not None:
                keep.append(open(path, "rb").read())
            fd = read_field_data(path, {"dsv": {"delimiter": ",", "use_names": True}})
            got = [(f.name, np.asarray(f.values)) for f in fd]
            rows = fd.domain.number_of_rows
        except Exception as e:   # noqa: BLE001
            return [f"raised {type(e).__name__}: {str(e)[:120]}"]
        finally:
            if os.path.exists(base + ".csv"):
                os.unlink(base + ".csv")
    bad = []
    if [g[0] for g in got] != [c[0] for c in cols]:
        bad.append(f"column names {[g[0] for g in got]} instead of {[c[0] for c in cols]}")
    if rows != n:
        bad.append(f"{rows} rows instead of {n}")
    for (nm, t, vals), (_, g) in zip(cols, got):
        if t == "float":
            ok = g.dtype == np.float64 and g.tobytes() == np.array(vals, dtype="f8").tobytes()
        elif t in ("int", "uint"):
            ok = g.dtype.kind in "iu" and [int(x) for x in g] == [int(v) for v in vals]
        else:
            ok = g.dtype.kind == "U" and [str(x) for x in g] == list(vals)
        if not ok:
            bad.append(f"column {nm} ({t}): {list(g)[:4]} ({g.dtype}) instead of {vals[:4]}")
    return bad


def reads_differently(full: bytes, cut: bytes, base):
    """'' if both byte strings read as the same table (names, dtypes kinds, values), else what differs"""
    from fieldcompare.io import read_field_data
    got = []
    for i, content in enumerate((full, cut)):
        path = f"{base}_nl{i}.csv"
        open(path, "wb").write(content)
        try:
            with warnings.catch_warnings():
                warnings.simplefilter("ignore")
                fd = read_field_data(path, {"dsv": {"delimiter": ",", "use_names": True}})
                got.append([(f.name, np.asarray(f.values).dtype.kind, np.asarray(f.values).tolist()) for f in fd])
        except Exception as e:  # noqa: BLE001
            got.append(f"raised {type(e).__name__}: {str(e)[:100]}")
        finally:
            os.unlink(path)
    return "" if got[0] == got[1] else f"{str(got[1])[:120]} instead of {str(got[0])[:120]}"


def table_stream(ctx, n):
    rng = ctx.rng
    base = os.path.join(str(ctx.workdir), "tab")
    exprs, owners = [], []
    for _ in range(n):
        if G.too_many(ctx):
            break
        tb = gen_table(rng)
        keep = []
        bad = table_roundtrip(tb["cols"], base, keep)
        if keep and not bad and len(exprs) < (400 if ctx.tier == "quick" else 4000):
            import csv
            import io
            parsed = list(csv.reader(io.StringIO(keep[0].decode("utf-8")), delimiter=",", quoting=csv.QUOTE_NONE))
            if parsed and [c[0] for c in tb["cols"]] == parsed[0] and len(parsed) - 1 == tb["rows"]:
                names = lib.clist([G.hx(x.encode("utf-8")) for x in parsed[0]], "bytes")
                rows = lib.clist([lib.clist([G.hx(x.encode("utf-8")) for x in r], "bytes") for r in parsed[1:]], "(list bytes)")
                exprs.append(f"csvchk {names} {rows} {G.hx(keep[0])}")
                owners.append(tb)
            else:
                ctx.violation("E4", "csv round trip: the written file does not have one line of names and one line per row for a strict "
                              "csv parser", tb, impl=parsed[:3])
        if keep and not bad and keep[0].endswith(b"\n"):
            # C13_csv_final_newline_irrelevant: the same file without its final line break reads as the same table
            ctx.tie("T2 read_table_final_newline: file without its final line break reads the same")
            diff = reads_differently(keep[0], keep[0][:-1], base)
            if diff:
                ctx.violation("E4", "csv: the written file without its final line break does not read as the same table: " + diff, tb)
        ctx.case(tb, len(tb["cols"]) >= 2, sample={"table": tb, "result": "as written" if not bad else bad[:2]})
        ctx.count("scenario:table")
        for c in tb["cols"]:
            ctx.count(f"column:{c[1]}")
        ctx.traces_validated += 1
        if bad:
            ctx.violation("E4", "csv round trip: " + "; ".join(bad)[:260], tb, impl=bad)
    vals = ctx.coq_eval(HEADER, exprs, shard=max(10, len(exprs) // 12 + 1), name="c13csv")
    for tb, v in zip(owners, vals):
        ctx.tie("T2 write_table model = written csv file")
        ctx.tie("T2 read_table model splits the written csv file into the written cells")
        if v[0] is not True:
            ctx.violation("E2", "write_table model != written csv file", tb, found_input=False)
        if v[1] is not True:
            ctx.violation("E2", "read_table model does not recover names and cells of the written csv file", tb, found_input=False)
    # directed probes at the edge of what a csv file can carry (each is one finding class when it fails)
    probes = [
        (WHAT_NAMES, [["a b", "float", [1.5, 2.25]], ["c-d", "int", [1, 2]], ["e.f", "str", ["x", "yz"]]]),
        (WHAT_NAMES, [["velocity (m/s)", "float", [1.5, 2.25]], ["t", "int", [1, 2]]]),
        (WHAT_NUMSTR, [["s", "str", ["1", "x"]], ["b", "float", [3.0, 4.5]]]),
        (WHAT_HASH, [["s", "str", ["a#b", "c"]], ["b", "float", [3.0, 4.5]]]),
        (WHAT_LSPACE, [["s", "str", [" a", "c"]], ["b", "float", [3.0, 4.5]]]),
        (WHAT_U64, [["n", "uint", [2 ** 63 + 1, 2 ** 64 - 1]], ["b", "float", [3.0, 4.5]]]),
        (WHAT_EXCL, [["file", "float", [1.5, 2.25]], ["print", "int", [1, 2]], ["return", "str", ["x", "yz"]], ["t", "float", [0.5, 1.0]]]),
        (WHAT_DQUOTE, [['d"', "float", [1.5, 2.25]], ['2"-pipe', "str", ["x", 'y"z']], ["t", "int", [1, 2]]]),
    ]
    for what, cols in probes:
        bad = table_roundtrip(cols, base)
        tb = {"cols": cols, "rows": len(cols[0][2]), "probe": True}
        ctx.case(tb, True)
        ctx.count("scenario:table probe")
        if bad:
            ctx.violation("E4", what, tb, impl=bad)


# ------------------------------------------------------------------------------------------------ driver
def run(ctx):
    G.guard_resources()
    ctx.prove()
    quick = ctx.tier == "quick"
    ctx.extra["model_budget"] = 6000 if quick else 60000
    mesh_stream(ctx, 2400 if quick else 50000)
    ctx.extra.pop("model_budget", None)
    table_stream(ctx, 1200 if quick else 20000)
    ctx.rule = ("mesh field data from the public API (1-3 space dimensions, 1-3 cell types of 12 kinds, point/cell fields of 10 dtypes, "
                "scalar/vector/tensor/(n,1) shapes, extreme values), plain / sorted / stripped / extended / merged / diffed / read from LE and BE "
                "files / rewritten; tables with float / int / str columns.  non-trivial = at least one field or a transformation")
    return ctx.finish(
        assumptions=["meshes have at least one point; a listed cell type has at least one cell (meshes without any cell — point clouds — are generated for the plain round trip)",
                     "csv: names and string cells without delimiter / newline, non-empty, not parseable as numbers (quote characters included) "
                     "(column typing int / float / str is numpy's)", "str(float) / float(str) round trip is an oracle"],
        trusted=["harness/c13.py, harness/c05.py (generators), harness/vtkenc.py", "xml.etree for locating the DataArray elements of written files"])


def replay(pid, rec):
    import tempfile
    c = rec.get("case") or {}
    d = tempfile.mkdtemp(dir=str(lib.WORK))
    try:
        if "cols" in c:
            bad = table_roundtrip(c["cols"], os.path.join(d, "tab"))
            print("csv round trip deviations:", bad or "none")
            return not bad
        if "kind" in c:
            with warnings.catch_warnings():
                warnings.simplefilter("ignore")
                fields = realize(c, d)
                snap = snapshot(fields)
            p2, got = write_read(fields, os.path.join(d, "w"))
            bad = compare_mesh(snap, got) if "error" not in got else [got["error"]]
            print("scenario:", c["kind"], "| deviations of the re-read file from what was written:", bad or "none")
            return not bad
        print("no scenario in this replay:", rec.get("what"))
        return False
    finally:
        for f in os.listdir(d):
            os.unlink(os.path.join(d, f))
        os.rmdir(d)
