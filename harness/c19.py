"""C19 — comparing is free of side effects and repeatable (partial).

Proved part: Model.Heap — a static check on effect programs is sound, and the transcribed write sites of the library pass
it (the pinned `to_meshio` pixel/voxel reordering does not: refuted).  Observed part (this harness): random histories of
public operations on shared objects; before and after every step all arrays reachable from the inputs are snapshotted
(bytes + dtype + shape), input files are hashed, the work directory is listed; verdicts of repeated runs, of fresh objects
and of a second process with another PYTHONHASHSEED must coincide.
"""
from __future__ import annotations

import hashlib
import json
import os
import shutil
import subprocess
import sys
import warnings
from fractions import Fraction as Fr

import numpy as np

from . import lib, meshgen as G
from . import vtkenc as V
from .clicommon import run_cli

OPS = ["compare", "compare_again", "field_comparator", "sort", "sort_points", "sort_cells", "strip", "merge", "extend",
       "diff", "write", "to_meshio", "to_meshio", "from_meshio_roundtrip", "equals", "predicate_reuse", "structured_access",
       "dynamic_tolerance_reuse", "sequence_reuse", "merge_one_sided"]


def snapshot(arrays):
    return [(a.tobytes(), str(a.dtype), a.shape) if a.dtype != object else (repr([x.tolist() for x in a]), "object", a.shape)
            for a in arrays]


def build(M, column_scalars=False, foreign_byte_order=False, marker=None):
    """MeshFields plus the list of every numpy array handed to the library (column_scalars: scalar fields stored as (n, 1)
    arrays, as some writers hand them out, instead of (n,))"""
    from fieldcompare.mesh import Mesh, MeshFields, CellType
    arrays = []
    pts = np.array([[float(x) for x in p] for p in M["pts"]], dtype=float).reshape(len(M["pts"]), M["dim"])
    arrays.append(pts)
    conn = []
    for t, rows in M["blocks"]:
        c = G.connectivity_array(rows)
        arrays.append(c)
        conn.append((CellType.from_name(t), c))
    pd = {}
    for name, rows in M["pf"].items():
        isint = rows and isinstance(G.first_scalar(rows[0]), int)
        pd[name] = G.to_numpy_rows(rows, dtype=np.int64 if isint else float)
        if column_scalars and pd[name].ndim == 1:
            pd[name] = pd[name].reshape(-1, 1)
        if foreign_byte_order:
            # data that came from a machine / file of the other endianness: same values, bytes stored the other way round
            pd[name] = pd[name].astype(pd[name].dtype.newbyteorder("S"))
        arrays.append(pd[name])
    if marker is not None:
        # a single-precision field holding a "no data" marker of huge magnitude (its difference to the other side's marker overflows)
        pd["nodata"] = np.full(len(M["pts"]), marker, dtype=np.float32)
        arrays.append(pd["nodata"])
    cd = {}
    for name, per in M["cf"].items():
        cd[name] = [G.to_numpy_rows(per[t]) for t, _ in M["blocks"]]
        if column_scalars:
            cd[name] = [x.reshape(-1, 1) if x.ndim == 1 else x for x in cd[name]]
        arrays += cd[name]
    f = MeshFields(Mesh(pts, conn), pd, cd)
    f._verif_parts = (pts, conn, pd, cd)          # (harness attribute) the very arrays, to build further objects on them
    return f, arrays


def verdict(suite):
    return (bool(suite), bool(suite.domain_equality_check), tuple(sorted((c.name, c.status.name) for c in suite)))


def run_history(ctx, rng, idx):
    from fieldcompare import FieldDataComparator
    from fieldcompare.mesh import (MeshFieldsComparator, sort, sort_points, sort_cells, strip_orphan_points, merge,
                                   extend_space_dimension_to, ImageMesh, MeshFields, CellTypes)
    from fieldcompare.mesh import meshio_utils
    from fieldcompare.predicates import DefaultEquality
    from fieldcompare.io import write

    M = G.add_fields(rng, G.gen_mesh(rng, max_cells=4), kinds=("scalar", "vector", "int"))
    kind = rng.choice(["equal", "equal", "field_differs", "moved"])
    N = G.relabel(rng, M)[0]
    if kind == "field_differs" and N["pf"].get("p"):
        N["pf"]["p"][0] += Fr(3, 2)
    if kind == "moved":
        N["pts"][0][0] += 1000
    if rng.random() < 0.3:
        G.add_orphans(rng, M, 1)
    if rng.random() < 0.3:
        # points stored in ascending x order but unordered in y within equal x (a common output order of mesh generators)
        n_ = len(M["pts"])
        M = G.reorder_points(M, sorted(range(n_), key=lambda i: (M["pts"][i][0], -M["pts"][i][1] if M["dim"] > 1 else 0)))
    cols = rng.choice(["none", "none", "source", "reference"])     # one side stores its scalar fields as (n, 1) columns
    foreign = rng.choice(["none", "none", "none", "source", "reference"])   # one side's point fields in non-native byte order
    markers = rng.random() < 0.2        # opposite huge markers on the two sides (only where the verdict is 'failed' anyway)
    a, arrs_a = build(M, column_scalars=cols == "source", foreign_byte_order=foreign == "source", marker=3.0e38 if markers else None)
    b, arrs_b = build(N, column_scalars=cols == "reference", foreign_byte_order=foreign == "reference", marker=-3.0e38 if markers else None)
    arrays = arrs_a + arrs_b
    # tolerances set by the user on one of the meshes: part of the caller's data, like the arrays
    user_tol = rng.random() < 0.3
    if user_tol:
        a.domain.set_tolerances(abs_tol=1e-6 * (1.0 + float(np.max(np.abs(a.domain.points)))), rel_tol=1e-6)
    tolerances = lambda: [(float(x.domain.relative_tolerance), float(x.domain.absolute_tolerance)) for x in (a, b)]  # noqa: E731
    readonly = rng.random() < 0.5
    if readonly:
        # the caller's arrays are write-protected: an operation that tries to write into one of them is stopped by numpy
        # ("assignment destination is read-only") even if the bytes written would be the same
        for x in arrays:
            x.setflags(write=False)
    ops = [rng.choice(OPS) for _ in range(rng.randint(2, 8))]
    canon = {"source": json.loads(json.dumps({k: v for k, v in M.items() if k != "_orph"}, default=str)),
             "reference": json.loads(json.dumps({k: v for k, v in N.items() if k != "_orph"}, default=str)), "ops": ops, "kind": kind,
             "inputs_write_protected": readonly, "scalar_fields_as_columns": cols, "point_fields_in_foreign_byte_order": foreign,
             "user_tolerances_on_source_mesh": user_tol, "opposite_huge_markers": markers}
    work = os.path.join(str(ctx.workdir), f"h{idx}")
    os.makedirs(work)
    comparator = MeshFieldsComparator(a, b)
    pred = DefaultEquality()
    first_verdict = None
    executed = []
    try:
        for op in ops:
            before = snapshot(arrays)
            tol_before = tolerances()
            err_before = dict(np.geterr())
            listing_before = sorted(os.listdir(work))
            expect_new = []
            with warnings.catch_warnings():
                warnings.simplefilter("ignore")
                try:
                    if op == "compare":
                        v = verdict(MeshFieldsComparator(a, b)(fieldcomp_callback=lambda c: None))
                        if first_verdict is None:
                            first_verdict = v
                        elif v != first_verdict:
                            ctx.violation("E4", "repeating a comparison with a fresh comparator gives a different verdict / statuses", canon,
                                          first=str(first_verdict), now=str(v), executed=executed + [op])
                    elif op == "compare_again":
                        v = verdict(comparator(fieldcomp_callback=lambda c: None))
                        if first_verdict is None:
                            first_verdict = v
                        elif v != first_verdict:
                            ctx.violation("E4", "re-running the same comparator object gives a different verdict / statuses", canon,
                                          first=str(first_verdict), now=str(v), executed=executed + [op])
                    elif op == "field_comparator":
                        FieldDataComparator(a, a)(fieldcomp_callback=lambda c: None)
                    elif op == "sort":
                        list(sort(a))
                        sort(b).domain.points
                    elif op == "sort_points":
                        x = sort_points(a)
                        [x.domain.connectivity(ct) for ct in x.domain.cell_types]
                        x2 = sort_points(a)
                        if not np.array_equal(np.asarray(x.domain.points), np.asarray(x2.domain.points)):
                            ctx.violation("E4", "sorting the points of the same object twice gives different point orders", canon,
                                          executed=executed + [op])
                    elif op == "sort_cells":
                        x = sort_cells(b)
                        [x.domain.connectivity(ct) for ct in x.domain.cell_types]
                        list(x)
                    elif op == "strip":
                        list(strip_orphan_points(a))
                    elif op == "merge":
                        x = merge(a, b)
                        list(x)
                    elif op == "extend":
                        list(extend_space_dimension_to(3, a))
                    elif op == "diff":
                        try:
                            list(a.diff_to(a))
                            list(sort(a).diff_to(sort(a)))
                            # a second data set on the SAME arrays that lacks some of the fields: one-sided fields (NaN in the
                            # difference) in both roles
                            from fieldcompare.mesh import Mesh as _Mesh
                            pts_, conn_, pd_, cd_ = a._verif_parts
                            keep_p = {k: v for i, (k, v) in enumerate(pd_.items()) if i % 2 == 0}
                            keep_c = {k: v for i, (k, v) in enumerate(cd_.items()) if i % 2 == 1}
                            a_less = MeshFields(_Mesh(pts_, conn_), keep_p, keep_c)
                            list(a.diff_to(a_less))
                            list(a_less.diff_to(a))
                        except RuntimeError:
                            pass
                    elif op == "merge_one_sided":
                        # a point field that only the first operand carries: the merged field is the same on every repetition
                        pts_, conn_, pd_, cd_ = a._verif_parts
                        extra_f = MeshFields(a.domain, dict({k: v for k, v in pd_.items()}, only_here=np.arange(float(len(pts_))) + 1.0), cd_)
                        shifted_pts = np.asarray(b.domain.points) + 1000.0
                        from fieldcompare.mesh import Mesh as _Mesh
                        other = MeshFields(_Mesh(shifted_pts, [(ct, np.asarray(b.domain.connectivity(ct))) for ct in b.domain.cell_types]),
                                           {f.name: np.asarray(f.values) for f in b.point_fields},
                                           {nm: [np.asarray(f.values) for f, _ in b.cell_fields_types if f.name.rsplit(" @ ", 1)[0] == nm]
                                            for nm in {f.name.rsplit(" @ ", 1)[0] for f, _ in b.cell_fields_types}})
                        runs = []
                        for _rep in range(3):
                            junk = [np.full(64, 7.5 + _rep) for _ in range(8)]      # (churn the allocator between the repetitions)
                            del junk
                            mg = merge(extra_f, other)
                            runs.append(np.array(next(f.values for f in mg.point_fields if f.name == "only_here"), dtype=float))
                        if not all(np.array_equal(runs[0], r, equal_nan=True) for r in runs[1:]):
                            ctx.violation("E4", "merging the same two data sets repeatedly gives different values for a point field that only "
                                                "the first one carries", canon, executed=executed + [op])
                    elif op == "write":
                        expect_new = [] if os.path.exists(os.path.join(work, "out_a.vtu")) else ["out_a.vtu"]
                        write(sort(a), os.path.join(work, "out_a"))
                        # ... and the data set as it is (the writer then works on the caller's own arrays, not on sorted copies)
                        expect_new += [] if os.path.exists(os.path.join(work, "out_plain.vtu")) else ["out_plain.vtu"]
                        write(a if rng.random() < 0.5 else b, os.path.join(work, "out_plain"))
                    elif op == "to_meshio":
                        m1 = meshio_utils.to_meshio(a)
                        m2 = meshio_utils.to_meshio(a)
                        same = all(np.array_equal(c1.data, c2.data) for c1, c2 in zip(m1.cells, m2.cells))
                        if not same:
                            ctx.violation("E4", "converting the same field data to meshio twice gives different cell connectivities", canon,
                                          executed=executed + [op])
                    elif op == "from_meshio_roundtrip":
                        list(meshio_utils.from_meshio(meshio_utils.to_meshio(b)))
                    elif op == "equals":
                        a.domain.equals(b.domain)
                        b.domain.equals(a.domain)
                    elif op == "predicate_reuse":
                        for f in a:
                            pred(f.values, f.values)
                        for fa, fb in zip(a, a):
                            pred(fa.values, fb.values)
                    elif op == "dynamic_tolerance_reuse":
                        # one predicate with data-dependent tolerances applied to fields of different dtypes / magnitudes, in a
                        # random order, must give the verdicts of fresh predicates
                        from fieldcompare.predicates import FuzzyEquality, ScaledTolerance
                        pairs = []
                        for dt in ("float32", "float64", "float64", "int32"):
                            scale = 10.0 ** rng.choice([-3, 0, 4])
                            x = (np.arange(1, 5) * scale).astype(dt)
                            y = x.copy()
                            if dt != "int32":
                                y[rng.randrange(4)] *= (1 + rng.choice([1e-9, 3e-8, 1e-5, 0.0]))
                            pairs.append((x, y))
                        rng.shuffle(pairs)
                        for mk in (lambda: FuzzyEquality(rel_tol=0.0, abs_tol=ScaledTolerance()),
                                   lambda: FuzzyEquality(),
                                   lambda: FuzzyEquality(rel_tol=0.0, abs_tol=ScaledTolerance(1e-7))):
                            shared = mk()
                            for x, y in pairs:
                                v_shared, v_fresh = bool(shared(x, y)), bool(mk()(x, y))
                                if v_shared != v_fresh:
                                    ctx.violation("E4", "a re-used predicate with a data-dependent tolerance gives a different verdict "
                                                  f"than a fresh one (dtype {x.dtype}: reused {v_shared}, fresh {v_fresh})", canon,
                                                  executed=executed + [op])
                    elif op == "sequence_reuse":
                        # one sequence object iterated completely, abandoned half-way (as the longer operand of a zip does),
                        # and iterated again: every pass hands out all steps from the first one on
                        from fieldcompare import FieldDataSequence

                        class _Src:
                            def __init__(self, steps):
                                self._steps, self._i = steps, 0

                            def reset(self):
                                self._i = 0

                            def step(self):
                                self._i += 1
                                return self._i < len(self._steps)

                            def get(self):
                                return self._steps[self._i]

                            @property
                            def number_of_steps(self):
                                return len(self._steps)
                        nsteps = rng.randint(2, 4)
                        steps_ = [MeshFields(a.domain, {"marker": np.full(len(a.domain.points), float(k))}, {}) for k in range(nsteps)]
                        seq = FieldDataSequence(source=_Src(steps_))

                        def marks(it_, limit=None):
                            out_ = []
                            for fd in it_:
                                out_.append(int(next(iter(fd)).values[0]))
                                if limit is not None and len(out_) >= limit:
                                    break
                            return out_
                        full1 = marks(seq)
                        part = marks(seq, limit=rng.randint(1, nsteps - 1))
                        full2 = marks(seq)
                        both = [m for m, _ in zip(marks(seq), range(nsteps - 1))]
                        full3 = marks(seq)
                        if not (full1 == full2 == full3 == list(range(nsteps))):
                            ctx.violation("E4", f"iterating the same sequence object again after an abandoned iteration gives {full2} / "
                                                f"{full3} instead of {list(range(nsteps))} (partial pass: {part}, zip pass: {both})", canon,
                                          executed=executed + [op])
                    elif op == "structured_access":
                        im = ImageMesh((2, 1, 0), (0.0, 0.0, 0.0), (1.0, 1.0, 1.0))
                        p1 = im.points
                        c1 = im.connectivity(CellTypes.pixel)
                        f = MeshFields(im, {"q": np.arange(6.0)}, {})
                        meshio_utils.to_meshio(f)
                        if not (np.array_equal(p1, im.points) and np.array_equal(c1, im.connectivity(CellTypes.pixel))):
                            ctx.violation("E4", "points/connectivity of a structured mesh change after use", canon, executed=executed + [op])
                        # tolerances set on a structured mesh AFTER it has taken part in a comparison count from then on: the repeated
                        # comparison answers like a fresh pair of meshes with those tolerances
                        g1 = ImageMesh((2, 1, 0), (0.0, 0.0, 0.0), (1.0, 1.0, 1.0))
                        g2 = ImageMesh((2, 1, 0), (1e-3, 0.0, 0.0), (1.0, 1.0, 1.0))
                        first_ans = bool(g1.equals(g2))
                        g1.set_tolerances(abs_tol=0.5, rel_tol=0.0)
                        fresh = ImageMesh((2, 1, 0), (0.0, 0.0, 0.0), (1.0, 1.0, 1.0))
                        fresh.set_tolerances(abs_tol=0.5, rel_tol=0.0)
                        if first_ans or bool(g1.equals(g2)) != bool(fresh.equals(g2)):
                            ctx.violation("E4", "an image mesh that was compared once ignores tolerances set afterwards (a fresh mesh with the same "
                                                "tolerances answers differently)", canon, executed=executed + [op])
                        # reading a ROTATED image grid in between does not turn other image grids: one made before (its points not
                        # asked for yet) and one made afterwards still lie along the coordinate axes
                        from . import vtkenc as V_
                        from fieldcompare.io import read_field_data as _read
                        early = ImageMesh((2, 1, 0), (0.0, 0.0, 0.0), (1.0, 2.0, 1.0))
                        rot = os.path.join(work, "rotated.vti")
                        if not os.path.exists(rot):
                            V_.write_vti(rot, [0, 2, 0, 1, 0, 0], [0.0, 0.0, 0.0], [1.0, 2.0, 1.0], [0.0, -1.0, 0.0, 1.0, 0.0, 0.0, 0.0, 0.0, 1.0],
                                         [("p", "Float64", 1, [float(i) for i in range(6)])], None, V_.Cfg("ascii"))
                            expect_new = expect_new + ["rotated.vti"]
                        np.asarray(_read(rot).domain.points)
                        late = ImageMesh((2, 1, 0), (0.0, 0.0, 0.0), (1.0, 2.0, 1.0))
                        lattice = np.array([[float(i), 2.0 * j, 0.0] for j in range(2) for i in range(3)])
                        if not (np.array_equal(np.asarray(early.points), lattice) and np.array_equal(np.asarray(late.points), lattice)):
                            ctx.violation("E4", "after a rotated .vti was read, image grids without a direction matrix are rotated as well "
                                                "(state shared between data sets)", canon, executed=executed + [op])
                        # curvilinear and rectilinear grids (2-d and 3-d): what the accessors hand out is the same on every
                        # access, also after conversions and comparisons in between
                        from fieldcompare.mesh import StructuredMesh, RectilinearMesh
                        ext = rng.choice([(2, 1, 0), (1, 2, 0), (1, 1, 1), (2, 0, 1), (2, 0, 0)])
                        gp = np.array([[float(i), float(j), float(k)] for k in range(ext[2] + 1) for j in range(ext[1] + 1)
                                       for i in range(ext[0] + 1)])
                        for sm in (StructuredMesh(ext, gp),
                                   RectilinearMesh(ext, tuple(np.arange(e + 1, dtype=float) for e in ext))):
                            cts = list(sm.cell_types)
                            firsts = [np.array(sm.connectivity(ct)) for ct in cts]
                            pfirst = np.array(sm.points)
                            fs = MeshFields(sm, {"q": np.arange(float(len(pfirst)))}, {"c": [np.arange(float(len(firsts[0])))]})
                            m1 = meshio_utils.to_meshio(fs)
                            list(fs)
                            sm.equals(sm)
                            m2 = meshio_utils.to_meshio(fs)
                            again = [np.array(sm.connectivity(ct)) for ct in cts]
                            if not (all(np.array_equal(x, y) for x, y in zip(firsts, again)) and np.array_equal(pfirst, sm.points)
                                    and all(np.array_equal(c1_.data, c2_.data) for c1_, c2_ in zip(m1.cells, m2.cells))):
                                ctx.violation("E4", f"{type(sm).__name__}: points / connectivity handed out change between accesses", canon,
                                              executed=executed + [op], extents=list(ext))
                except Exception as e:  # noqa: BLE001
                    ragged = any(len({len(r) for r in rows}) > 1 for X in (M, N) for _, rows in X["blocks"])
                    if op in ("to_meshio", "from_meshio_roundtrip") and ragged:
                        ctx.count("meshio conversion refused polygons with differing corner counts (meshio limitation)")
                    elif cols != "none" and op in ("merge", "diff", "merge_one_sided") and "number of dimensions" in str(e):
                        ctx.count(f"{op} refused scalar fields stored as (n,) on one side and (n, 1) on the other (no side effect)")
                    elif "read-only" in str(e):
                        ctx.violation("E4", f"operation '{op}' tries to write into an array of the data sets it was given "
                                            f"(the arrays were write-protected: {e})", canon, executed=executed + [op])
                    elif "uniquely sort duplicate" not in str(e):
                        ctx.violation("E4", f"operation {op} raised {type(e).__name__}: {e}", canon, executed=executed + [op])
            executed.append(op)
            after = snapshot(arrays)
            if dict(np.geterr()) != err_before:
                ctx.violation("E4", f"operation '{op}' left numpy's floating-point error handling changed ({err_before} -> {dict(np.geterr())}): "
                                    "later comparisons in the same process behave differently", canon, executed=executed, op=op)
                np.seterr(**err_before)
            if tolerances() != tol_before:
                ctx.violation("E4", f"operation '{op}' changed the tolerances of a mesh it was given ({tol_before} -> {tolerances()})",
                              canon, executed=executed, op=op)
            changed = [i for i, (x, y) in enumerate(zip(before, after)) if x != y]
            if changed:
                ctx.violation("E4", f"operation '{op}' modified an array of the data sets it was given (array #{changed[0]} of {len(arrays)})",
                              canon, executed=executed, op=op)
                break
            new_files = sorted(set(os.listdir(work)) - set(listing_before))
            if new_files != expect_new:
                ctx.violation("E4", f"operation '{op}' wrote files that were not requested: {new_files}", canon, executed=executed)
    finally:
        shutil.rmtree(work, ignore_errors=True)
    ctx.case(canon, True, sample={"ops": ops, "kind": kind, "points": len(M["pts"])})
    for op in executed:
        ctx.count(f"op:{op}")
    ctx.traces_validated += 1


SECOND_PROCESS = r"""
import sys, json, warnings
warnings.simplefilter("ignore")
from fieldcompare._cli import main
from fieldcompare._cli._logger import CLILogger
import io
rc = main(["file", sys.argv[1], sys.argv[2], "--verbosity", "2"], CLILogger(output_stream=io.StringIO()))
print(json.dumps({"exit": rc}))
"""


def file_history(ctx, rng, idx):
    """CLI comparisons never touch the input files nor write anything unrequested; another process agrees on the verdict"""
    M = G.add_fields(rng, G.gen_mesh(rng, max_cells=4, ), kinds=("scalar",))
    if any(len({len(r) for r in rows}) > 1 for _, rows in M["blocks"]):
        return
    N = G.relabel(rng, M, blocks=False)[0]
    if rng.random() < 0.4:
        N["pf"]["p"][0] += Fr(1, 4)
    work = os.path.join(str(ctx.workdir), f"f{idx}")
    os.makedirs(work)
    try:
        paths = []
        for nm, X in (("res", M), ("ref", N)):
            pts = [[float(x) for x in G.padded(p)] for p in X["pts"]]
            cells = [(G.VTK_ID[t], r) for t, rows in X["blocks"] for r in rows]
            pth = os.path.join(work, nm + ".vtu")
            V.write_vtu(pth, pts, cells, [("p", "Float64", 1, [float(v) for v in X["pf"]["p"]])], [], V.Cfg(rng.choice(["ascii", "binary", "appended-raw"])))
            paths.append(pth)
        # the same data also as two-step sequences (.pvd) and inside two directories
        variant = rng.choice(["single", "single", "sequence", "directories"])
        targets = [paths[0], paths[1]]
        mode = "file"
        if variant == "sequence":
            for nm, pth in (("res", paths[0]), ("ref", paths[1])):
                shutil.copy(pth, os.path.join(work, nm + "_step1.vtu"))
                V.write_pvd(os.path.join(work, nm + ".pvd"), [nm + ".vtu", nm + "_step1.vtu"])
                paths += [os.path.join(work, nm + "_step1.vtu"), os.path.join(work, nm + ".pvd")]
            targets = [os.path.join(work, "res.pvd"), os.path.join(work, "ref.pvd")]
        elif variant == "directories":
            for nm, pth in (("res", paths[0]), ("ref", paths[1])):
                os.makedirs(os.path.join(work, "dir_" + nm))
                shutil.copy(pth, os.path.join(work, "dir_" + nm, "data.vtu"))
                paths.append(os.path.join(work, "dir_" + nm, "data.vtu"))
            targets = [os.path.join(work, "dir_res"), os.path.join(work, "dir_ref")]
            mode = "dir"
        sha = lambda: [hashlib.sha256(open(p, "rb").read()).hexdigest() for p in paths]  # noqa: E731
        mt = lambda: [os.stat(p).st_mtime_ns for p in paths]  # noqa: E731
        tree = lambda: sorted(os.path.join(r, f) for r, _, fs in os.walk(work) for f in fs)  # noqa: E731
        # the commands run from an empty working directory of their own: nothing may appear there either
        cwd_dir = os.path.join(work, "cwd_of_the_command")
        os.makedirs(cwd_dir)
        h0, m0, l0 = sha(), mt(), tree()
        codes = []
        old_cwd = os.getcwd()
        os.chdir(cwd_dir)
        try:
            with warnings.catch_warnings():
                warnings.simplefilter("ignore")
                for _ in range(2):
                    codes.append(run_cli([mode, targets[0], targets[1], "--verbosity", "0"])[0])
        finally:
            os.chdir(old_cwd)
        canon = {"file_history": idx, "points": len(M["pts"]), "variant": variant}
        ctx.case(canon, True, sample={"file_history": {"exit_codes": codes}})
        ctx.count("file history:" + variant)
        if sha() != h0 or mt() != m0:
            ctx.violation("E4", "comparing modified an input file", canon)
        if tree() != l0:
            ctx.violation("E4", f"comparing ({variant}) wrote unrequested files: {sorted(set(tree()) - set(l0))}", canon)
        if codes[0] != codes[1]:
            ctx.violation("E4", f"repeating the same CLI comparison gives different exit codes {codes}", canon)
        if idx % 10 == 0:
            env = dict(os.environ, PYTHONHASHSEED=str(1000 + idx), PYTHONPATH=str(lib.REPO))
            p = subprocess.run([sys.executable, "-c", SECOND_PROCESS, paths[0], paths[1]], capture_output=True, text=True, env=env, timeout=120)
            try:
                other = json.loads(p.stdout.strip().splitlines()[-1])["exit"]
            except Exception:  # noqa: BLE001
                other = f"failed: {p.stderr[-200:]}"
            ctx.count("second process")
            if other != codes[0]:
                ctx.violation("E4", f"another process (different hash seed) gives exit code {other}, this process {codes[0]}", canon)
        ctx.traces_validated += 1
    finally:
        shutil.rmtree(work, ignore_errors=True)


def rewritten_path_history(ctx, rng, idx):
    """a result / reference pair stored under names whose extension says nothing about the format (the readers sniff the VTK
    flavour): the files are compared, REPLACED at the same paths by data of another VTK flavour, and compared again, several
    times in one process; every verdict must be the one obtained for the same bytes under fresh, properly named paths (and,
    for a sample, in another process): nothing learnt about a path in an earlier comparison may leak into a later one"""
    ext = rng.choice([".out", ".dat", ".result", ".data", ""])
    work = os.path.join(str(ctx.workdir), f"w{idx}")
    os.makedirs(work)
    try:
        res, ref = os.path.join(work, "res" + ext), os.path.join(work, "ref" + ext)
        flavours = [rng.choice(["vtu", "vti", "vtr"]) for _ in range(rng.randint(2, 4))]
        if len(set(flavours)) == 1:
            flavours[-1] = {"vtu": "vti", "vti": "vtr", "vtr": "vtu"}[flavours[0]]
        canon = {"rewritten_path_history": idx, "extension": ext, "flavours": flavours}
        verdicts = []
        for step, fl in enumerate(flavours):
            differ = rng.random() < 0.4
            cfg = V.Cfg(rng.choice(["ascii", "binary", "appended-raw"]))
            named = []
            for nm, target in (("res", res), ("ref", ref)):
                bump = 0.25 if (differ and nm == "ref") else 0.0
                proper = os.path.join(work, f"{nm}_{step}.{fl}")
                if fl == "vtu":
                    pts = [[0.0, 0.0, 0.0], [1.0, 0.0, 0.0], [1.0, 1.0, 0.0], [0.0, 1.0, 0.0]]
                    V.write_vtu(proper, pts, [(9, [0, 1, 2, 3])], [("p", "Float64", 1, [1.0 + bump, 2.0, 3.0, 4.0])], [], cfg)
                elif fl == "vti":
                    V.write_vti(proper, [0, 2, 0, 1, 0, 0], [0.0, 0.0, 0.0], [0.5, 1.0, 1.0], None,
                                [("p", "Float64", 1, [1.0 + bump, 2.0, 3.0, 4.0, 5.0, 6.0])], [], cfg)
                else:
                    V.write_vtr(proper, [0, 1, 0, 1, 0, 0], [[0.0, 1.0], [0.0, 2.0], [0.0]],
                                [("p", "Float64", 1, [1.0 + bump, 2.0, 3.0, 4.0])], [], cfg)
                shutil.copyfile(proper, target)
                named.append(proper)
            with warnings.catch_warnings():
                warnings.simplefilter("ignore")
                got = run_cli(["file", res, ref, "--verbosity", "0"])[0]
                want = run_cli(["file", named[0], named[1], "--verbosity", "0"])[0]
            verdicts.append([fl, got, want])
            ctx.count(f"rewritten path:{fl}:{'fail' if want else 'pass'}")
            if got != want:
                ctx.violation("E4", f"step {step}: the files at {os.path.basename(res)!r} / {os.path.basename(ref)!r} now hold {fl} data and "
                                    f"compare with exit code {got}; the same bytes under properly named paths give {want} "
                                    f"(contents of these paths in the earlier steps: {flavours[:step]})", canon, verdicts=verdicts)
                break
        if idx % 5 == 0 and verdicts and verdicts[-1][1] == verdicts[-1][2]:
            env = dict(os.environ, PYTHONHASHSEED=str(2000 + idx), PYTHONPATH=str(lib.REPO))
            pr = subprocess.run([sys.executable, "-c", SECOND_PROCESS, res, ref], capture_output=True, text=True, env=env, timeout=120)
            try:
                other = json.loads(pr.stdout.strip().splitlines()[-1])["exit"]
            except Exception:  # noqa: BLE001
                other = f"failed: {pr.stderr[-200:]}"
            ctx.count("second process")
            if other != verdicts[-1][1]:
                ctx.violation("E4", f"another process gives exit code {other} for the files as they are now, this process {verdicts[-1][1]} "
                                    f"(after comparing {flavours[:-1]} at the same paths)", canon, verdicts=verdicts)
        ctx.case(canon, True, sample={"rewritten_path_history": verdicts})
        ctx.traces_validated += 1
    finally:
        shutil.rmtree(work, ignore_errors=True)


def run(ctx):
    ctx.prove()
    q = ctx.tier == "quick"
    rng = ctx.rng
    for i in range(350 if q else 10000):
        run_history(ctx, rng, i)
    for i in range(60 if q else 1500):
        file_history(ctx, rng, i)
    for i in range(25 if q else 600):
        rewritten_path_history(ctx, rng, i)
    ctx.extra["write_sites_modelled"] = ["_get_fixed_size_corner_indices_sorted", "_merge (connectivity remap)", "fuzzy_equal",
                                         "get_fuzzy_lex_sorting_index_map", "_subtract (fill nan)", "extend_space_dimension_to",
                                         "to_meshio pixel/voxel reordering"]
    ctx.rule = ("histories of 2-8 public operations (compare with fresh / re-used comparator objects, FieldDataComparator, sort*, "
                "strip, merge, extend, diff_to, write, to_meshio twice, from_meshio round trip, equals both ways, one predicate "
                "object re-used over all fields, structured mesh points/connectivity access) on two shared MeshFields objects "
                "(equal up to relabeling / a field differs / a point moved; optional orphan points; pixel and voxel cells included); "
                "CLI runs on files in every encoding with hashes, mtimes and directory listings; a second process with another "
                "PYTHONHASHSEED for a sample; result / reference files under names without a telling extension that are replaced by data of "
                "another VTK flavour between comparisons in one process. every case is non-trivial")
    return ctx.finish(assumptions=["absence of writes is PROVED only for the write sites transcribed in Model/Heap.v; for every other "
                                   "library/numpy call it is OBSERVED by byte snapshots on the generated histories",
                                   "process independence is sampled (one extra process per 10 file histories)"],
                      trusted=["harness/c19.py", "the transcription of the write sites into effect programs (Model/Heap.v)"])


def replay(pid, rec):
    print("re-run ./check C19 quick with the same VERIF_SEED to reproduce:", rec["what"])
    return False
