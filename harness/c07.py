"""C07 — the same grid reads equal from every supported container format.

For generated grids (extents 0-3 per axis, all 7 non-empty subsets of meshed directions; image grids with dyadic origin / spacing
and identity or axis-permuting (signed) direction matrices, rectilinear grids with monotone ordinates, curvilinear point sets) the
harness writes .vti / .vtr / .vts / .vtu (pixel-voxel and quad-hexahedron variants, optionally with shuffled numbering) with its
own encoder and legacy .vtk / .xdmf through meshio, reads each with read_field_data and checks
  oracle   ground-truth points, cells (corner coordinates in the order prescribed by the cell type), point values per coordinate,
           cell values per cell, numeric types; every pair of representations through MeshFieldsComparator (domain + point fields)
  model    Model.Structured.connectivity / image_points / rect_points vs ImageMesh / RectilinearMesh / StructuredMesh(...)
           .points / .connectivity(ct) (exact), Model.Structured.from_meshio_* vs meshio_utils.from_meshio
Hybrid stream: the grid's cells split into several blocks interleaved with lower-dimensional cells (REPEATED cell types), in
random block order, through .vtu / .vtk / .xdmf and from_meshio directly.

REPAIRED switches the model between the pinned and the repaired behaviour per finding; every finding has a stable `what`.
"""
from __future__ import annotations

import contextlib
import io
import itertools
import os
import shutil
import warnings
from collections import Counter
from fractions import Fraction

import numpy as np

from . import lib
from . import vtkenc as V
from .lib import clist, cnat, cqfrac

REPAIRED = {"F-C07a": True, "F-C07b": True}
# experiments only (mutation / candidate-fix runs against a scratch copy): VERIF_REPAIRED=F-C06a,F-C06b switches entries on
for _k in filter(None, os.environ.get("VERIF_REPAIRED", "").split(",")):
    if _k in REPAIRED:
        REPAIRED[_k] = True

WHAT = {
    "F-C07a": "F-C07a .vts with cell data whose grid is not two-dimensional cannot be read (cell-index map keyed by QUAD)",
    "F-C07b-file": "F-C07b meshio format with several blocks of one cell type: cells of all but the last block are lost / cell data misattached",
    "F-C07b-direct": "F-C07b from_meshio with several blocks of one cell type: cells of all but the last block are lost / cell data misattached",
}

HEADER = """From Coq Require Import QArith ZArith Bool Arith List.
From FC Require Import Model.Structured.
Import ListNotations.
Local Open Scope nat_scope.
Definition grid (k : grid_kind) (e : list nat) :=
  (cell_type_of k (length (nonzero_extents e)), connectivity k (cell_type_of k (length (nonzero_extents e))) e,
   num_cells e, num_points e).
Definition qout (l : list qvec) := map (map (fun q => (Qnum q, Z.pos (Qden q)))) l.
Definition fm_out (o : option (list (nat * (list (list nat) * list nat)))) := o.
"""

Q = 4              # coordinates in quarters
NP_DT = {"Float64": np.float64, "Float32": np.float32, "Int32": np.int32, "Int64": np.int64, "UInt8": np.uint8, "UInt16": np.uint16}
PIX2VTK = {2: [0, 1], 4: [0, 1, 3, 2], 8: [0, 1, 3, 2, 4, 5, 7, 6]}
MESHIO_TYPE = {1: "vertex", 3: "line", 9: "quad", 12: "hexahedron", 5: "triangle"}
VTK_OF_MESHIO = {v: k for k, v in MESHIO_TYPE.items()}


# ================================================================================================
# generation + ground truth
# ================================================================================================
def gen_grid(rng, force_dirs=None):
    dirs = force_dirs if force_dirs is not None else rng.choice([s for r in (1, 2, 3) for s in itertools.combinations(range(3), r)])
    ext = [0, 0, 0]
    for a in dirs:
        ext[a] = rng.randint(1, 3)
    kind = rng.choice(["image", "image", "rect", "curv"])
    c = {"ext": ext, "kind": kind, "dirs": list(dirs)}
    c["origin"] = [rng.randint(-12, 12) for _ in range(3)]
    c["spacing"] = [rng.choice([1, 2, 3, 4, 6]) for _ in range(3)]
    c["D"] = None
    if kind == "image" and rng.random() < 0.5:
        perm = list(rng.choice(list(itertools.permutations(range(3)))))
        sign = [rng.choice([1, 1, -1]) for _ in range(3)]
        D = [[0] * 3 for _ in range(3)]
        for col in range(3):
            D[perm[col]][col] = sign[col]
        if D != [[1, 0, 0], [0, 1, 0], [0, 0, 1]]:
            c["D"] = D
    if kind == "rect":
        c["ords"] = [sorted(rng.sample(range(-24, 40), ext[a] + 1)) for a in range(3)]
    if kind == "curv":      # ordinates one unit apart at least, warped by at most half a unit: no coincident points
        c["ords"] = [[4 * x for x in sorted(rng.sample(range(-6, 10), ext[a] + 1))] for a in range(3)]
    npts = (ext[0] + 1) * (ext[1] + 1) * (ext[2] + 1)
    if kind == "curv":
        c["warp"] = [[rng.randint(0, 2), rng.randint(0, 2), rng.randint(0, 2)] for _ in range(npts)]
    ncell = max(ext[0], 1) * max(ext[1], 1) * max(ext[2], 1)
    c["pf"] = [_field(rng, "p", npts)] + ([_field(rng, "q", npts)] if rng.random() < 0.5 else [])
    c["cf"] = ([_field(rng, "c", ncell)] + ([_field(rng, "d", ncell)] if rng.random() < 0.4 else [])) if rng.random() < 0.85 else []
    return c


def _field(rng, name, n):
    vt = rng.choice(["Float64", "Float64", "Float32", "Int32", "Int64", "UInt16"])
    nc = rng.choice([1, 1, 3])
    if vt == "UInt16":      # values in the upper half of the range (a signed reading of the bytes would be negative)
        return [name, vt, nc, [rng.choice([40000, 65535, 32768, 7]) for _ in range(n * nc)]]
    return [name, vt, nc, [rng.randint(-60, 60) for _ in range(n * nc)]]      # float value = int / 2


def truth_points(c):
    """lattice points, x fastest, as integer triples (quarters)"""
    e = c["ext"]
    pts = []
    idx = 0
    for k in range(e[2] + 1):
        for j in range(e[1] + 1):
            for i in range(e[0] + 1):
                if c["kind"] == "image":
                    v = [c["spacing"][0] * i, c["spacing"][1] * j, c["spacing"][2] * k]
                    D = c["D"] or [[1, 0, 0], [0, 1, 0], [0, 0, 1]]
                    p = [c["origin"][r] + sum(D[r][q] * v[q] for q in range(3)) for r in range(3)]
                else:
                    p = [c["ords"][0][i], c["ords"][1][j], c["ords"][2][k]]
                    if c["kind"] == "curv":
                        w = c["warp"][idx]
                        p = [p[0] + w[0], p[1] + w[1], p[2] + w[2]]
                pts.append(p)
                idx += 1
    return pts


def truth_cells(c):
    """cells, x fastest over the meshed directions; corners as lattice point indices in pixel/voxel order"""
    e = c["ext"]
    n = [e[0] + 1, e[1] + 1, e[2] + 1]

    def pid(i, j, k):
        return i + n[0] * (j + n[1] * k)
    cells = []
    for k in range(max(e[2], 1)):
        for j in range(max(e[1], 1)):
            for i in range(max(e[0], 1)):
                cs = []
                for dk in ([0, 1] if e[2] else [0]):
                    for dj in ([0, 1] if e[1] else [0]):
                        for di in ([0, 1] if e[0] else [0]):
                            cs.append(pid(i + di, j + dj, k + dk))
                cells.append(cs)
    return cells


def vals(f, i):
    nc = f[2]
    return tuple(f[3][i * nc:(i + 1) * nc])


def ground_truth(c, extra=None):
    """-> (points dict coord -> point values, Counter of (type class, corner coordinate tuple in pixel order, cell values), dtypes)"""
    P = truth_points(c)
    pnames = sorted(f[0] for f in c["pf"])
    pmap = {f[0]: f for f in c["pf"]}
    pt = {tuple(p): tuple(vals(pmap[n], i) for n in pnames) for i, p in enumerate(P)}
    assert len(pt) == len(P), "generated grid has coincident points"
    cnames = sorted(f[0] for f in c["cf"])
    cmap = {f[0]: f for f in c["cf"]}
    C = Counter()
    for i, cs in enumerate(truth_cells(c)):
        C[(len(cs), tuple(tuple(P[p]) for p in cs), tuple(vals(cmap[n], i) for n in cnames))] += 1
    for (t, cs, cv) in (extra or []):
        C[(("x", t), tuple(tuple(P[p]) for p in cs), tuple(tuple(v) for v in cv))] += 1
    dt = {("p", f[0]): np.dtype(NP_DT[f[1]]).name for f in c["pf"]}
    dt.update({("c", f[0]): np.dtype(NP_DT[f[1]]).name for f in c["cf"]})
    return pt, C, dt


# ================================================================================================
# writing the representations
# ================================================================================================
def fvals(f, order=None):
    name, vt, nc, v = f
    n = len(v) // nc
    order = range(n) if order is None else order
    out = [v[i * nc + j] for i in order for j in range(nc)]
    return (name, vt, nc, [x / 2 for x in out] if vt.startswith("Float") else out)


def np_field(f, order=None):
    name, vt, nc, v = fvals(f, order)
    a = np.array(v, dtype=NP_DT[vt])
    return name, (a if nc == 1 else a.reshape(-1, nc))


def cfg_of(rng):
    return rng.choice([dict(fmt="ascii"), dict(fmt="binary"), dict(fmt="appended-raw", compressor="zlib"), dict(fmt="appended-base64")])


def shifted(whole, rng_state):
    """the same grid with index ranges that do not start at zero (a sub-extent of a larger data set, e.g. a slice k = 3..3):
    only the differences of an extent's bounds count"""
    o = rng_state.get("index_offsets") or [0, 0, 0]
    return [whole[0] + o[0], whole[1] + o[0], whole[2] + o[1], whole[3] + o[1], whole[4] + o[2], whole[5] + o[2]]


def write_rep(rep, c, d, rng_state):
    """write representation `rep` of grid c into directory d; returns the path.  rng_state: dict of choices (JSON-able)"""
    e = c["ext"]
    whole = [0, e[0], 0, e[1], 0, e[2]]
    P = truth_points(c)
    pf = [fvals(f) for f in c["pf"]]
    cf = [fvals(f) for f in c["cf"]] if c["cf"] else None
    cfg = V.Cfg(**rng_state["cfg"])
    if rep == "vti":
        path = os.path.join(d, "g.vti")
        D = [x for row in c["D"] for x in row] if c["D"] else None
        V.write_vti(path, whole, [x / Q for x in c["origin"]], [x / Q for x in c["spacing"]], D, pf, cf, cfg)
    elif rep == "vtr":
        path = os.path.join(d, "g.vtr")
        if c["kind"] == "image":
            ords = [[(c["origin"][a] + c["spacing"][a] * i) / Q for i in range(e[a] + 1)] for a in range(3)]
        else:
            ords = [[x / Q for x in c["ords"][a]] for a in range(3)]
        # ordinate vectors of different number types: x as integers when all x ordinates are whole numbers (np.arange style)
        types = ["Float64"] * 3
        if rng_state.get("int_x") and all(float(x).is_integer() for x in ords[0]):
            types[0] = "Int64"
        V.write_vtr(path, shifted(whole, rng_state), ords, pf, cf, cfg, coord_type=types)
    elif rep == "vts":
        path = os.path.join(d, "g.vts")
        V.write_vts(path, shifted(whole, rng_state), [[x / Q for x in p] for p in P], pf, cf, cfg)
    elif rep in ("vtu-pixel", "vtu-quad"):
        path = os.path.join(d, f"g_{rep}.vtu")
        cells = truth_cells(c)
        nc_ = len(cells[0])
        t = {2: 3, 4: 8, 8: 11}[nc_] if rep == "vtu-pixel" else {2: 3, 4: 9, 8: 12}[nc_]
        pperm = rng_state["pperm"] if rep == "vtu-quad" else list(range(len(P)))      # new position of point i
        cperm = rng_state["cperm"] if rep == "vtu-quad" else list(range(len(cells)))  # file order of cells
        inv = [0] * len(P)
        for old, new in enumerate(pperm):
            inv[new] = old
        pts = [[x / Q for x in P[inv[new]]] for new in range(len(P))]
        rows = []
        for ci in cperm:
            cs = cells[ci]
            if rep == "vtu-quad":
                cs = [cs[k] for k in PIX2VTK[nc_]]
            rows.append((t, [pperm[p] for p in cs]))
        pfx = [fvals(f, inv) for f in c["pf"]]
        cfx = [fvals(f, cperm) for f in c["cf"]] if c["cf"] else None
        V.write_vtu(path, pts, rows, pfx, cfx, cfg)
    elif rep in ("mio-vtk", "mio-xdmf"):
        import meshio
        cells = truth_cells(c)
        nc_ = len(cells[0])
        mt = {2: "line", 4: "quad", 8: "hexahedron"}[nc_]
        rows = np.array([[cs[k] for k in PIX2VTK[nc_]] for cs in cells], dtype=np.int64)
        m = meshio.Mesh(np.array([[x / Q for x in p] for p in P]), [(mt, rows)],
                        point_data=dict(np_field(f) for f in c["pf"]),
                        cell_data={n: [a] for n, a in (np_field(f) for f in c["cf"])})
        path = os.path.join(d, "g.vtk" if rep == "mio-vtk" else "g.xdmf")
        with warnings.catch_warnings(), contextlib.redirect_stdout(io.StringIO()), contextlib.redirect_stderr(io.StringIO()):
            warnings.simplefilter("ignore")
            if rep == "mio-vtk":
                meshio.write(path, m, file_format="vtk", binary=rng_state["mio_binary"])
            else:
                meshio.write(path, m, file_format="xdmf", data_format="XML")
    else:
        raise ValueError(rep)
    return path


def reps_of(c):
    r = ["vts", "vtu-pixel", "vtu-quad", "mio-vtk", "mio-xdmf"]
    if c["kind"] == "image":
        r.append("vti")
    if c["kind"] == "rect" or (c["kind"] == "image" and c["D"] is None):
        r.append("vtr")
    if any(f[1] == "UInt16" for f in c["pf"] + (c["cf"] or [])):
        r.remove("mio-xdmf")          # (meshio's xdmf writer has no 16-bit unsigned type)
    return r


# ================================================================================================
# reading + oracle
# ================================================================================================
def _ints(arr, scale):
    a = np.asarray(arr)
    if a.ndim == 1:
        a = a.reshape(len(a), 1)
    out = []
    for r in a.tolist():
        row = []
        for x in r:
            fr = Fraction(x) * scale
            if fr.denominator != 1:
                raise ValueError(f"value {x} is not a multiple of 1/{scale}")
            row.append(int(fr))
        out.append(tuple(row))
    return out


def extract(fields, c):
    fsc = {f[0]: (2 if f[1].startswith("Float") else 1) for f in c["pf"] + c["cf"]}
    dom = fields.domain
    pts = _ints(dom.points, Q)
    pf = {f.name: (np.asarray(f.values).dtype.name, _ints(f.values, fsc.get(f.name, 1))) for f in fields.point_fields}
    cells = [(ct.id, np.asarray(dom.connectivity(ct)).astype(np.int64).tolist()) for ct in dom.cell_types]
    cfd = {}
    for f, ct in fields.cell_fields_types:
        nm = f.name.rsplit(" @ ", 1)[0]
        cfd.setdefault(nm, {})[ct.id] = (np.asarray(f.values).dtype.name, _ints(f.values, fsc.get(nm, 1)))
    return {"points": pts, "pf": pf, "cells": cells, "cf": cfd}


TYPE_CLASS = {3: (2, "pix"), 8: (4, "pix"), 11: (8, "pix"), 9: (4, "vtk"), 12: (8, "vtk")}


def content(res, extra_types=()):
    pnames = sorted(res["pf"])
    P = {}
    dup = False
    for i, p in enumerate(res["points"]):
        if p in P:
            dup = True
        P[p] = tuple(res["pf"][n][1][i] if i < len(res["pf"][n][1]) else None for n in pnames)
    cnames = sorted(res["cf"])
    C = Counter()
    bad_order = 0
    for t, rows in res["cells"]:
        for k, row in enumerate(rows):
            cv = []
            for n in cnames:
                e = res["cf"][n].get(t)
                cv.append(e[1][k] if e is not None and k < len(e[1]) else None)
            coords = [res["points"][p] if 0 <= p < len(res["points"]) else ("corner index out of range", p) for p in row]
            if t in TYPE_CLASS and t not in extra_types:
                ncorn, order = TYPE_CLASS[t]
                if order == "vtk":          # back to pixel order (the map is an involution)
                    coords = [coords[j] for j in PIX2VTK[ncorn]] if len(coords) == ncorn else coords
                C[(len(coords), tuple(coords), tuple(cv))] += 1
            else:
                C[(("x", t), tuple(coords), tuple(cv))] += 1
    dt = {("p", n): res["pf"][n][0] for n in pnames}
    for n in cnames:
        ds = {e[0] for e in res["cf"][n].values()}
        dt[("c", n)] = ds.pop() if len(ds) == 1 else "mixed"
    return P, C, dt, dup


def diff_to_truth(truth, res, extra_types=(), check_dtype=True):
    if "error" in res:
        return {"error": res["error"]}
    P0, C0, d0 = truth
    P1, C1, d1, dup = content(res, extra_types)
    d = {}
    if dup:
        d["duplicate_points"] = True
    if set(P0) != set(P1):
        d["point_coordinates"] = {"missing": len(set(P0) - set(P1)), "extra": len(set(P1) - set(P0))}
    elif P0 != P1:
        d["point_values"] = sum(1 for p in P0 if P0[p] != P1[p])
    if C0 != C1:
        geo0 = Counter({(k[0], k[1]): v for k, v in C0.items()})
        geo1 = Counter({(k[0], k[1]): v for k, v in C1.items()})
        if geo0 != geo1:
            d["cells"] = {"missing": sum((geo0 - geo1).values()), "extra": sum((geo1 - geo0).values())}
        else:
            d["cell_values"] = sum((C0 - C1).values())
    if check_dtype and d0 != d1:
        d["dtypes"] = {f"{k[0]}:{k[1]}": [d0.get(k), d1.get(k)] for k in set(d0) | set(d1) if d0.get(k) != d1.get(k)}
    return d or None


def read_rep(path, c):
    from fieldcompare.io import read_field_data
    with warnings.catch_warnings(), contextlib.redirect_stdout(io.StringIO()), contextlib.redirect_stderr(io.StringIO()):
        warnings.simplefilter("ignore")
        try:
            f = read_field_data(path)
            return f, extract(f, c)
        except SystemExit:              # meshio's own reader gave up on the file meshio wrote (it calls sys.exit)
            return None, {"error": "meshio-exit"}
        except Exception as e:          # noqa: BLE001
            return None, {"error": f"{type(e).__name__}: {e}"}


def compare_pair(a, b):
    from fieldcompare.mesh import MeshFieldsComparator
    with warnings.catch_warnings():
        warnings.simplefilter("ignore")
        try:
            suite = MeshFieldsComparator(source=a, reference=b)(fieldcomp_callback=lambda *_: None)
            dom = bool(suite.domain_equality_check)
            pnames = {f.name for f in a.point_fields}
            bad = [cmp.name for cmp in suite if cmp.name in pnames and not cmp.status]
            return {"domain": dom, "failed_point_fields": bad}
        except Exception as e:          # noqa: BLE001
            return {"error": f"{type(e).__name__}: {e}"}


# ================================================================================================
# model ties on the mesh classes
# ================================================================================================
KIND_OF = {"image": "Image", "rect": "Rectilinear", "curv": "Curvilinear"}


def mesh_object(c):
    from fieldcompare.mesh import ImageMesh, RectilinearMesh, StructuredMesh
    e = tuple(c["ext"])
    if c["kind"] == "image":
        basis = np.array(c["D"], dtype=float) if c["D"] else None
        return ImageMesh(e, tuple(x / Q for x in c["origin"]), tuple(x / Q for x in c["spacing"]), basis)
    if c["kind"] == "rect":
        return RectilinearMesh(e, tuple(np.array([x / Q for x in o]) for o in c["ords"]))
    return StructuredMesh(e, np.array([[x / Q for x in p] for p in truth_points(c)]))


def qv(xs):
    return clist([cqfrac(Fraction(x, Q)) for x in xs], "Q")


def model_exprs(c):
    e = clist([cnat(x) for x in c["ext"]], "nat")
    g = f"grid {KIND_OF[c['kind']]} {e}"
    if c["kind"] == "image":
        D = c["D"] or [[1, 0, 0], [0, 1, 0], [0, 0, 1]]
        Dq = clist([clist([cqfrac(Fraction(x)) for x in row], "Q") for row in D], "(list Q)")
        p = f"qout (image_points {qv(c['origin'])} {qv(c['spacing'])} {Dq} {e})"
    elif c["kind"] == "rect":
        p = f"qout (rect_points {clist([qv(o) for o in c['ords']], '(list Q)')})"
    else:
        p = None
    return g, p


# ================================================================================================
# hybrid stream: repeated cell blocks
# ================================================================================================
def gen_hybrid(rng):
    c = gen_grid(rng)
    while any(f[1] == "UInt16" for f in c["pf"] + (c["cf"] or [])):      # (the hybrid stream writes every case through meshio's xdmf)
        c = gen_grid(rng)
    c["D"] = c["D"] if c["kind"] == "image" else None
    cells = truth_cells(c)
    ncorn = len(cells[0])
    main_t = {2: 3, 4: 9, 8: 12}[ncorn]
    low_t = {2: 1, 4: 3, 8: 9}[ncorn]
    # lower-dimensional cells on the first face of some cells (corners in the order the lower type prescribes)
    low = []
    nlow = {1: 1, 3: 2, 9: 4}[low_t]
    for cs in cells:
        if rng.random() < 0.6:
            low.append([cs[k] for k in PIX2VTK[ncorn]][:nlow])
    if not low:
        low.append([cells[0][k] for k in PIX2VTK[ncorn]][:nlow])
    low = [list(x) for x in {tuple(x) for x in low}]
    low.sort()
    # split into blocks
    order = list(range(len(cells)))
    rng.shuffle(order)
    nb = rng.randint(1, min(3, len(cells)))
    if len(cells) >= 2 and rng.random() < 0.6:
        nb = rng.randint(2, min(3, len(cells)))
    cuts = sorted(rng.sample(range(1, len(cells)), nb - 1)) if nb > 1 else []
    main_blocks = [order[a:b] for a, b in zip([0] + cuts, cuts + [len(cells)])]
    nl = rng.randint(1, min(2, len(low)))
    lcuts = sorted(rng.sample(range(1, len(low)), nl - 1)) if nl > 1 else []
    low_blocks = [list(range(a, b)) for a, b in zip([0] + lcuts, lcuts + [len(low)])]
    blocks = [["main", b] for b in main_blocks] + [["low", b] for b in low_blocks]
    rng.shuffle(blocks)
    if rng.random() < 0.6:
        # interleave the two kinds so that a type comes back after the other one (survives the merging of consecutive blocks)
        a = [b for b in blocks if b[0] == "main"]
        l = [b for b in blocks if b[0] == "low"]
        first, second = (a, l) if len(a) >= len(l) else (l, a)
        blocks = []
        while first or second:
            if first:
                blocks.append(first.pop(0))
            if second:
                blocks.append(second.pop(0))
    c["hy"] = {"main_t": main_t, "low_t": low_t, "low": low, "blocks": blocks,
               "lowvals": {f[0]: [rng.randint(-60, 60) for _ in range(len(low) * f[2])] for f in c["cf"]}}
    return c


def hybrid_blocks(c):
    """-> list of (vtk type id, corner rows (VTK order), {name: value rows}) in block order"""
    cells = truth_cells(c)
    ncorn = len(cells[0])
    hy = c["hy"]
    out = []
    for kind, ids in hy["blocks"]:
        if kind == "main":
            rows = [[cells[i][k] for k in PIX2VTK[ncorn]] for i in ids]
            data = {f[0]: [list(vals(f, i)) for i in ids] for f in c["cf"]}
            out.append((hy["main_t"], rows, data))
        else:
            rows = [hy["low"][i] for i in ids]
            data = {f[0]: [hy["lowvals"][f[0]][i * f[2]:(i + 1) * f[2]] for i in ids] for f in c["cf"]}
            out.append((hy["low_t"], rows, data))
    return out


def hybrid_truth(c):
    P = truth_points(c)
    pnames = sorted(f[0] for f in c["pf"])
    pmap = {f[0]: f for f in c["pf"]}
    pt = {tuple(p): tuple(vals(pmap[n], i) for n in pnames) for i, p in enumerate(P)}
    cnames = sorted(f[0] for f in c["cf"])
    C = Counter()
    for t, rows, data in hybrid_blocks(c):
        for k, row in enumerate(rows):
            C[(("x", t), tuple(tuple(P[p]) for p in row), tuple(tuple(data[n][k]) for n in cnames))] += 1
    dt = {("p", f[0]): np.dtype(NP_DT[f[1]]).name for f in c["pf"]}
    dt.update({("c", f[0]): np.dtype(NP_DT[f[1]]).name for f in c["cf"]})
    return pt, C, dt


def hybrid_meshio(c):
    import meshio
    P = truth_points(c)
    blocks = hybrid_blocks(c)
    cd = {}
    for f in c["cf"]:
        per = []
        for t, rows, data in blocks:
            a = np.array(data[f[0]], dtype=object)
            a = np.array([[Fraction(x, 2) if f[1].startswith("Float") else x for x in r] for r in data[f[0]]], dtype=object).astype(NP_DT[f[1]])
            per.append(a[:, 0].copy() if f[2] == 1 else a)
        cd[f[0]] = per
    return meshio.Mesh(np.array([[x / Q for x in p] for p in P]),
                       [(MESHIO_TYPE[t], np.array(rows, dtype=np.int64)) for t, rows, _ in blocks],
                       point_data=dict(np_field(f) for f in c["pf"]), cell_data=cd)


def write_hybrid(rep, c, d, cfgd):
    if rep == "vtu":
        P = truth_points(c)
        blocks = hybrid_blocks(c)
        cells = [(t, r) for t, rows, _ in blocks for r in rows]
        cf = []
        for f in c["cf"]:
            flat = [x for _, rows, data in blocks for r in data[f[0]] for x in r]
            cf.append((f[0], f[1], f[2], [x / 2 for x in flat] if f[1].startswith("Float") else flat))
        path = os.path.join(d, "h.vtu")
        V.write_vtu(path, [[x / Q for x in p] for p in P], cells, [fvals(f) for f in c["pf"]], cf or None, V.Cfg(**cfgd))
        return path
    import meshio
    m = hybrid_meshio(c)
    path = os.path.join(d, "h.vtk" if rep == "mio-vtk" else "h.xdmf")
    with warnings.catch_warnings():
        warnings.simplefilter("ignore")
        if rep == "mio-vtk":
            meshio.write(path, m, file_format="vtk", binary=True)
        else:
            meshio.write(path, m, file_format="xdmf", data_format="XML")
    return path


def repeated_types(c):
    ts = [c["hy"]["main_t"] if k == "main" else c["hy"]["low_t"] for k, _ in c["hy"]["blocks"]]
    # consecutive blocks of one type are merged by the file formats; a type is 'repeated' when it comes back after another one
    runs = [t for i, t in enumerate(ts) if i == 0 or ts[i - 1] != t]
    return len(runs) != len(set(runs)), len(ts) != len(set(ts))


def fm_model_expr(c, name):
    blocks = hybrid_blocks(c)
    b = clist([f"({cnat(t)}, {clist([clist([cnat(x) for x in r], 'nat') for r in rows], '(list nat)')})" for t, rows, _ in blocks],
              "(nat * list (list nat))")
    # data rows abstracted to their first component shifted to be non-negative ids
    dat = clist([clist([cnat(r[0] + 1000) for r in data[name]], "nat") for _, _, data in blocks], "(list nat)")
    f = "from_meshio_fixed" if REPAIRED["F-C07b"] else "from_meshio_pinned"
    return f"fm_out ({f} {b} {dat})"


# ================================================================================================
def run_grid(ctx, c, idx, choices):
    d = os.path.join(str(ctx.workdir), f"g{idx}")
    os.makedirs(d, exist_ok=True)
    truth = ground_truth(c)
    objs = {}
    meshed = len(c["dirs"])
    for rep in reps_of(c):
        path = write_rep(rep, c, d, choices)
        f, res = read_rep(path, c)
        case = {"stream": "grid", "grid": c, "rep": rep, "choices": choices}
        if res.get("error") == "meshio-exit":
            ctx.count("grid:meshio-could-not-read-its-own-file:" + rep)
            continue
        ctx.count("rep:" + rep)
        df = diff_to_truth(truth, res)
        if df is not None:
            if rep == "vts" and "error" in df and df["error"].startswith("KeyError") and "CellType" in df["error"] and c["cf"] and meshed != 2:
                what = WHAT["F-C07a"]
            elif "error" in df:
                what = f"{rep}: reading raised {df['error'][:80]}"
            else:
                what = f"{rep}: data read differs from the ground-truth grid: " + ", ".join(sorted(df))
            ctx.violation("E4", what, case, difference=df)
        else:
            objs[rep] = f
        ctx.traces_validated += 1
    names = sorted(objs)
    for a, b in itertools.combinations(names, 2):
        if choices["swap"]:
            a, b = b, a
        r = compare_pair(objs[a], objs[b])
        ctx.count("pairs")
        if r.get("error") or not r["domain"] or r["failed_point_fields"]:
            ctx.violation("E4", f"MeshFieldsComparator({a}, {b}) of the same grid does not pass: "
                          + (r.get("error", "")[:60] or ("domain" if not r["domain"] else "point fields " + ",".join(r["failed_point_fields"]))),
                          {"stream": "grid", "grid": c, "pair": [a, b], "choices": choices}, result=r)
    # the data sets read from the files still are the grid after they have been compared with one another (a comparison that
    # rearranges what it was given would leave cells that no longer connect the points in a valid order)
    for rep in names:
        with warnings.catch_warnings():
            warnings.simplefilter("ignore")
            try:
                df = diff_to_truth(truth, extract(objs[rep], c))
            except Exception as e:  # noqa: BLE001
                df = {"error": f"{type(e).__name__}: {e}"}
        ctx.tie("T2 data read from a file = ground truth, again after the comparisons")
        if df is not None:
            ctx.violation("E4", f"{rep}: after comparing it with the other representations the data set no longer is the ground-truth "
                                "grid: " + ", ".join(sorted(df)), {"stream": "grid", "grid": c, "rep": rep, "choices": choices}, difference=df)
    shutil.rmtree(d, ignore_errors=True)


def run_hybrid(ctx, c, idx, cfgd):
    from fieldcompare.mesh import meshio_utils
    d = os.path.join(str(ctx.workdir), f"h{idx}")
    os.makedirs(d, exist_ok=True)
    truth = hybrid_truth(c)
    extra = (c["hy"]["main_t"], c["hy"]["low_t"])
    rep_after_merge, rep_any = repeated_types(c)
    ctx.count("hybrid:repeated-type-in-file:" + ("yes" if rep_after_merge else "no"))
    ctx.count("hybrid:blocks=" + str(len(c["hy"]["blocks"])))
    objs = {}
    for rep in ("vtu", "mio-vtk", "mio-xdmf", "direct"):
        case = {"stream": "hybrid", "grid": c, "rep": rep, "cfg": cfgd}
        if rep == "direct":
            with warnings.catch_warnings():
                warnings.simplefilter("ignore")
                try:
                    f = meshio_utils.from_meshio(hybrid_meshio(c))
                    res = extract(f, c)
                except Exception as e:          # noqa: BLE001
                    f, res = None, {"error": f"{type(e).__name__}: {e}"}
        else:
            if rep == "mio-xdmf" and c["hy"]["main_t"] == 3:
                ctx.count("hybrid:xdmf-skipped (meshio cannot read back mixed line/vertex topologies)")
                continue
            f, res = read_rep(write_hybrid(rep, c, d, cfgd), c)
        if res.get("error") == "meshio-exit":
            ctx.count("hybrid:meshio-could-not-read-its-own-file:" + rep)
            continue
        ctx.count("hybrid-rep:" + rep)
        df = diff_to_truth(truth, res, extra_types=extra)
        if df is not None:
            repeated = rep_any if rep == "direct" else rep_after_merge
            lost = "error" in df or "cells" in df or "cell_values" in df
            if rep != "vtu" and repeated and lost and not set(df) - {"cells", "cell_values", "error"}:
                what = WHAT["F-C07b-direct" if rep == "direct" else "F-C07b-file"]
            elif "error" in df:
                what = f"hybrid {rep}: reading raised {df['error'][:80]}"
            else:
                what = f"hybrid {rep}: data read differs from the ground truth: " + ", ".join(sorted(df))
            ctx.violation("E4", what, case, difference=df, blocks=[[t, len(r)] for t, r, _ in hybrid_blocks(c)])
        else:
            objs[rep] = f
        ctx.traces_validated += 1
    for a, b in itertools.combinations(sorted(objs), 2):
        r = compare_pair(objs[a], objs[b])
        ctx.count("pairs")
        if r.get("error") or not r["domain"] or r["failed_point_fields"]:
            ctx.violation("E4", f"hybrid: MeshFieldsComparator({a}, {b}) of the same data set does not pass",
                          {"stream": "hybrid", "grid": c, "pair": [a, b], "cfg": cfgd}, result=r)
    shutil.rmtree(d, ignore_errors=True)


def direct_from_meshio(c):
    """(cells per type, data ids per type) as delivered by from_meshio, or 'error'"""
    from fieldcompare.mesh import meshio_utils
    name = c["cf"][0][0]
    m = hybrid_meshio(c)
    # the abstract data ids of the model: first component + 1000 (exact for ints; floats are halves -> use the raw ints)
    blocks = hybrid_blocks(c)
    m.cell_data = {name: [np.array([r[0] + 1000 for r in data[name]], dtype=np.int64) for _, _, data in blocks]}
    try:
        with warnings.catch_warnings():
            warnings.simplefilter("ignore")
            f = meshio_utils.from_meshio(m)
            out = []
            byct = {}
            for fl, ct in f.cell_fields_types:
                byct[ct.id] = [int(x) for x in np.asarray(fl.values).tolist()]
            for ct in f.domain.cell_types:
                out.append([ct.id, np.asarray(f.domain.connectivity(ct)).tolist(), byct.get(ct.id)])
            return out
    except ValueError as e:
        return "error: " + str(e)[:60]


def corpus_stream(ctx):
    """minimised past failures (corpus/C07/*.json), always first"""
    import glob
    import json
    for k, fn in enumerate(sorted(glob.glob(str(lib.VERIF / "corpus" / "C07" / "*.json")))):
        case = json.load(open(fn)).get("case") or {}
        if "grid" not in case:
            continue
        if case.get("stream") == "hybrid":
            run_hybrid(ctx, case["grid"], f"c{k}", case.get("cfg") or dict(fmt="ascii"))
        else:
            run_grid(ctx, case["grid"], f"c{k}", case["choices"])
        ctx.case({"corpus": os.path.basename(fn)}, True)
        ctx.count("corpus cases")


def bridge_verdict(M):
    """None if the mesh dict M survives to_meshio / from_meshio with its content, else what went wrong"""
    import warnings as _w
    from fieldcompare.mesh import meshio_utils
    from . import meshgen as MG
    types = [t for t, _ in M["blocks"]]
    try:
        with _w.catch_warnings():
            _w.simplefilter("ignore")
            f = MG.to_fieldcompare(M)
            back = MG.from_fieldcompare(meshio_utils.from_meshio(meshio_utils.to_meshio(f)))
    except Exception as e:  # noqa: BLE001
        return f"to_meshio / from_meshio raised {type(e).__name__}: {e} (cell types {types})"
    if MG.content(M) != MG.content(back):
        return f"a mesh taken to meshio and back lost or changed cells / values (cell types {types} -> {[t for t, _ in back['blocks']]})"
    return None


def to_from_meshio_stream(ctx, n):
    """explicit meshes of the C02 family (several cell types at once, also both members of a compatible pair such as QUAD and
    PIXEL) with point and cell fields, taken to meshio and back through the bridge: no cell and no value may be lost or moved"""
    import glob
    import json as _json
    from . import meshgen as MG
    from .meshfam import restore_mesh
    rng = ctx.rng
    todo = []
    for fn in sorted(glob.glob(str(lib.VERIF / "corpus" / "C07" / "*.json"))):
        case = _json.load(open(fn)).get("case") or {}
        if "bridge" in case:
            todo.append(restore_mesh(case["bridge"]))
    while len(todo) < n:
        M = MG.add_fields(rng, MG.gen_mesh(rng, max_cells=5), kinds=("scalar", "vector", "int"))
        if any(t == "POLYGON" for t, _ in M["blocks"]) or MG.has_coincident_points(M):
            continue      # (polygons: meshio needs one block per corner count; exercised by the hybrid stream)
        todo.append(M)
    exprs, impl_cells, owners = [], [], []
    for M in todo:
        canon = {"bridge": _json.loads(_json.dumps({k: v for k, v in M.items() if not k.startswith("_")}, default=str))}
        types = [t for t, _ in M["blocks"]]
        bad = bridge_verdict(M)
        if not bad and len(exprs) < (150 if ctx.tier == "quick" else 3000):
            try:
                import warnings as _w
                from meshio._vtk_common import meshio_to_vtk_type
                from fieldcompare.mesh import meshio_utils
                with _w.catch_warnings():
                    _w.simplefilter("ignore")
                    mm = meshio_utils.to_meshio(MG.to_fieldcompare(M))
                impl_cells.append([[int(meshio_to_vtk_type[c.type]), [[int(x) for x in row] for row in c.data]] for c in mm.cells])
                blocks = clist([f"({cnat(MG.VTK_ID[t])}, {clist([clist([cnat(c) for c in r], 'nat') for r in rows], '(list nat)')})"
                                for t, rows in M["blocks"]], "(nat * list (list nat))")
                exprs.append(f"to_meshio_fixed {blocks}")
                owners.append(canon)
            except Exception as e:  # noqa: BLE001
                ctx.notes.append(f"to_meshio model tie skipped for one mesh: {type(e).__name__}: {e}")
        ctx.case(canon, len(types) >= 2, sample={"cell types": types, "points": len(M["pts"])})
        ctx.count("bridge:types:" + "+".join(sorted(types)))
        ctx.tie("T2 to_meshio / from_meshio round trip conserves the content")
        if bad:
            ctx.violation("E4", bad, canon)
        ctx.traces_validated += 1
    hdr = HEADER.replace("From FC Require Import Model.Structured.", "From FC Require Import Model.Structured Proofs.BridgeP.", 1)
    for canon, im, mo in zip(owners, impl_cells, ctx.coq_eval(hdr, exprs, name="c07bridge", shard=60) if exprs else []):
        ctx.tie("T2 to_meshio cell blocks vs Proofs.BridgeP.to_meshio_fixed")
        mo_ = [[t, [list(r) for r in rows]] for t, rows in mo]
        if mo_ != im:
            ctx.violation("E2", "to_meshio: model blocks != implementation blocks", canon, found_input=False, impl=im, model=mo_)


def run(ctx):
    try:
        return _run(ctx)
    except BaseException:
        shutil.rmtree(ctx.workdir, ignore_errors=True)      # never leave scratch files behind, even when the harness itself fails
        raise


def _run(ctx):
    ctx.prove()
    rng = ctx.rng
    quick = ctx.tier == "quick"
    corpus_stream(ctx)
    to_from_meshio_stream(ctx, 150 if quick else 4000)
    n_grid = 560 if quick else 9000
    n_hyb = 320 if quick else 3000
    subsets = [s for r in (1, 2, 3) for s in itertools.combinations(range(3), r)]
    grids = []
    for i in range(n_grid):
        c = gen_grid(rng, force_dirs=subsets[i % 7] if i < 70 else None)
        npts = (c["ext"][0] + 1) * (c["ext"][1] + 1) * (c["ext"][2] + 1)
        ncell = max(c["ext"][0], 1) * max(c["ext"][1], 1) * max(c["ext"][2], 1)
        pperm = list(range(npts))
        cperm = list(range(ncell))
        if rng.random() < 0.6:
            rng.shuffle(pperm)
            rng.shuffle(cperm)
        choices = {"cfg": cfg_of(rng), "pperm": pperm, "cperm": cperm, "mio_binary": rng.random() < 0.7, "swap": rng.random() < 0.5, "int_x": rng.random() < 0.5,
                   "index_offsets": [rng.randint(0, 3) for _ in range(3)] if rng.random() < 0.4 else None}
        grids.append((c, choices))
    # ---- model ties on the mesh classes
    gexprs, pexprs, pidx = [], [], []
    for i, (c, _) in enumerate(grids):
        g, p = model_exprs(c)
        gexprs.append(g)
        if p is not None:
            pexprs.append(p)
            pidx.append(i)
    gvals = ctx.coq_eval(HEADER, gexprs, name="c07grid", shard=100)
    pvals = dict(zip(pidx, ctx.coq_eval(HEADER, pexprs, name="c07pts", shard=60)))
    for i, ((c, choices), gv) in enumerate(zip(grids, gvals)):
        from fieldcompare.mesh import CellType
        case = {"stream": "grid", "grid": c, "choices": choices}
        meshed = len(c["dirs"])
        ctx.case({"grid": c}, True, sample={"ext": c["ext"], "kind": c["kind"], "D": c["D"], "reps": reps_of(c)})
        ctx.count("kind:" + c["kind"] + (":direction" if c["D"] else ""))
        ctx.count("meshed-directions:" + "".join("xyz"[a] for a in c["dirs"]))
        ctx.count("cell-data:" + ("yes" if c["cf"] else "no"))
        mesh = mesh_object(c)
        mct, mconn, mnc, mnp = gv
        ict = [ct.id for ct in mesh.cell_types]
        iconn = np.asarray(mesh.connectivity(CellType(mct))).tolist() if ict == [mct] else None
        if ict != [mct] or iconn != [list(r) for r in mconn] or len(mesh.points) != mnp or len(mconn) != mnc:
            ctx.violation("E2", "structured mesh: model connectivity / cell type / counts != implementation", case, found_input=False,
                          impl={"cell_types": ict, "connectivity": iconn, "n_points": len(mesh.points)},
                          model={"cell_type": mct, "connectivity": [list(r) for r in mconn], "n_points": mnp, "n_cells": mnc})
        other = 8 if mct != 8 else 9
        if len(np.asarray(mesh.connectivity(CellType(other)))) != 0:
            ctx.violation("E2", "structured mesh: connectivity of a foreign cell type is not empty", case, found_input=False)
        ctx.tie("T2 mesh.connectivity / cell type / counts vs Model.Structured.connectivity")
        if i in pvals:
            ip = [[Fraction(x) for x in p] for p in np.asarray(mesh.points).tolist()]
            mp = [[Fraction(x[0], x[1]) for x in p] for p in pvals[i]]
            if ip != mp:
                ctx.violation("E2", "structured mesh: model points != implementation points", case, found_input=False,
                              impl=[[str(x) for x in p] for p in ip][:8], model=[[str(x) for x in p] for p in mp][:8])
            ctx.tie("T2 mesh.points vs Model.Structured.image_points / rect_points")
        # statement-level check of the mesh object itself
        tp = truth_points(c)
        if [[Fraction(x) * Q for x in p] for p in np.asarray(mesh.points).tolist()] != [[Fraction(x) for x in p] for p in tp]:
            ctx.violation("E4", f"{type(mesh).__name__}.points are not the lattice points (x fastest)", case)
        run_grid(ctx, c, i, choices)
    # ---- hybrid stream
    hy = [gen_hybrid(rng) for _ in range(n_hyb)]
    for i, c in enumerate(hy):
        ctx.case({"hybrid": c}, True)
        run_hybrid(ctx, c, i, cfg_of(rng))
    with_cf = [c for c in hy if c["cf"]]
    fvals_ = ctx.coq_eval(HEADER, [fm_model_expr(c, c["cf"][0][0]) for c in with_cf], name="c07fm", shard=100)
    for c, v in zip(with_cf, fvals_):
        im = direct_from_meshio(c)
        mo = "error" if v == "None" else [[t, [list(r) for r in cd[0]], list(cd[1])] for t, cd in v[1]]
        im_n = "error" if isinstance(im, str) else im
        if mo != im_n:
            ctx.violation("E2", "from_meshio: model != implementation", {"stream": "hybrid", "grid": c, "rep": "direct"}, found_input=False,
                          impl=im, model=mo)
        ctx.tie("T2 from_meshio vs Model.Structured.from_meshio_" + ("fixed" if REPAIRED["F-C07b"] else "pinned"))
    ctx.extra["model_variant"] = {k: ("repaired" if v else "pinned") for k, v in REPAIRED.items()}
    ctx.notes = sorted(set(ctx.notes))
    import json
    ctx.violations.sort(key=lambda v: len(json.dumps(v.get("case"), default=str)))      # the smallest failing case of each kind is the replay
    ctx.rule = ("grids with extents 0-3 per axis in every non-empty subset of meshed directions (each subset forced 10 times), image grids "
                "with dyadic origin/spacing and identity or signed axis-permuting direction matrices, rectilinear grids with monotone "
                "ordinates, curvilinear point sets; 1-2 point fields and 0-2 cell fields (float64/float32/int32/int64, 1 or 3 components); "
                "representations .vti/.vtr/.vts/.vtu (pixel-voxel; quad-hexahedron with shuffled numbering)/legacy .vtk/.xdmf in four "
                "encodings; all pairs through MeshFieldsComparator; hybrid data sets with 2-5 cell blocks in random order with repeated types")
    return ctx.finish(
        assumptions=["coordinates and values are dyadic: every float operation of the readers and of ImageMesh.points is exact",
                     "meshio writes legacy .vtk / .xdmf inputs faithfully (oracle side; checked by reading the blocks back in the probe)",
                     "the 0-dimensional grid (all extents zero) is outside the quantifier"],
        trusted=["harness/c07.py (generators, ground truth), harness/vtkenc.py, meshio as a writer of .vtk/.xdmf inputs"])


def replay(pid, rec):
    import tempfile
    c = rec["case"]
    if c and "bridge" in c:
        from .meshfam import restore_mesh
        bad = bridge_verdict(restore_mesh(c["bridge"]))
        print("to_meshio / from_meshio:", bad or "content conserved")
        return bad is None
    if not c or "grid" not in c:
        print("no case in this replay:", rec["what"])
        return False
    g = c["grid"]
    d = tempfile.mkdtemp(dir=str(lib.WORK))
    try:
        if c["stream"] == "hybrid":
            from fieldcompare.mesh import meshio_utils
            truth = hybrid_truth(g)
            extra = (g["hy"]["main_t"], g["hy"]["low_t"])
            reps = [c["rep"]] if "rep" in c else c["pair"]
            ok = True
            objs = {}
            for rep in reps:
                if rep == "direct":
                    try:
                        f = meshio_utils.from_meshio(hybrid_meshio(g))
                        res = extract(f, g)
                    except Exception as e:          # noqa: BLE001
                        f, res = None, {"error": f"{type(e).__name__}: {e}"}
                else:
                    f, res = read_rep(write_hybrid(rep, g, d, c["cfg"]), g)
                df = diff_to_truth(truth, res, extra_types=extra)
                print(rep, "blocks", [[t, len(r)] for t, r, _ in hybrid_blocks(g)], "difference to the ground truth:", df)
                ok = ok and df is None
                objs[rep] = f
            if "pair" in c and ok:
                r = compare_pair(objs[reps[0]], objs[reps[1]])
                print("comparator:", r)
                ok = not r.get("error") and r["domain"] and not r["failed_point_fields"]
            return ok
        truth = ground_truth(g)
        reps = [c["rep"]] if "rep" in c else c["pair"]
        ok = True
        objs = {}
        for rep in reps:
            f, res = read_rep(write_rep(rep, g, d, c["choices"]), g)
            df = diff_to_truth(truth, res)
            print(rep, "extents", g["ext"], "kind", g["kind"], "difference to the ground truth:", df)
            ok = ok and df is None
            objs[rep] = f
        if "pair" in c and ok:
            r = compare_pair(objs[reps[0]], objs[reps[1]])
            print("comparator:", r)
            ok = not r.get("error") and r["domain"] and not r["failed_point_fields"]
        return ok
    finally:
        shutil.rmtree(d, ignore_errors=True)
