"""C20 — the JUnit report agrees with the verdict.

Every C04 (file mode), C15 (sequences) and C12 (directory mode) scenario is run with --junit-xml; the report is parsed
with an independent XML parser and compared with the statement (counts match the test cases, one case per reported
field comparison / one suite per file, a failure or error iff the exit code is non-zero, skipped = ignored/filtered)
and with Model.Cli.junit_of.
"""
from __future__ import annotations

import os
import shutil
import warnings

from . import lib, c04, c12, c15
from .clicommon import run_cli, parse_junit


def check_wellformed(ctx, where, sc, suites, exit_code):
    """statement-level checks that need no model"""
    bad = []
    any_fail = False
    for s in suites:
        tags = [c[1] for c in s["cases"]]
        if s["tests"] != len(s["cases"]):
            bad.append(f"tests={s['tests']} but {len(s['cases'])} test cases")
        nf = sum(1 for t in tags if "failure" in t and "error" not in t)
        ne = sum(1 for t in tags if "error" in t)
        nsk = sum(1 for t in tags if "skipped" in t)
        if (s["failures"], s["errors"], s["skipped"]) != (nf, ne, nsk):
            bad.append(f"counts failures/errors/skipped = {s['failures']}/{s['errors']}/{s['skipped']} but test cases give {nf}/{ne}/{nsk}")
        any_fail = any_fail or nf + ne > 0
    if bad:
        ctx.violation("E4", f"{where}: report counts do not match its test cases: {bad[0]}", sc, junit=suites)
    if (exit_code != 0) != any_fail:
        ctx.violation("E4", f"{where}: exit code {exit_code} but the report contains "
                      f"{'a' if any_fail else 'no'} failure/error element", sc, junit=suites, exit=exit_code)
        return False
    return not bad


def file_stream(ctx, n):
    scs = c04.gen_scenarios(ctx.rng, n)
    impls = [c04.run_impl(sc, str(ctx.workdir), i, want_junit=True) for i, sc in enumerate(scs)]
    pairs = [c04.model_expr(sc, im) for sc, im in zip(scs, impls)]
    vals = ctx.coq_eval(c04.HEADER, [p[0] for p in pairs], name="c20file", shard=250)
    for sc, im, val, (_, names) in zip(scs, impls, vals, pairs):
        mo = c04.decode_model(val, names)
        c = c04.canon(sc)
        nontrivial = bool(sc["edits"])
        ctx.case(c, nontrivial, sample={"scenario": c, "exit": im["exit"], "junit": im.get("junit"), "model": mo})
        ctx.count("stream:file")
        ctx.count(f"file:exit:{im['exit']}")
        if im["escaped"]:
            continue   # C04's business
        if "junit_error" in im:
            ctx.violation("E4", f"file mode: report is not well-formed XML: {im['junit_error']}", c)
            continue
        if im.get("junit") is None:
            ctx.count("file:no-report-written")     # exception before the report is written: the statement is about the file written
            continue
        s = im["junit"]
        ok = check_wellformed(ctx, "file mode", c, s, im["exit"])
        # skipped = exactly the ignored/filtered ones; one case per reported field comparison
        if sc["res_state"] == "ok" and sc["ref_state"] == "ok" and c04.dom_equal(sc) and len(s) == 1:
            rf = {f[0]: f for f in c04.side_fields(sc, "res")}
            sf = {f[0]: f for f in c04.side_fields(sc, "ref")}
            o = sc["opts"]
            want_skipped = sorted([n for n in rf if n in sf and not c04.selected(o, rf[n][1])]
                                  + [n for n in rf if n not in sf and o["ign_ref"]] + [n for n in sf if n not in rf and o["ign_src"]])
            got_skipped = sorted(cn for cn, tags, _ in s[0]["cases"] if "skipped" in tags)
            got_names = sorted(cn for cn, _, _ in s[0]["cases"])
            if got_names != sorted(set(rf) | set(sf)):
                ctx.violation("E4", "file mode: the report does not list one test case per reported field comparison", c, junit=s)
            elif got_skipped != want_skipped:
                ctx.violation("E4", f"file mode: skipped entries {got_skipped} are not exactly the ignored/filtered ones {want_skipped}", c, junit=s)
        if ok and mo["junit"] is not None:
            got = {"tests": s[0]["tests"], "failures": s[0]["failures"], "errors": s[0]["errors"], "skipped": s[0]["skipped"],
                   "cases": sorted((cn, tags) for cn, tags, _ in s[0]["cases"])}
            want = dict(mo["junit"], cases=[(a, b) for a, b in mo["junit"]["cases"]])
            if got != want:
                ctx.violation("E2", f"file mode: model report {want} != implementation report {got}", c, found_input=False)
        ctx.traces_validated += 1


def seq_stream(ctx, n):
    rng = ctx.rng
    for i in range(n):
        c = c15.gen(rng)
        d = os.path.join(str(ctx.workdir), f"sq{i}")
        os.makedirs(d)
        files = {}
        for side in ("res", "ref"):
            steps = []
            for k, v in enumerate(c[side]):
                p = os.path.join(d, f"{side}_{k}.vtu")
                c15.write_step(p, k, v)
                steps.append(os.path.basename(p))
            pvd = os.path.join(d, f"{side}.pvd")
            c15.V.write_pvd(pvd, steps)
            files[side] = pvd
        if c["kind"] == "seq_vs_single":
            files["ref"] = os.path.join(d, "ref_0.vtu")
        if c["kind"] == "single_vs_seq":
            files["res"] = os.path.join(d, "res_0.vtu")
        jp = os.path.join(d, "r.xml")
        argv = ["file", files["res"], files["ref"], "--verbosity", "0", "--junit-xml", jp]
        if c["ign"]:
            argv.append("--ignore-missing-sequence-steps")
        if c["force"]:
            argv.append("--force-sequence-comparison")
        with warnings.catch_warnings():
            warnings.simplefilter("ignore")
            rc, _, exc = run_cli(argv)
        ctx.case({"seq": c}, c["dev"] is not None or len(c["res"]) != len(c["ref"]), sample={"seq": c, "exit": rc})
        ctx.count("stream:sequence")
        if exc is None and os.path.exists(jp):
            try:
                s = parse_junit(jp)
                check_wellformed(ctx, "sequence", {"seq": c}, s, rc)
            except Exception as e:  # noqa: BLE001
                ctx.violation("E4", f"sequence: report is not well-formed XML: {e}", {"seq": c})
        elif exc is None:
            ctx.count("seq:no-report-written")
        shutil.rmtree(d)
        ctx.traces_validated += 1


def dir_stream(ctx, n):
    rng = ctx.rng
    for i in range(n):
        sc = c12.gen(rng)
        im = c12.run_impl(sc, str(ctx.workdir), 100000 + i)
        ctx.case({"dir": sc}, len(sc["files"]) >= 2, sample={"dir": sc, "exit": im["exit"]})
        ctx.count("stream:dir")
        if im["escaped"]:
            continue
        if im.get("junit") is None:
            ctx.violation("E4", "dir mode: report is not well-formed XML / missing: " + im.get("junit_error", "missing"), {"dir": sc})
            continue
        check_wellformed(ctx, "dir mode", {"dir": sc}, im["junit"], im["exit"])
        # grouped into one suite per file: the suites are named by the relative paths of exactly the files that are accounted for
        # (compared, missing on one side, unsupported or filtered on both sides), each once
        want = sorted(c12.oracle(sc, im)["classes"])
        got = sorted(str(s_["name"]) for s_ in im["junit"])
        if got != want:
            ctx.violation("E4", f"dir mode: the report's suites {got[:6]} are not one per accounted file {want[:6]}", {"dir": sc})
        else:
            # skipped entries are exactly the ignored / filtered ones: a file missing on one side is a skipped entry iff the
            # matching --ignore-missing-*-files flag was given, and a failure (without any skipped entry) otherwise; filtered and
            # unsupported files are skipped entries
            cls = c12.oracle(sc, im)["classes"]
            o = sc["opts"]
            for s_ in im["junit"]:
                kind = cls[str(s_["name"])]
                tags = [t for _, tg, _ in s_["cases"] for t in tg]
                n_skip = sum(1 for t in tags if "skipped" in t)
                n_fail = sum(1 for t in tags if "failure" in t or "error" in t)
                if kind in ("missing_src", "missing_ref"):
                    ignored = o["ign_src"] if kind == "missing_src" else o["ign_ref"]
                    ok = (n_skip >= 1 and n_fail == 0) if ignored else (n_skip == 0 and n_fail >= 1)
                elif kind in ("filtered", "unsupported"):
                    ok = n_skip >= 1 and n_fail == 0
                else:
                    ok = True
                if not ok:
                    ctx.violation("E4", f"dir mode: the suite of {s_['name']} ({kind}) holds {n_skip} skipped and {n_fail} failed entries: "
                                        "skipped entries must be exactly the ignored / filtered ones", {"dir": sc}, junit=[s_])
                    break
        ctx.traces_validated += 1


def empty_table_stream(ctx, n):
    """tables without rows (header line only) and with zero-sized columns, in file and directory mode: the report must still be
    well-formed XML whose counts match (messages about empty arrays are part of the test cases' output)"""
    rng = ctx.rng
    for i in range(n):
        k = rng.randint(2, 4)
        names = rng.sample(["x", "y", "p", "t", "vel", "rho"], k)
        rows_res = rng.choice([0, 0, 0, 2])
        rows_ref = rng.choice([0, 0, 2]) if rows_res == 0 else 0
        d = os.path.join(str(ctx.workdir), f"empty{i}")
        for side, nrows in (("res", rows_res), ("ref", rows_ref)):
            os.makedirs(os.path.join(d, side))
            with open(os.path.join(d, side, "t.csv"), "w") as f:
                f.write(",".join(names) + "\n")
                for r in range(nrows):
                    f.write(",".join(str(r + 0.5 + j) for j in range(k)) + "\n")
        for mode in ("file", "dir"):
            jp = os.path.join(d, f"report_{mode}.xml")
            args = ([mode, os.path.join(d, "res", "t.csv"), os.path.join(d, "ref", "t.csv")] if mode == "file"
                    else [mode, os.path.join(d, "res"), os.path.join(d, "ref")])
            args += ["--read-as", c04.DSV_OPT if mode == "file" else c12.READ_AS_CSV, "--verbosity", "0", "--junit-xml", jp]
            with warnings.catch_warnings():
                warnings.simplefilter("ignore")
                rc, log, exc = run_cli(args)
            sc = {"empty_tables": {"mode": mode, "names": names, "rows": [rows_res, rows_ref]}}
            ctx.case(sc, True, sample={"scenario": sc, "exit": rc, "escaped": exc})
            ctx.count(f"stream:empty tables:{mode}")
            if exc is None and os.path.exists(jp):
                try:
                    suites = parse_junit(jp)
                except Exception as e:  # noqa: BLE001
                    raw = open(jp, "rb").read()
                    ctl = sorted({b for b in raw if b < 32 and b not in (9, 10, 13)})
                    ctx.violation("E4", f"{mode} mode: report is not well-formed XML: {e} (control characters {ctl})", sc)
                    continue
                check_wellformed(ctx, f"{mode} mode (empty tables)", sc, suites, rc)
                if rows_res == rows_ref and rc != 0:
                    ctx.violation("E4", f"{mode} mode: identical header-only tables do not compare as passed (exit {rc})", sc)
            elif exc is None:
                ctx.count("empty:no-report-written")
            ctx.traces_validated += 1
        shutil.rmtree(d, ignore_errors=True)


def unicode_stream(ctx, n):
    """field names, file names and string values outside ASCII: the report is still well-formed for the parser (whatever
    encoding its declaration names, the bytes must match it) and carries the names unchanged"""
    rng = ctx.rng
    pool = ["\u0394p", "temp\u00e9rature", "\u03c1_w", "Str\u00f6mung", "\u5727\u529b", "x"]
    for i in range(n):
        names = rng.sample(pool, rng.randint(2, 4))
        differs = rng.random() < 0.5
        d = os.path.join(str(ctx.workdir), f"uni{i}")
        fname = rng.choice(["r\u00e9sultats.csv", "t.csv", "\u30c7\u30fc\u30bf.csv"])
        for side in ("res", "ref"):
            os.makedirs(os.path.join(d, side))
            with open(os.path.join(d, side, fname), "w", encoding="utf-8") as f:
                f.write(",".join(names) + "\n")
                for r in range(2):
                    f.write(",".join(str(r + 0.5 + j + (1.0 if differs and side == "ref" and j == 0 and r == 1 else 0.0))
                                     for j in range(len(names))) + "\n")
        for mode in ("file", "dir"):
            jp = os.path.join(d, f"report_{mode}.xml")
            args = ([mode, os.path.join(d, "res", fname), os.path.join(d, "ref", fname)] if mode == "file"
                    else [mode, os.path.join(d, "res"), os.path.join(d, "ref")])
            args += ["--read-as", c04.DSV_OPT if mode == "file" else c12.READ_AS_CSV, "--verbosity", "0", "--junit-xml", jp]
            with warnings.catch_warnings():
                warnings.simplefilter("ignore")
                rc, log, exc = run_cli(args)
            sc = {"unicode": {"mode": mode, "names": names, "file": fname, "differs": differs}}
            ctx.case(sc, True, sample={"scenario": sc, "exit": rc, "escaped": exc})
            ctx.count(f"stream:non-ascii names:{mode}")
            if exc is not None:
                ctx.violation("E4", f"{mode} mode: exception escaped with non-ASCII names: {exc}", sc)
            elif os.path.exists(jp):
                try:
                    suites = parse_junit(jp)
                except Exception as e:  # noqa: BLE001
                    ctx.violation("E4", f"{mode} mode: report is not well-formed XML when names are outside ASCII: {e}", sc)
                    continue
                check_wellformed(ctx, f"{mode} mode (non-ASCII names)", sc, suites, rc)
                reported = {c[0] for s_ in suites for c in s_["cases"]}
                if not set(names) <= reported:
                    ctx.violation("E4", f"{mode} mode: field names {sorted(set(names) - reported)} are not among the report's test cases "
                                        f"{sorted(reported)}", sc)
                if (rc != 0) != differs:
                    ctx.violation("E4", f"{mode} mode: exit status {rc} although the tables {'differ' if differs else 'are equal'}", sc)
            ctx.traces_validated += 1
        shutil.rmtree(d, ignore_errors=True)


def run(ctx):
    ctx.prove()
    q = ctx.tier == "quick"
    empty_table_stream(ctx, 12 if q else 300)
    unicode_stream(ctx, 12 if q else 300)
    file_stream(ctx, 900 if q else 25000)
    seq_stream(ctx, 150 if q else 4000)
    dir_stream(ctx, 150 if q else 4000)
    ctx.rule = ("every scenario class of C04 (file mode), C15 (sequences) and C12 (directory mode) run with --junit-xml; "
                "non-trivial = the scenario contains an edit / deviating step / >= 2 files")
    return ctx.finish(assumptions=["a report that is not written because an exception occurred earlier is recorded, not required (the "
                                   "statement is about the file written)"],
                      trusted=["harness/c20.py and the scenario generators of C04/C12/C15", "xml.etree as independent XML parser"])


def replay(pid, rec):
    c = rec["case"]
    if not c:
        print("no scenario in this replay:", rec["what"])
        return False
    import tempfile
    d = tempfile.mkdtemp(dir=str(lib.WORK))

    class Dummy:
        def __init__(self):
            self.bad = 0

        def violation(self, *a, **k):
            self.bad += 1
            print("  still:", a[1])

        def count(self, *a, **k):
            pass
    dm = Dummy()
    try:
        if "dir" in c:
            im = c12.run_impl(c["dir"], d, 0)
            if im.get("junit") is not None:
                check_wellformed(dm, "dir mode", c, im["junit"], im["exit"])
        elif "kind" in c:
            sc = c04.restore(c)
            im = c04.run_impl(sc, d, 0, want_junit=True)
            if im.get("junit") is not None:
                check_wellformed(dm, "file mode", c, im["junit"], im["exit"])
        else:
            print("sequence scenario: re-run ./check C20 quick with the same seed to reproduce")
            return False
    finally:
        shutil.rmtree(d, ignore_errors=True)
    return dm.bad == 0
