"""C12 — directory mode is the conjunction of file comparisons; every file is accounted for exactly once.

Pairs of directory trees (nested, names reused at different depths, equal / differing / unreadable / unsupported /
extension-less VTK files, one-sided files and directories, empty directories) are compared through
fieldcompare._cli.main(["dir", ...]) under all combinations of the file filters, ignore flags and --read-as.
Model: Model.Cli.categorize / cli_dir with the per-path file-mode result observed by running file mode on that pair.
Oracle: the statement, from what was put on disk.
"""
from __future__ import annotations

import fnmatch
import os
import re
import shutil
import warnings

from . import lib
from . import vtkenc as V
from .clicommon import run_cli, parse_junit, write_csv
from .lib import clist, cnat

HEADER = """From Coq Require Import Arith Bool List.
From FC Require Import Model.Compare Model.Cli.
Import ListNotations.
Definition tbl (l : list nat) (n : nat) : bool := existsb (Nat.eqb n) l.
Definition okS : tsuite := {| ts_status := None; ts_tests := [(0, TPassed)] |}.
Definition badS : tsuite := {| ts_status := None; ts_tests := [(0, TFailed)] |}.
Definition errS : tsuite := {| ts_status := Some TError; ts_tests := [] |}.
Definition fcof (pass err raise : list nat) (p : nat) : fcres :=
  if tbl raise p then FRaise else if tbl err p then FSuite errS else if tbl pass p then FSuite okS else FSuite badS.
Definition rundir (cons sup mp src ref : list nat) (is ir : bool) (pass err raise : list nat) :=
  let c := categorize (tbl cons) (tbl sup) (tbl mp) src ref in
  (cli_dir is ir c (fcof pass err raise), to_compare c, missing_src c, missing_ref c, unsupported c, discarded c, length (discarded_orphans c),
   map (fun s => (fst s, tsuite_bool (snd s))) (dir_suites is ir c (fcof pass err raise))).
"""
DIRS = ["", "a", "b", "a/sub", "b/sub", "a/sub/deep", ".hidden", "a/.cache"]
BASES = ["x", "y", "data", "res", "mesh", ".partial", "x y", "diff_table", "diff_x"]
EXTS = [".csv", ".csv", ".vtu", ".txt", ".tab", ""]   # "" = extension-less file with VTK content (sniffed)
READ_AS_TAB = 'dsv{"delimiter":",","use_names":true}:*.tab'
READ_AS_CSV = 'dsv{"delimiter":",","use_names":true}:*.csv'


def write_content(path, ext, variant):
    """variant: 0 = ground truth, 1 = a value differs, 2 = unreadable (damaged)"""
    os.makedirs(os.path.dirname(path), exist_ok=True)
    if variant == 2:
        open(path, "wb").write(b"<VTKFile type=" if ext in (".vtu", "") else b"a,b\n1,\x00\xff,,\n2\n")
        return
    v = 1.5 if variant == 0 else 2.5
    if ext in (".csv", ".tab", ".txt"):
        write_csv(path, ["a", "b"], [[0.5, v], [1, 2]])
    else:
        V.write_vtu(path, [[0.0, 0.0, 0.0], [1.0, 0.0, 0.0], [0.0, 1.0, 0.0]], [(5, [0, 1, 2])],
                    [("p", "Float64", 1, [0.5, v, 2.0])], [], V.Cfg("ascii"))


def gen(rng):
    k = rng.randint(1, 9)
    paths = set()
    while len(paths) < k:
        d, b, e = rng.choice(DIRS), rng.choice(BASES), rng.choice(EXTS)
        paths.add((d + "/" if d else "") + b + e)
    files = {}
    for p in sorted(paths):
        where = rng.choice(["both", "both", "both", "src", "ref"])
        files[p] = {"where": where, "src_variant": rng.choice([0, 0, 0, 2]), "ref_variant": rng.choice([0, 0, 1, 2])}
    o = {"include": None, "exclude": None, "ign_src": rng.random() < 0.3, "ign_ref": rng.random() < 0.3,
         "map_tab": rng.random() < 0.5, "empty_dirs": rng.random() < 0.3}
    pats = ["*.csv", "a/*", "*sub*", "x*", "*", "*.vtu", "b/sub/*", "*/x.csv", "*.tab", "data*", "?.csv"]
    if rng.random() < 0.4:
        o["include"] = rng.sample(pats, rng.randint(1, 2))
    if rng.random() < 0.3:
        o["exclude"] = rng.sample(pats, rng.randint(1, 2))
    return {"files": files, "opts": o}


def ext_of(p):
    return os.path.splitext(p)[1]


def consider(o, p):
    inc = True if o["include"] is None else any(fnmatch.fnmatch(p, q) for q in o["include"])
    exc = False if o["exclude"] is None else any(fnmatch.fnmatch(p, q) for q in o["exclude"])
    return inc and not exc


def supported(sc, p):
    """known from what is written: .csv and .vtu by extension; extension-less files by sniffing VTK content of the SOURCE file"""
    e = ext_of(p)
    if e in (".csv", ".vtu"):
        return True
    if e == "":
        return sc["files"][p]["src_variant"] != 2   # a damaged extension-less file is not recognisable as VTK (no type value)
    return False


def file_argv(sc, a, b, junit=None):
    o = sc["opts"]
    argv = ["file", a, b, "--verbosity", "0", "--read-as", READ_AS_CSV]
    if o["map_tab"]:
        argv += ["--read-as", READ_AS_TAB]
    return argv


def run_impl(sc, workdir, idx):
    root = os.path.join(workdir, f"d{idx}")
    A, B = os.path.join(root, "A"), os.path.join(root, "B")
    os.makedirs(A)
    os.makedirs(B)
    for p, f in sc["files"].items():
        if f["where"] in ("both", "src"):
            write_content(os.path.join(A, p), ext_of(p), f["src_variant"])
        if f["where"] in ("both", "ref"):
            write_content(os.path.join(B, p), ext_of(p), f["ref_variant"])
    if sc["opts"]["empty_dirs"]:
        os.makedirs(os.path.join(A, "empty/inner"), exist_ok=True)
        os.makedirs(os.path.join(B, "void"), exist_ok=True)
    o = sc["opts"]
    argv = ["dir", "A", "B", "--verbosity", "2", "--junit-xml", "report.xml", "--read-as", READ_AS_CSV]
    if o["map_tab"]:
        argv += ["--read-as", READ_AS_TAB]
    for q in o["include"] or []:
        argv += ["--include-files", q]
    for q in o["exclude"] or []:
        argv += ["--exclude-files", q]
    if o["ign_src"]:
        argv.append("--ignore-missing-source-files")
    if o["ign_ref"]:
        argv.append("--ignore-missing-reference-files")
    cwd = os.getcwd()
    os.chdir(root)
    try:
        with warnings.catch_warnings():
            warnings.simplefilter("ignore")
            rc, log, exc = run_cli(argv)
            out = {"exit": rc, "escaped": exc}
            try:
                out["junit"] = parse_junit("report.xml") if os.path.exists("report.xml") else None
            except Exception as e:  # noqa: BLE001
                out["junit_error"] = str(e)
            m = re.search(r"(\d+) missing source/reference files have been filtered out", log)
            out["orphans_filtered"] = int(m.group(1)) if m else 0
            # per compared path: file mode on the same pair with the same options; and is_supported of the source file
            per = {}
            from fieldcompare.io import is_supported
            for p, f in sc["files"].items():
                if f["where"] == "both":
                    rcf, _, excf = run_cli(file_argv(sc, os.path.join("A", p), os.path.join("B", p)))
                    per[p] = {"file_exit": rcf, "file_escaped": excf}
                    try:
                        per[p]["supported"] = bool(is_supported(os.path.join("A", p)))
                    except Exception as e:  # noqa: BLE001
                        per[p]["supported"] = f"raised {e}"
            out["per_path"] = per
    finally:
        os.chdir(cwd)
        shutil.rmtree(root)
    return out


def classify_suite(s):
    msgs = [m for c in s["cases"] for m in c[2]]
    names = [c[0] for c in s["cases"]]
    if names == ["file comparison"]:
        m = msgs[0] if msgs else ""
        if "Missing source file" in m:
            return "missing_src"
        if "Missing reference file" in m:
            return "missing_ref"
        if "Unsupported file format" in m:
            return "unsupported"
        if "Filtered out" in m:
            return "filtered"
    return "compared"


def oracle(sc, impl):
    """expected class of every path, and the exit code, from the statement"""
    o = sc["opts"]
    cls = {}
    n_orph_filtered = 0
    ok = True
    for p, f in sc["files"].items():
        cons = consider(o, p)
        if f["where"] == "both":
            if not cons:
                cls[p] = "filtered"
            elif supported(sc, p) or (o["map_tab"] and ext_of(p) == ".tab"):
                cls[p] = "compared"
                # same options file comparison: passes iff both are the ground truth content
                passes = f["src_variant"] == 0 and f["ref_variant"] == 0
                ok = ok and passes
            else:
                cls[p] = "unsupported"
        elif not cons:
            n_orph_filtered += 1
        elif f["where"] == "src":
            cls[p] = "missing_ref"
            ok = ok and o["ign_ref"]
        else:
            cls[p] = "missing_src"
            ok = ok and o["ign_src"]
    return {"classes": cls, "orphans_filtered": n_orph_filtered, "exit_zero": ok}


def model_expr(sc, impl):
    paths = sorted(sc["files"])
    pid = {p: i for i, p in enumerate(paths)}
    o = sc["opts"]
    src = [pid[p] for p in paths if sc["files"][p]["where"] in ("both", "src")]
    ref = [pid[p] for p in paths if sc["files"][p]["where"] in ("both", "ref")]
    cons = [pid[p] for p in paths if consider(o, p)]
    sup = [pid[p] for p in paths if impl["per_path"].get(p, {}).get("supported") is True]   # io.is_supported is an oracle
    mp = [pid[p] for p in paths if o["map_tab"] and ext_of(p) == ".tab"] + [pid[p] for p in paths if ext_of(p) == ".csv"]
    per = impl["per_path"]
    passed = [pid[p] for p in per if per[p]["file_exit"] == 0 and not per[p]["file_escaped"]]
    raised = [pid[p] for p in per if per[p]["file_escaped"]]
    L = lambda l: clist([cnat(x) for x in l], "nat")  # noqa: E731
    # the order of the reference listing is irrelevant for membership; use the numbering order
    return (f"rundir {L(cons)} {L(sup)} {L(mp)} {L(src)} {L(ref)} {lib.cbool(o['ign_src'])} {lib.cbool(o['ign_ref'])} "
            f"{L(passed)} {L([])} {L(raised)}"), paths


def mesh_options_stream(ctx, n):
    """the mesh options reach the file comparisons of directory mode as they reach file mode: for a pair of .vtu files that are
    equal up to relabeling (optionally with an unconnected point on one side), `dir` and `file` give the same exit status under
    every combination of --disable-mesh-reordering / --disable-mesh-orphan-point-removal, and the status is the expected one"""
    from .clicommon import lattice_mesh, permute_mesh
    import random as _random
    rng = ctx.rng
    for it in range(n):
        nx, ny = rng.randint(1, 3), rng.randint(1, 2)
        pts, cells = lattice_mesh(rng, nx, ny)
        u = [rng.randint(-8, 8) / 4.0 for _ in pts]
        ghost = rng.random() < 0.4
        flags = [f for f in ("--disable-mesh-reordering", "--disable-mesh-orphan-point-removal") if rng.random() < 0.5]
        root = os.path.join(str(ctx.workdir), f"mo{it}")
        A, B = os.path.join(root, "A"), os.path.join(root, "B")
        os.makedirs(A)
        os.makedirs(B)
        V.write_vtu(os.path.join(A, "m.vtu"), pts, cells, [("u", "Float64", 1, u)], [], V.Cfg("ascii"))
        p2, c2, pf2, _ = permute_mesh(_random.Random(it * 7 + 1), pts, cells, [("u", "Float64", 1, u)], [])
        identity = p2 == pts and c2 == cells
        if ghost:
            p2 = p2 + [[50.0, 50.0, 0.0]]
            pf2 = [(pf2[0][0], pf2[0][1], pf2[0][2], list(pf2[0][3]) + [0.0])]
        V.write_vtu(os.path.join(B, "m.vtu"), p2, c2, pf2, [], V.Cfg("ascii"))
        rc = {}
        for mode in ("file", "dir"):
            args = ([mode, os.path.join(A, "m.vtu"), os.path.join(B, "m.vtu")] if mode == "file" else [mode, A, B]) + ["--verbosity", "0"] + flags
            with warnings.catch_warnings():
                warnings.simplefilter("ignore")
                rc[mode], _, exc = run_cli(args)
            if exc:
                rc[mode] = f"escaped: {exc}"
        shutil.rmtree(root, ignore_errors=True)
        sc = {"mesh_options": {"flags": flags, "ghost_point_in_reference": ghost, "nx": nx, "ny": ny, "identity_permutation": identity}}
        ctx.case(sc, True, sample={"scenario": sc, "exit": rc})
        ctx.count("mesh options:" + (",".join(f[2:] for f in flags) or "none"))
        ctx.tie("T2 dir mode = file mode under the mesh options")
        want_zero = (identity or "--disable-mesh-reordering" not in flags) and not (ghost and flags)
        if ghost and "--disable-mesh-orphan-point-removal" in flags or ghost and "--disable-mesh-reordering" in flags:
            want_zero = False
        if rc["file"] != rc["dir"]:
            ctx.violation("E4", f"directory mode and file mode disagree under {flags or 'no mesh option'}: dir exits {rc['dir']}, "
                                f"file exits {rc['file']}", sc)
        elif isinstance(rc["dir"], int) and (rc["dir"] == 0) != want_zero:
            ctx.violation("E4", f"exit status {rc['dir']} for meshes equal up to relabeling under {flags or 'no mesh option'} "
                                f"(ghost point: {ghost})", sc)
        ctx.traces_validated += 1


def options_agreement_stream(ctx, n):
    """every scenario of the file-mode check C04 (edited csv / .vtu pairs under random tolerance, field-filter, ignore and mesh
    options) put into two directories under one file name: `fieldcompare dir` with the same options must give the exit status
    `fieldcompare file` gives for the pair"""
    from . import c04
    scs = c04.gen_scenarios(ctx.rng, n)
    for i, sc in enumerate(scs):
        if sc["res_state"] in ("missing", "badext") or sc["ref_state"] in ("missing", "badext"):
            continue            # (a missing / differently named file is a different directory-mode scenario: categorisation stream)
        if os.path.basename(c04.written_name("data", sc, "res")) != os.path.basename(c04.written_name("data", sc, "ref")):
            continue            # (one side stored in another format, hence under another name: the same)
        root = os.path.join(str(ctx.workdir), f"oa{i}")
        A, B = os.path.join(root, "A"), os.path.join(root, "B")
        os.makedirs(A)
        os.makedirs(B)
        res = c04.write_side(os.path.join(A, "data"), sc["kind"], sc["res"], sc["res_state"], i * 2 + 1)
        ref = c04.write_side(os.path.join(B, "data"), sc["kind"], sc["ref"], sc["ref_state"], i * 2 + 2)
        fargv = c04.argv_for(sc, res, ref)
        dargv = ["dir", A, B] + fargv[3:]
        rc = {}
        for mode, argv in (("file", fargv), ("dir", dargv)):
            with warnings.catch_warnings():
                warnings.simplefilter("ignore")
                code, _, exc = run_cli(argv)
            rc[mode] = f"escaped: {exc}" if exc else code
        shutil.rmtree(root, ignore_errors=True)
        c = {"options_agreement": c04.canon(sc)}
        ctx.case(c, bool(sc["edits"]), sample={"options": sc["opts"], "edits": sc["edits"], "exit": rc})
        ctx.count("options agreement:" + sc["kind"])
        ctx.tie("T2 dir mode = file mode for one pair under the same options")
        if rc["file"] != rc["dir"] and not (isinstance(rc["file"], int) and isinstance(rc["dir"], int) and (rc["file"] != 0) == (rc["dir"] != 0)):
            ctx.violation("E4", f"directory mode exits {rc['dir']} where file mode exits {rc['file']} for the same pair and options", c)
        ctx.traces_validated += 1


def run(ctx):
    ctx.prove()
    n = 350 if ctx.tier == "quick" else 8000
    rng = ctx.rng
    from . import globtie
    globtie.tie(ctx, 1500 if ctx.tier == "quick" else 40000, "--include-files / --exclude-files")
    mesh_options_stream(ctx, 24 if ctx.tier == "quick" else 600)
    options_agreement_stream(ctx, 150 if ctx.tier == "quick" else 4000)
    cases = [gen(rng) for _ in range(n)]
    impls = [run_impl(sc, str(ctx.workdir), i) for i, sc in enumerate(cases)]
    pairs = [model_expr(sc, im) for sc, im in zip(cases, impls)]
    vals = ctx.coq_eval(HEADER, [p[0] for p in pairs], name="c12")
    for sc, im, val, (_, paths) in zip(cases, impls, vals, pairs):
        code, tc, ms, mr, un, di, norph, suites = val
        mo = {"exit": code,
              "classes": {**{paths[p]: "compared" for p in tc}, **{paths[p]: "missing_src" for p in ms},
                          **{paths[p]: "missing_ref" for p in mr}, **{paths[p]: "unsupported" for p in un},
                          **{paths[p]: "filtered" for p in di}},
              "orphans_filtered": norph}
        orc = oracle(sc, im)
        where = {f["where"] for f in sc["files"].values()}
        nontrivial = len(sc["files"]) >= 2 and (len(where) > 1 or sc["opts"]["include"] or sc["opts"]["exclude"])
        ctx.case(sc, bool(nontrivial), sample={"scenario": sc, "impl_exit": im["exit"], "model": mo})
        ctx.count(f"files:{len(sc['files'])}")
        for f in sc["files"].values():
            ctx.count(f"where:{f['where']}")
        ctx.count(f"exit:{im['exit']}")
        if im["escaped"]:
            ctx.violation("E4", f"exception escaped the CLI (dir mode): {im['escaped']}", sc, impl=im)
            continue
        if im.get("junit") is None:
            ctx.violation("E4", "no (well-formed) junit report written in directory mode: " + im.get("junit_error", "missing"), sc)
            continue
        # accounted exactly once: suites per path
        got = {}
        dup = False
        for s in im["junit"]:
            nm = s["name"]
            if nm in got:
                dup = True
            got[nm] = classify_suite(s)
        if dup or got != orc["classes"] or im["orphans_filtered"] != orc["orphans_filtered"]:
            ctx.violation("E4", "files are not accounted for exactly once in the right class "
                          f"(duplicates={dup}, orphans filtered {im['orphans_filtered']} vs {orc['orphans_filtered']})", sc,
                          impl={"classes": got}, statement=orc)
        elif (im["exit"] == 0) != orc["exit_zero"]:
            ctx.violation("E4", f"exit code {im['exit']} but the statement requires {'0' if orc['exit_zero'] else 'non-zero'}", sc, impl=im)
        elif (im["exit"] == 0) != (mo["exit"] == 0) or got != mo["classes"] or im["orphans_filtered"] != mo["orphans_filtered"]:
            ctx.violation("E2", f"model {mo} != implementation exit {im['exit']} classes {got}", sc, found_input=False)
        # metamorphic: conjunction of the file-mode results
        ctx.traces_validated += 1
    ctx.rule = ("tree pairs of 1-9 files over 6 (nested) directories with re-used base names, extensions .csv/.vtu (supported), "
                ".txt/.tab (unsupported, .tab optionally mapped by --read-as), extension-less VTK files (sniffed); contents equal / "
                "differing / damaged; one-sided files, empty directories; include/exclude patterns on relative paths, both ignore "
                "flags. non-trivial = >= 2 files and (a one-sided file or a filter)")
    return ctx.finish(assumptions=["os.walk and io.is_supported are oracles (tables given to the model); fnmatch is modelled (Model/Glob.v) and compared with PatternFilter, the per-scenario filter tables are still computed with it",
                                   "the per-path file-mode verdict is observed by running file mode on the same pair with the same options"],
                      trusted=["harness/c12.py"])


def replay(pid, rec):
    sc = rec["case"]
    if not sc or "files" not in sc:
        print("no directory scenario in this replay:", rec["what"])
        return False
    import tempfile
    d = tempfile.mkdtemp(dir=str(lib.WORK))
    im = run_impl(sc, d, 0)
    os.rmdir(d)
    orc = oracle(sc, im)
    got = {s["name"]: classify_suite(s) for s in (im.get("junit") or [])}
    print("exit", im["exit"], "classes", got, "orphans filtered", im["orphans_filtered"])
    print("statement", orc)
    return (not im["escaped"] and got == orc["classes"] and (im["exit"] == 0) == orc["exit_zero"]
            and im["orphans_filtered"] == orc["orphans_filtered"])
