(* Proofs/ScalarP.v — laws of the rational tolerance kernel *)
From Coq Require Import QArith Qabs Qminmax ZArith Bool List Lia Lqa.
From FC Require Import Model.Scalar.

(* the documented formula, stated with the standard library's Qmax *)
Definition formula (a b rel abs : Q) : Prop :=
  Qabs (a - b) <= Qmax (rel * Qmax (Qabs a) (Qabs b)) abs.

Lemma qmax_Qmax a b : qmax a b == Qmax a b.
Proof.
  unfold qmax. destruct (Qle_bool a b) eqn:E.
  - apply Qle_bool_iff in E. symmetry. apply Q.max_r. exact E.
  - assert (H : ~ a <= b) by (intro H; apply Qle_bool_iff in H; congruence).
    symmetry. apply Q.max_l. apply Qnot_le_lt in H. apply Qlt_le_weak. exact H.
Qed.

Lemma qmax_le_iff a b c : c <= qmax a b <-> c <= a \/ c <= b.
Proof.
  unfold qmax. destruct (Qle_bool a b) eqn:E.
  - apply Qle_bool_iff in E. split; [auto|]. intros [H|H]; [eapply Qle_trans; eauto | auto].
  - assert (H : b < a).
    { apply Qnot_le_lt. intro H. apply Qle_bool_iff in H. congruence. }
    split; [auto|]. intros [H0|H0]; [auto|]. apply Qlt_le_weak in H. eapply Qle_trans; eauto.
Qed.

Lemma qmax_comm a b : qmax a b == qmax b a.
Proof. rewrite !qmax_Qmax. apply Q.max_comm. Qed.

Global Instance qmax_proper : Proper (Qeq ==> Qeq ==> Qeq) qmax.
Proof. intros a a' Ha b b' Hb. rewrite !qmax_Qmax. rewrite Ha, Hb. reflexivity. Qed.

Lemma qmax_ub_l a b : a <= qmax a b.
Proof. apply qmax_le_iff. left. apply Qle_refl. Qed.
Lemma qmax_ub_r a b : b <= qmax a b.
Proof. apply qmax_le_iff. right. apply Qle_refl. Qed.

Lemma qmax_lub a b c : a <= c -> b <= c -> qmax a b <= c.
Proof. unfold qmax. destruct (Qle_bool a b); auto. Qed.

Lemma qmax_mono a a' b b' : a <= a' -> b <= b' -> qmax a b <= qmax a' b'.
Proof.
  intros Ha Hb. apply qmax_lub.
  - eapply Qle_trans; [exact Ha | apply qmax_ub_l].
  - eapply Qle_trans; [exact Hb | apply qmax_ub_r].
Qed.

Lemma qmax_nonneg_l a b : 0 <= a -> 0 <= qmax a b.
Proof. intro H. eapply Qle_trans; [exact H | apply qmax_ub_l]. Qed.

Lemma thr_q_formula a b rel abs :
  thr_q a b rel abs == Qmax (rel * Qmax (Qabs a) (Qabs b)) abs.
Proof.
  unfold thr_q. rewrite !qmax_Qmax. rewrite (Qmult_comm _ rel). reflexivity.
Qed.

(* C01: the kernel decides exactly the documented formula, boundary included *)
Theorem fuzzy_q_iff a b rel abs : fuzzy_q a b rel abs = true <-> formula a b rel abs.
Proof.
  unfold fuzzy_q, formula. rewrite Qle_bool_iff. rewrite thr_q_formula.
  rewrite (Qabs_Qminus b a). reflexivity.
Qed.

Theorem fuzzy_q_false_iff a b rel abs : fuzzy_q a b rel abs = false <-> ~ formula a b rel abs.
Proof.
  rewrite <- fuzzy_q_iff. destruct (fuzzy_q a b rel abs); split; congruence.
Qed.

(* C10 at the scalar level *)
Lemma thr_q_nonneg a b rel abs : 0 <= abs -> 0 <= thr_q a b rel abs.
Proof. intro H. unfold thr_q. eapply Qle_trans; [exact H | apply qmax_ub_r]. Qed.

Theorem fuzzy_q_refl a rel abs : 0 <= abs -> fuzzy_q a a rel abs = true.
Proof.
  intro H. unfold fuzzy_q. apply Qle_bool_iff.
  assert (E : a - a == 0) by ring. rewrite E. simpl Qabs.
  apply thr_q_nonneg. exact H.
Qed.

Lemma thr_q_sym a b rel abs : thr_q a b rel abs == thr_q b a rel abs.
Proof. unfold thr_q. rewrite (qmax_comm (Qabs a) (Qabs b)). reflexivity. Qed.

Theorem fuzzy_q_sym a b rel abs : fuzzy_q a b rel abs = fuzzy_q b a rel abs.
Proof.
  unfold fuzzy_q. rewrite (Qabs_Qminus b a).
  destruct (Qle_bool (Qabs (a - b)) (thr_q a b rel abs)) eqn:E1;
  destruct (Qle_bool (Qabs (a - b)) (thr_q b a rel abs)) eqn:E2; try reflexivity.
  - apply Qle_bool_iff in E1. rewrite thr_q_sym in E1. apply Qle_bool_iff in E1. congruence.
  - apply Qle_bool_iff in E2. rewrite <- thr_q_sym in E2. apply Qle_bool_iff in E2. congruence.
Qed.

Lemma qabs_max_nonneg a b : 0 <= qmax (Qabs a) (Qabs b).
Proof. apply qmax_nonneg_l. apply Qabs_nonneg. Qed.

Lemma thr_q_mono a b r1 r2 t1 t2 : r1 <= r2 -> t1 <= t2 -> thr_q a b r1 t1 <= thr_q a b r2 t2.
Proof.
  intros Hr Ht. unfold thr_q. apply qmax_mono; [|exact Ht].
  rewrite !(Qmult_comm (qmax (Qabs a) (Qabs b))).
  apply Qmult_le_compat_r; [exact Hr | apply qabs_max_nonneg].
Qed.

Theorem fuzzy_q_mono a b r1 r2 t1 t2 :
  r1 <= r2 -> t1 <= t2 -> fuzzy_q a b r1 t1 = true -> fuzzy_q a b r2 t2 = true.
Proof.
  unfold fuzzy_q. intros Hr Ht H. apply Qle_bool_iff in H. apply Qle_bool_iff.
  eapply Qle_trans; [exact H | apply thr_q_mono; assumption].
Qed.

(* with both tolerances zero the kernel is exact equality *)
Theorem fuzzy_q_zero_tol a b : fuzzy_q a b 0 0 = true <-> a == b.
Proof.
  unfold fuzzy_q, thr_q. rewrite Qle_bool_iff.
  assert (E : qmax (qmax (Qabs a) (Qabs b) * 0) 0 == 0).
  { rewrite Qmult_0_r. unfold qmax. simpl. reflexivity. }
  rewrite E. split.
  - intro H. assert (H0 : Qabs (b - a) == 0).
    { apply Qle_antisym; [exact H | apply Qabs_nonneg]. }
    revert H0. apply Qabs_case; intros; lra.
  - intro H. assert (E2 : b - a == 0) by lra. rewrite E2. simpl. apply Qle_refl.
Qed.
