(* Proofs/StructuredP.v — theorems about the implicit numbering of structured grids and the structured piece merger
   (Model/Structured.v), for all extents / decompositions. *)
From Coq Require Import QArith ZArith Bool Arith List Lia Permutation.
From FC Require Import Model.Structured.
Import ListNotations.
Local Open Scope nat_scope.

(* ================================================================================================ *)
(* 1. x-fastest products and the mixed-radix index                                                  *)
(* ================================================================================================ *)

Lemma flat_map_const_nil : forall (A B : Type) (l : list A), flat_map (fun _ : A => @nil B) l = [].
Proof. induction l; simpl; auto. Qed.

Lemma flat_map_map : forall (A B C : Type) (f : A -> B) (g : B -> list C) l,
  flat_map g (map f l) = flat_map (fun x => g (f x)) l.
Proof. induction l as [|x l IH]; simpl; [reflexivity|]. rewrite IH. reflexivity. Qed.

Lemma map_flat_map : forall (A B C : Type) (f : B -> C) (g : A -> list B) l,
  map f (flat_map g l) = flat_map (fun x => map f (g x)) l.
Proof. induction l as [|x l IH]; simpl; [reflexivity|]. rewrite map_app, IH. reflexivity. Qed.

Lemma flat_map_flat_map : forall (A B C : Type) (g : B -> list C) (h : A -> list B) l,
  flat_map g (flat_map h l) = flat_map (fun x => flat_map g (h x)) l.
Proof. induction l as [|x l IH]; simpl; [reflexivity|]. rewrite flat_map_app, IH. reflexivity. Qed.

Lemma flat_map_ext_in : forall (A B : Type) (f g : A -> list B) l,
  (forall x, In x l -> f x = g x) -> flat_map f l = flat_map g l.
Proof.
  induction l as [|x l IH]; intro H; simpl; [reflexivity|].
  rewrite H by (left; reflexivity). rewrite IH; [reflexivity|]. intros y Hy. apply H. right. exact Hy.
Qed.

Lemma Forall2_len : forall (A B : Type) (R : A -> B -> Prop) l l', Forall2 R l l' -> length l = length l'.
Proof. intros A B R l l' H. induction H; simpl; congruence. Qed.

Lemma in_prodl : forall (A : Type) (ls : list (list A)) (x : list A),
  In x (prodl ls) <-> Forall2 (fun xi li => In xi li) x ls.
Proof.
  intros A ls. induction ls as [|l ls IH]; intro x; simpl.
  - split; [intros [H|[]]; subst; constructor|]. intro H. inversion H. left. reflexivity.
  - rewrite in_flat_map. split.
    + intros [tl [Htl Hx]]. apply in_map_iff in Hx. destruct Hx as [a [He Ha]]. subst x.
      constructor; [exact Ha|]. apply IH. exact Htl.
    + intro H. inversion H as [|a l' tl ls' Ha Htl]; subst. exists tl. split; [apply IH; exact Htl|].
      apply in_map_iff. exists a. split; [reflexivity|exact Ha].
Qed.

Lemma prodl_length : forall (A : Type) (ls : list (list A)),
  length (prodl ls) = nprod (map (@length A) ls).
Proof.
  intros A ls. induction ls as [|l ls IH]; simpl; [reflexivity|].
  rewrite <- IH. clear IH. induction (prodl ls) as [|t ts IHt]; simpl; [lia|].
  rewrite app_length, map_length, IHt. lia.
Qed.

Lemma in_locations : forall shape loc,
  In loc (locations_in shape) <-> Forall2 (fun i m => i < m) loc shape.
Proof.
  intros shape loc. unfold locations_in. rewrite in_prodl. revert loc.
  induction shape as [|m ms IH]; intro loc; simpl; split; intro H; inversion H; subst; constructor.
  - apply in_seq in H3. lia.
  - apply IH. assumption.
  - apply in_seq. lia.
  - apply IH. assumption.
Qed.

Lemma locations_length : forall shape, length (locations_in shape) = nprod shape.
Proof.
  intro shape. unfold locations_in. rewrite prodl_length, map_map. f_equal.
  induction shape as [|m ms IH]; simpl; [reflexivity|]. rewrite seq_length, IH. reflexivity.
Qed.

Lemma seq_shift_add : forall c m, map (fun i => i + c) (seq 0 m) = seq c m.
Proof.
  intros c m. revert c. induction m as [|m IH]; intro c; [reflexivity|].
  rewrite !seq_S, map_app, IH. simpl. f_equal. f_equal. lia.
Qed.

Lemma flat_map_seq_blocks : forall m n a, flat_map (fun k => seq (m * k) m) (seq a n) = seq (m * a) (m * n).
Proof.
  intros m n. induction n as [|n IH]; intro a; simpl.
  - rewrite Nat.mul_0_r. reflexivity.
  - rewrite IH. replace (m * S n) with (m + m * n) by lia. rewrite seq_app. f_equal. f_equal. lia.
Qed.

(* locations_x_fastest: the k-th location (k = 0, 1, ...) is the one whose mixed-radix number, first index least
   significant, is k — i.e. the first direction varies fastest *)
Theorem locations_x_fastest : forall shape,
  map (flat_index shape) (locations_in shape) = seq 0 (nprod shape).
Proof.
  induction shape as [|m ms IH]; [reflexivity|].
  change (locations_in (m :: ms)) with (flat_map (fun tl => map (fun x => x :: tl) (seq 0 m)) (locations_in ms)).
  rewrite map_flat_map.
  rewrite (flat_map_ext_in _ _ _ (fun tl => seq (m * flat_index ms tl) m)).
  - rewrite <- (flat_map_map _ _ _ (flat_index ms) (fun k => seq (m * k) m)). rewrite IH.
    rewrite flat_map_seq_blocks. simpl. rewrite Nat.mul_0_r. reflexivity.
  - intros tl _. rewrite map_map. simpl. apply seq_shift_add.
Qed.

Theorem nth_location_index : forall shape k, k < nprod shape ->
  flat_index shape (nth k (locations_in shape) []) = k.
Proof.
  intros shape k Hk.
  pose proof (f_equal (fun l => nth k l 0) (locations_x_fastest shape)) as H. simpl in H.
  rewrite seq_nth in H by exact Hk. simpl in H. rewrite <- H at 2.
  rewrite (nth_indep _ 0 (flat_index shape [])) by (rewrite map_length, locations_length; exact Hk).
  symmetry. apply map_nth.
Qed.

Theorem location_of_index : forall shape loc, Forall2 (fun i m => i < m) loc shape ->
  flat_index shape loc < nprod shape /\ nth (flat_index shape loc) (locations_in shape) [] = loc.
Proof.
  intros shape loc H. apply in_locations in H.
  destruct (In_nth _ _ [] H) as [k [Hk He]]. rewrite locations_length in Hk.
  rewrite <- He. rewrite nth_location_index by exact Hk. split; [exact Hk|reflexivity].
Qed.

Lemma dot_map_mul : forall m a l, dot a (map (Nat.mul m) l) = m * dot a l.
Proof.
  intros m a. induction a as [|x a IH]; intro l; destruct l as [|y l]; simpl; try lia.
  rewrite IH. lia.
Qed.

(* the code's sum of index * multiplier is the mixed-radix number *)
Lemma dot_mults_flat : forall shape loc, dot loc (mults shape) = flat_index shape loc.
Proof.
  induction shape as [|m ms IH]; intro loc; destruct loc as [|i is']; simpl; try reflexivity.
  rewrite dot_map_mul, IH. lia.
Qed.

(* ================================================================================================ *)
(* 2. connectivity                                                                                  *)
(* ================================================================================================ *)

(* the point (in the lattice of the meshed directions) at location loc + delta *)
Definition corner (ne loc delta : list nat) : nat := flat_index (map S ne) (map2 Nat.add loc delta).
(* the 2^d corners of the cell at `loc`, delta running x-fastest over {0,1}^d: pixel / voxel order *)
Definition corners_spec (ne loc : list nat) : list nat :=
  map (corner ne loc) (locations_in (repeat 2 (length ne))).

Lemma voxel_corners_correct : forall ne loc,
  1 <= length ne <= 3 -> length loc = length ne -> voxel_corners ne loc = corners_spec ne loc.
Proof.
  intros ne loc Hd Hl. unfold voxel_corners, corners_spec, corner, p0_of.
  destruct ne as [|a [|b [|c [|? ?]]]]; simpl in Hd; try lia;
    destruct loc as [|i [|j [|k [|? ?]]]]; simpl in Hl; try lia; clear Hd Hl.
  - vm_compute locations_in. cbn -[Nat.mul Nat.add]. repeat (apply (f_equal2 (@cons nat)); [ring|]); reflexivity.
  - vm_compute locations_in. cbn -[Nat.mul Nat.add]. repeat (apply (f_equal2 (@cons nat)); [ring|]); reflexivity.
  - vm_compute locations_in. cbn -[Nat.mul Nat.add]. repeat (apply (f_equal2 (@cons nat)); [ring|]); reflexivity.
Qed.

(* the reordering applied for quadrilaterals / hexahedra *)
Definition order_of (k : grid_kind) (dim : nat) (row : list nat) : list nat :=
  match k, dim with
  | Curvilinear, 2 => reorder quad_pixel_map row
  | Curvilinear, 3 => reorder hex_voxel_map row
  | _, _ => row
  end.

(* connectivity_correct: for d = 1, 2, 3 meshed directions (zero extents in the others), the c-th cell is the one at the
   c-th lattice location (x fastest) and its corners are exactly the points at location + {0,1}^d, in pixel / voxel order
   for image and rectilinear grids and in VTK quad / hexahedron order for structured grids *)
Theorem connectivity_correct : forall k extents,
  let ne := nonzero_extents extents in
  1 <= length ne <= 3 ->
  connectivity k (cell_type_of k (length ne)) extents
  = map (fun loc => order_of k (length ne) (corners_spec ne loc)) (locations_in ne)
  /\ length (connectivity k (cell_type_of k (length ne)) extents) = num_cells extents
  /\ (forall ct, ct <> cell_type_of k (length ne) -> connectivity k ct extents = []).
Proof.
  intros k extents ne Hd. split; [|split].
  - unfold connectivity. fold ne. rewrite Nat.eqb_refl.
    assert (Hrows : map (voxel_corners ne) (locations_in ne) = map (corners_spec ne) (locations_in ne)).
    { apply map_ext_in. intros loc Hloc. apply voxel_corners_correct; [exact Hd|].
      apply in_locations in Hloc. apply (Forall2_len _ _ _ _ _ Hloc). }
    rewrite Hrows.
    destruct k; destruct (length ne) as [|[|[|[|n]]]] eqn:E; try lia; simpl; try rewrite map_map; reflexivity.
  - unfold connectivity. fold ne. rewrite Nat.eqb_refl. unfold num_cells. fold ne.
    destruct (cell_type_of k (length ne) =? 9); [|destruct (cell_type_of k (length ne) =? 12)];
      repeat rewrite map_length; apply locations_length.
  - intros ct Hct. unfold connectivity. fold ne. apply Nat.eqb_neq in Hct. rewrite Hct. reflexivity.
Qed.

(* quadrilateral: counter-clockwise; hexahedron: bottom face counter-clockwise, then the top face *)
Lemma quad_order : forall a b i j,
  order_of Curvilinear 2 (corners_spec [a; b] [i; j])
  = [corner [a; b] [i; j] [0; 0]; corner [a; b] [i; j] [1; 0]; corner [a; b] [i; j] [1; 1]; corner [a; b] [i; j] [0; 1]].
Proof. intros. reflexivity. Qed.

Lemma hex_order : forall a b c i j k,
  order_of Curvilinear 3 (corners_spec [a; b; c] [i; j; k])
  = map (corner [a; b; c] [i; j; k]) [[0;0;0]; [1;0;0]; [1;1;0]; [0;1;0]; [0;0;1]; [1;0;1]; [1;1;1]; [0;1;1]].
Proof. intros. reflexivity. Qed.

(* the numbering of the points of the meshed sub-lattice is the numbering of the full 3-d point lattice (x fastest over
   all three directions) restricted to index 0 in the flat directions *)
Fixpoint embed (extents loc : list nat) : list nat :=
  match extents with
  | [] => []
  | e :: es => if 0 <? e
               then match loc with i :: is' => i :: embed es is' | [] => 0 :: embed es [] end
               else 0 :: embed es loc
  end.

Lemma flat_index_nil : forall shape, flat_index shape [] = 0.
Proof. destruct shape; reflexivity. Qed.

Theorem embed_index : forall extents loc,
  flat_index (map S extents) (embed extents loc) = flat_index (map S (nonzero_extents extents)) loc.
Proof.
  induction extents as [|e es IH]; intro loc; simpl; [destruct loc; reflexivity|].
  destruct (0 <? e) eqn:E; simpl.
  - destruct loc as [|i is']; simpl; rewrite IH; [|reflexivity].
    rewrite flat_index_nil. lia.
  - rewrite IH. apply Nat.ltb_ge in E. assert (e = 0) by lia. subst. lia.
Qed.

Theorem num_points_locations : forall extents, length (locations_in (map S extents)) = num_points extents.
Proof. intro. apply locations_length. Qed.

(* ================================================================================================ *)
(* 3. points of image and rectilinear grids                                                         *)
(* ================================================================================================ *)

Lemma map_nth_seq : forall (A : Type) (d : A) (l : list A), map (fun i => nth i l d) (seq 0 (length l)) = l.
Proof.
  intros A d l. induction l as [|x l IH]; [reflexivity|].
  simpl. f_equal. rewrite <- seq_shift, map_map. exact IH.
Qed.

Lemma prodl_map : forall (A B : Type) (fs : list (A -> B)) (ls : list (list A)),
  length fs = length ls ->
  prodl (map2 (fun f l => map f l) fs ls) = map (map2 (fun f x => f x) fs) (prodl ls).
Proof.
  intros A B fs. induction fs as [|f fs IH]; intros ls Hl; destruct ls as [|l ls]; simpl in Hl; try discriminate.
  - reflexivity.
  - simpl. rewrite IH by lia. rewrite flat_map_map, map_flat_map.
    apply flat_map_ext_in. intros tl _. rewrite !map_map. reflexivity.
Qed.

Definition pick {A : Type} (d : A) (ls : list (list A)) (loc : list nat) : list A :=
  map2 (fun l i => nth i l d) ls loc.

(* a product of lists enumerates, x fastest, the tuples picked by the lattice locations *)
Lemma prodl_as_locations : forall (A : Type) (d : A) (ls : list (list A)),
  prodl ls = map (pick d ls) (locations_in (map (@length A) ls)).
Proof.
  intros A d ls.
  assert (H1 : ls = map2 (fun f l => map f l) (map (fun l i => nth i l d) ls) (map (fun l => seq 0 (length l)) ls)).
  { induction ls as [|l ls IH]; simpl; [reflexivity|]. rewrite map_nth_seq. f_equal. exact IH. }
  rewrite H1 at 1. rewrite prodl_map by (rewrite !map_length; reflexivity).
  unfold locations_in. rewrite map_map.
  apply map_ext. intro loc. unfold pick. clear H1. revert loc.
  induction ls as [|l ls IH]; intro loc; destruct loc as [|i loc]; simpl; try reflexivity.
  f_equal. apply IH.
Qed.

(* rect_points_spec: point number flat_index(loc) of a rectilinear grid is (x_i, y_j, z_k), x fastest *)
Theorem rect_points_spec : forall ordinates,
  let ords := map fix_ordinates ordinates in
  rect_points ordinates = map (pick 0%Q ords) (locations_in (map (@length Q) ords))
  /\ forall loc, Forall2 (fun i o => i < length o) loc ords ->
       nth (flat_index (map (@length Q) ords) loc) (rect_points ordinates) [] = pick 0%Q ords loc.
Proof.
  intros ordinates ords. assert (H : rect_points ordinates = map (pick 0%Q ords) (locations_in (map (@length Q) ords))).
  { unfold rect_points. fold ords. apply prodl_as_locations. }
  split; [exact H|]. intros loc Hloc. rewrite H.
  assert (Hr : Forall2 (fun i m => i < m) loc (map (@length Q) ords)).
  { clear H. induction Hloc; simpl; constructor; assumption. }
  destruct (location_of_index _ _ Hr) as [Hlt Hnth].
  rewrite (nth_indep _ [] (pick 0%Q ords [])) by (rewrite map_length, locations_length; exact Hlt).
  rewrite map_nth, Hnth. reflexivity.
Qed.

(* image_points_spec: point number flat_index(loc) of an image grid is origin + basis . (spacing * loc) *)
Theorem image_points_spec : forall o s B extents loc,
  Forall2 (fun i e => i <= e) loc extents ->
  nth (flat_index (map S extents) loc) (image_points o s B extents) [] = image_point o s B loc
  /\ length (image_points o s B extents) = num_points extents.
Proof.
  intros o s B extents loc Hloc.
  assert (Hr : Forall2 (fun i m => i < m) loc (map S extents)).
  { induction Hloc; simpl; constructor; [lia|assumption]. }
  destruct (location_of_index _ _ Hr) as [Hlt Hnth]. unfold image_points. split.
  - rewrite (nth_indep _ [] (image_point o s B [])) by (rewrite map_length, locations_length; exact Hlt).
    rewrite map_nth, Hnth. reflexivity.
  - rewrite map_length. apply locations_length.
Qed.

Lemma Forall2_map_same : forall (A B C : Type) (R : B -> C -> Prop) (f : A -> B) (g : A -> C) l,
  (forall x, In x l -> R (f x) (g x)) -> Forall2 R (map f l) (map g l).
Proof.
  induction l as [|x l IH]; intro H; simpl; constructor.
  - apply H. left. reflexivity.
  - apply IH. intros y Hy. apply H. right. exact Hy.
Qed.

(* image_rect_agree: an image grid with the standard basis has exactly (in Q) the points of the rectilinear grid whose
   ordinates are origin + spacing * i *)
Theorem image_rect_agree : forall ox oy oz sx sy sz ex ey ez,
  Forall2 (Forall2 Qeq)
    (image_points [ox; oy; oz] [sx; sy; sz] identity3 [ex; ey; ez])
    (rect_points (ordinates_of [ox; oy; oz] [sx; sy; sz] [ex; ey; ez])).
Proof.
  intros.
  set (fx := fun i => (ox + sx * inject_nat i)%Q).
  set (fy := fun i => (oy + sy * inject_nat i)%Q).
  set (fz := fun i => (oz + sz * inject_nat i)%Q).
  assert (H : rect_points (ordinates_of [ox; oy; oz] [sx; sy; sz] [ex; ey; ez])
              = map (map2 (fun f x => f x) [fx; fy; fz]) (locations_in [S ex; S ey; S ez])).
  { unfold locations_in. cbn [map]. rewrite <- prodl_map by reflexivity. reflexivity. }
  rewrite H. unfold image_points. cbn [map]. apply Forall2_map_same.
  intros loc Hloc. apply in_locations in Hloc.
  inversion Hloc as [|i ? loc1 ? _ H1]; subst. inversion H1 as [|j ? loc2 ? _ H2]; subst.
  inversion H2 as [|k ? loc3 ? _ H3]; subst. inversion H3; subst.
  unfold image_point, identity3, mat_vec, fx, fy, fz. cbn [map map2 qdot].
  repeat constructor; ring.
Qed.
