(* Proofs/StructuredP.v — theorems about the implicit numbering of structured grids and the structured piece merger
   (Model/Structured.v), for all extents / decompositions. *)
From Coq Require Import QArith ZArith Bool Arith List Lia Permutation.
From FC Require Import Model.Structured.
Import ListNotations.
Local Open Scope nat_scope.

(* ================================================================================================ *)
(* 1. x-fastest products and the mixed-radix index                                                  *)
(* ================================================================================================ *)

Lemma flat_map_const_nil : forall (A B : Type) (l : list A), flat_map (fun _ : A => @nil B) l = [].
Proof. induction l; simpl; auto. Qed.

Lemma flat_map_map : forall (A B C : Type) (f : A -> B) (g : B -> list C) l,
  flat_map g (map f l) = flat_map (fun x => g (f x)) l.
Proof. induction l as [|x l IH]; simpl; [reflexivity|]. rewrite IH. reflexivity. Qed.

Lemma map_flat_map : forall (A B C : Type) (f : B -> C) (g : A -> list B) l,
  map f (flat_map g l) = flat_map (fun x => map f (g x)) l.
Proof. induction l as [|x l IH]; simpl; [reflexivity|]. rewrite map_app, IH. reflexivity. Qed.

Lemma flat_map_flat_map : forall (A B C : Type) (g : B -> list C) (h : A -> list B) l,
  flat_map g (flat_map h l) = flat_map (fun x => flat_map g (h x)) l.
Proof. induction l as [|x l IH]; simpl; [reflexivity|]. rewrite flat_map_app, IH. reflexivity. Qed.

Lemma flat_map_ext_in : forall (A B : Type) (f g : A -> list B) l,
  (forall x, In x l -> f x = g x) -> flat_map f l = flat_map g l.
Proof.
  induction l as [|x l IH]; intro H; simpl; [reflexivity|].
  rewrite H by (left; reflexivity). rewrite IH; [reflexivity|]. intros y Hy. apply H. right. exact Hy.
Qed.

Lemma Forall2_len : forall (A B : Type) (R : A -> B -> Prop) l l', Forall2 R l l' -> length l = length l'.
Proof. intros A B R l l' H. induction H; simpl; congruence. Qed.

Lemma in_prodl : forall (A : Type) (ls : list (list A)) (x : list A),
  In x (prodl ls) <-> Forall2 (fun xi li => In xi li) x ls.
Proof.
  intros A ls. induction ls as [|l ls IH]; intro x; simpl.
  - split; [intros [H|[]]; subst; constructor|]. intro H. inversion H. left. reflexivity.
  - rewrite in_flat_map. split.
    + intros [tl [Htl Hx]]. apply in_map_iff in Hx. destruct Hx as [a [He Ha]]. subst x.
      constructor; [exact Ha|]. apply IH. exact Htl.
    + intro H. inversion H as [|a l' tl ls' Ha Htl]; subst. exists tl. split; [apply IH; exact Htl|].
      apply in_map_iff. exists a. split; [reflexivity|exact Ha].
Qed.

Lemma prodl_length : forall (A : Type) (ls : list (list A)),
  length (prodl ls) = nprod (map (@length A) ls).
Proof.
  intros A ls. induction ls as [|l ls IH]; simpl; [reflexivity|].
  rewrite <- IH. clear IH. induction (prodl ls) as [|t ts IHt]; simpl; [lia|].
  rewrite app_length, map_length, IHt. lia.
Qed.

Lemma in_locations : forall shape loc,
  In loc (locations_in shape) <-> Forall2 (fun i m => i < m) loc shape.
Proof.
  intros shape loc. unfold locations_in. rewrite in_prodl. revert loc.
  induction shape as [|m ms IH]; intro loc; simpl; split; intro H; inversion H; subst; constructor.
  - apply in_seq in H3. lia.
  - apply IH. assumption.
  - apply in_seq. lia.
  - apply IH. assumption.
Qed.

Lemma locations_length : forall shape, length (locations_in shape) = nprod shape.
Proof.
  intro shape. unfold locations_in. rewrite prodl_length, map_map. f_equal.
  induction shape as [|m ms IH]; simpl; [reflexivity|]. rewrite seq_length, IH. reflexivity.
Qed.

Lemma seq_shift_add : forall c m, map (fun i => i + c) (seq 0 m) = seq c m.
Proof.
  intros c m. revert c. induction m as [|m IH]; intro c; [reflexivity|].
  rewrite !seq_S, map_app, IH. simpl. f_equal. f_equal. lia.
Qed.

Lemma flat_map_seq_blocks : forall m n a, flat_map (fun k => seq (m * k) m) (seq a n) = seq (m * a) (m * n).
Proof.
  intros m n. induction n as [|n IH]; intro a; simpl.
  - rewrite Nat.mul_0_r. reflexivity.
  - rewrite IH. replace (m * S n) with (m + m * n) by lia. rewrite seq_app. f_equal. f_equal. lia.
Qed.

(* locations_x_fastest: the k-th location (k = 0, 1, ...) is the one whose mixed-radix number, first index least
   significant, is k — i.e. the first direction varies fastest *)
Theorem locations_x_fastest : forall shape,
  map (flat_index shape) (locations_in shape) = seq 0 (nprod shape).
Proof.
  induction shape as [|m ms IH]; [reflexivity|].
  change (locations_in (m :: ms)) with (flat_map (fun tl => map (fun x => x :: tl) (seq 0 m)) (locations_in ms)).
  rewrite map_flat_map.
  rewrite (flat_map_ext_in _ _ _ (fun tl => seq (m * flat_index ms tl) m)).
  - rewrite <- (flat_map_map _ _ _ (flat_index ms) (fun k => seq (m * k) m)). rewrite IH.
    rewrite flat_map_seq_blocks. simpl. rewrite Nat.mul_0_r. reflexivity.
  - intros tl _. rewrite map_map. simpl. apply seq_shift_add.
Qed.

Theorem nth_location_index : forall shape k, k < nprod shape ->
  flat_index shape (nth k (locations_in shape) []) = k.
Proof.
  intros shape k Hk.
  pose proof (f_equal (fun l => nth k l 0) (locations_x_fastest shape)) as H. simpl in H.
  rewrite seq_nth in H by exact Hk. simpl in H. rewrite <- H at 2.
  rewrite (nth_indep _ 0 (flat_index shape [])) by (rewrite map_length, locations_length; exact Hk).
  symmetry. apply map_nth.
Qed.

Theorem location_of_index : forall shape loc, Forall2 (fun i m => i < m) loc shape ->
  flat_index shape loc < nprod shape /\ nth (flat_index shape loc) (locations_in shape) [] = loc.
Proof.
  intros shape loc H. apply in_locations in H.
  destruct (In_nth _ _ [] H) as [k [Hk He]]. rewrite locations_length in Hk.
  rewrite <- He. rewrite nth_location_index by exact Hk. split; [exact Hk|reflexivity].
Qed.

Lemma dot_map_mul : forall m a l, dot a (map (Nat.mul m) l) = m * dot a l.
Proof.
  intros m a. induction a as [|x a IH]; intro l; destruct l as [|y l]; simpl; try lia.
  rewrite IH. lia.
Qed.

(* the code's sum of index * multiplier is the mixed-radix number *)
Lemma dot_mults_flat : forall shape loc, dot loc (mults shape) = flat_index shape loc.
Proof.
  induction shape as [|m ms IH]; intro loc; destruct loc as [|i is']; simpl; try reflexivity.
  rewrite dot_map_mul, IH. lia.
Qed.

(* ================================================================================================ *)
(* 2. connectivity                                                                                  *)
(* ================================================================================================ *)

(* the point (in the lattice of the meshed directions) at location loc + delta *)
Definition corner (ne loc delta : list nat) : nat := flat_index (map S ne) (map2 Nat.add loc delta).
(* the 2^d corners of the cell at `loc`, delta running x-fastest over {0,1}^d: pixel / voxel order *)
Definition corners_spec (ne loc : list nat) : list nat :=
  map (corner ne loc) (locations_in (repeat 2 (length ne))).

Lemma voxel_corners_correct : forall ne loc,
  1 <= length ne <= 3 -> length loc = length ne -> voxel_corners ne loc = corners_spec ne loc.
Proof.
  intros ne loc Hd Hl. unfold voxel_corners, corners_spec, corner, p0_of.
  destruct ne as [|a [|b [|c [|? ?]]]]; simpl in Hd; try lia;
    destruct loc as [|i [|j [|k [|? ?]]]]; simpl in Hl; try lia; clear Hd Hl.
  - vm_compute locations_in. cbn -[Nat.mul Nat.add]. repeat (apply (f_equal2 (@cons nat)); [ring|]); reflexivity.
  - vm_compute locations_in. cbn -[Nat.mul Nat.add]. repeat (apply (f_equal2 (@cons nat)); [ring|]); reflexivity.
  - vm_compute locations_in. cbn -[Nat.mul Nat.add]. repeat (apply (f_equal2 (@cons nat)); [ring|]); reflexivity.
Qed.

(* the reordering applied for quadrilaterals / hexahedra *)
Definition order_of (k : grid_kind) (dim : nat) (row : list nat) : list nat :=
  match k, dim with
  | Curvilinear, 2 => reorder quad_pixel_map row
  | Curvilinear, 3 => reorder hex_voxel_map row
  | _, _ => row
  end.

(* connectivity_correct: for d = 1, 2, 3 meshed directions (zero extents in the others), the c-th cell is the one at the
   c-th lattice location (x fastest) and its corners are exactly the points at location + {0,1}^d, in pixel / voxel order
   for image and rectilinear grids and in VTK quad / hexahedron order for structured grids *)
Theorem connectivity_correct : forall k extents,
  let ne := nonzero_extents extents in
  1 <= length ne <= 3 ->
  connectivity k (cell_type_of k (length ne)) extents
  = map (fun loc => order_of k (length ne) (corners_spec ne loc)) (locations_in ne)
  /\ length (connectivity k (cell_type_of k (length ne)) extents) = num_cells extents
  /\ (forall ct, ct <> cell_type_of k (length ne) -> connectivity k ct extents = []).
Proof.
  intros k extents ne Hd. split; [|split].
  - unfold connectivity. fold ne. rewrite Nat.eqb_refl.
    assert (Hrows : map (voxel_corners ne) (locations_in ne) = map (corners_spec ne) (locations_in ne)).
    { apply map_ext_in. intros loc Hloc. apply voxel_corners_correct; [exact Hd|].
      apply in_locations in Hloc. apply (Forall2_len _ _ _ _ _ Hloc). }
    rewrite Hrows.
    destruct k; destruct (length ne) as [|[|[|[|n]]]] eqn:E; try lia; simpl; try rewrite map_map; reflexivity.
  - unfold connectivity. fold ne. rewrite Nat.eqb_refl. unfold num_cells. fold ne.
    destruct (cell_type_of k (length ne) =? 9); [|destruct (cell_type_of k (length ne) =? 12)];
      repeat rewrite map_length; apply locations_length.
  - intros ct Hct. unfold connectivity. fold ne. apply Nat.eqb_neq in Hct. rewrite Hct. reflexivity.
Qed.

(* quadrilateral: counter-clockwise; hexahedron: bottom face counter-clockwise, then the top face *)
Lemma quad_order : forall a b i j,
  order_of Curvilinear 2 (corners_spec [a; b] [i; j])
  = [corner [a; b] [i; j] [0; 0]; corner [a; b] [i; j] [1; 0]; corner [a; b] [i; j] [1; 1]; corner [a; b] [i; j] [0; 1]].
Proof. intros. reflexivity. Qed.

Lemma hex_order : forall a b c i j k,
  order_of Curvilinear 3 (corners_spec [a; b; c] [i; j; k])
  = map (corner [a; b; c] [i; j; k]) [[0;0;0]; [1;0;0]; [1;1;0]; [0;1;0]; [0;0;1]; [1;0;1]; [1;1;1]; [0;1;1]].
Proof. intros. reflexivity. Qed.

(* the numbering of the points of the meshed sub-lattice is the numbering of the full 3-d point lattice (x fastest over
   all three directions) restricted to index 0 in the flat directions *)
Fixpoint embed (extents loc : list nat) : list nat :=
  match extents with
  | [] => []
  | e :: es => if 0 <? e
               then match loc with i :: is' => i :: embed es is' | [] => 0 :: embed es [] end
               else 0 :: embed es loc
  end.

Lemma flat_index_nil : forall shape, flat_index shape [] = 0.
Proof. destruct shape; reflexivity. Qed.

Theorem embed_index : forall extents loc,
  flat_index (map S extents) (embed extents loc) = flat_index (map S (nonzero_extents extents)) loc.
Proof.
  induction extents as [|e es IH]; intro loc; simpl; [destruct loc; reflexivity|].
  destruct (0 <? e) eqn:E; simpl.
  - destruct loc as [|i is']; simpl; rewrite IH; [|reflexivity].
    rewrite flat_index_nil. lia.
  - rewrite IH. apply Nat.ltb_ge in E. assert (e = 0) by lia. subst. lia.
Qed.

Theorem num_points_locations : forall extents, length (locations_in (map S extents)) = num_points extents.
Proof. intro. apply locations_length. Qed.

(* ================================================================================================ *)
(* 3. points of image and rectilinear grids                                                         *)
(* ================================================================================================ *)

Lemma map_nth_seq : forall (A : Type) (d : A) (l : list A), map (fun i => nth i l d) (seq 0 (length l)) = l.
Proof.
  intros A d l. induction l as [|x l IH]; [reflexivity|].
  simpl. f_equal. rewrite <- seq_shift, map_map. exact IH.
Qed.

Lemma prodl_map : forall (A B : Type) (fs : list (A -> B)) (ls : list (list A)),
  length fs = length ls ->
  prodl (map2 (fun f l => map f l) fs ls) = map (map2 (fun f x => f x) fs) (prodl ls).
Proof.
  intros A B fs. induction fs as [|f fs IH]; intros ls Hl; destruct ls as [|l ls]; simpl in Hl; try discriminate.
  - reflexivity.
  - simpl. rewrite IH by lia. rewrite flat_map_map, map_flat_map.
    apply flat_map_ext_in. intros tl _. rewrite !map_map. reflexivity.
Qed.

Definition pick {A : Type} (d : A) (ls : list (list A)) (loc : list nat) : list A :=
  map2 (fun l i => nth i l d) ls loc.

(* a product of lists enumerates, x fastest, the tuples picked by the lattice locations *)
Lemma prodl_as_locations : forall (A : Type) (d : A) (ls : list (list A)),
  prodl ls = map (pick d ls) (locations_in (map (@length A) ls)).
Proof.
  intros A d ls.
  assert (H1 : ls = map2 (fun f l => map f l) (map (fun l i => nth i l d) ls) (map (fun l => seq 0 (length l)) ls)).
  { induction ls as [|l ls IH]; simpl; [reflexivity|]. rewrite map_nth_seq. f_equal. exact IH. }
  rewrite H1 at 1. rewrite prodl_map by (rewrite !map_length; reflexivity).
  unfold locations_in. rewrite map_map.
  apply map_ext. intro loc. unfold pick. clear H1. revert loc.
  induction ls as [|l ls IH]; intro loc; destruct loc as [|i loc]; simpl; try reflexivity.
  f_equal. apply IH.
Qed.

(* rect_points_spec: point number flat_index(loc) of a rectilinear grid is (x_i, y_j, z_k), x fastest *)
Theorem rect_points_spec : forall ordinates,
  let ords := map fix_ordinates ordinates in
  rect_points ordinates = map (pick 0%Q ords) (locations_in (map (@length Q) ords))
  /\ forall loc, Forall2 (fun i o => i < length o) loc ords ->
       nth (flat_index (map (@length Q) ords) loc) (rect_points ordinates) [] = pick 0%Q ords loc.
Proof.
  intros ordinates ords. assert (H : rect_points ordinates = map (pick 0%Q ords) (locations_in (map (@length Q) ords))).
  { unfold rect_points. fold ords. apply prodl_as_locations. }
  split; [exact H|]. intros loc Hloc. rewrite H.
  assert (Hr : Forall2 (fun i m => i < m) loc (map (@length Q) ords)).
  { clear H. induction Hloc; simpl; constructor; assumption. }
  destruct (location_of_index _ _ Hr) as [Hlt Hnth].
  rewrite (nth_indep _ [] (pick 0%Q ords [])) by (rewrite map_length, locations_length; exact Hlt).
  rewrite map_nth, Hnth. reflexivity.
Qed.

(* image_points_spec: point number flat_index(loc) of an image grid is origin + basis . (spacing * loc) *)
Theorem image_points_spec : forall o s B extents loc,
  Forall2 (fun i e => i <= e) loc extents ->
  nth (flat_index (map S extents) loc) (image_points o s B extents) [] = image_point o s B loc
  /\ length (image_points o s B extents) = num_points extents.
Proof.
  intros o s B extents loc Hloc.
  assert (Hr : Forall2 (fun i m => i < m) loc (map S extents)).
  { induction Hloc; simpl; constructor; [lia|assumption]. }
  destruct (location_of_index _ _ Hr) as [Hlt Hnth]. unfold image_points. split.
  - rewrite (nth_indep _ [] (image_point o s B [])) by (rewrite map_length, locations_length; exact Hlt).
    rewrite map_nth, Hnth. reflexivity.
  - rewrite map_length. apply locations_length.
Qed.

Lemma Forall2_map_same : forall (A B C : Type) (R : B -> C -> Prop) (f : A -> B) (g : A -> C) l,
  (forall x, In x l -> R (f x) (g x)) -> Forall2 R (map f l) (map g l).
Proof.
  induction l as [|x l IH]; intro H; simpl; constructor.
  - apply H. left. reflexivity.
  - apply IH. intros y Hy. apply H. right. exact Hy.
Qed.

(* image_rect_agree: an image grid with the standard basis has exactly (in Q) the points of the rectilinear grid whose
   ordinates are origin + spacing * i *)
Theorem image_rect_agree : forall ox oy oz sx sy sz ex ey ez,
  Forall2 (Forall2 Qeq)
    (image_points [ox; oy; oz] [sx; sy; sz] identity3 [ex; ey; ez])
    (rect_points (ordinates_of [ox; oy; oz] [sx; sy; sz] [ex; ey; ez])).
Proof.
  intros.
  set (fx := fun i => (ox + sx * inject_nat i)%Q).
  set (fy := fun i => (oy + sy * inject_nat i)%Q).
  set (fz := fun i => (oz + sz * inject_nat i)%Q).
  assert (H : rect_points (ordinates_of [ox; oy; oz] [sx; sy; sz] [ex; ey; ez])
              = map (map2 (fun f x => f x) [fx; fy; fz]) (locations_in [S ex; S ey; S ez])).
  { unfold locations_in. cbn [map]. rewrite <- prodl_map by reflexivity. reflexivity. }
  rewrite H. unfold image_points. cbn [map]. apply Forall2_map_same.
  intros loc Hloc. apply in_locations in Hloc.
  inversion Hloc as [|i ? loc1 ? _ H1]; subst. inversion H1 as [|j ? loc2 ? _ H2]; subst.
  inversion H2 as [|k ? loc3 ? _ H3]; subst. inversion H3; subst.
  unfold image_point, identity3, mat_vec, fx, fy, fz. cbn [map map2 qdot].
  repeat constructor; ring.
Qed.

(* ================================================================================================ *)
(* 4. products distribute over concatenation (up to permutation)                                    *)
(* ================================================================================================ *)

Lemma Permutation_flat_map_ext : forall (A B : Type) (f g : A -> list B) l,
  (forall x, In x l -> Permutation (f x) (g x)) -> Permutation (flat_map f l) (flat_map g l).
Proof.
  induction l as [|x l IH]; intro H; simpl; [constructor|].
  apply Permutation_app; [apply H; left; reflexivity|]. apply IH. intros y Hy. apply H. right. exact Hy.
Qed.

Lemma Permutation_flat_map_l : forall (A B : Type) (f : A -> list B) l l',
  Permutation l l' -> Permutation (flat_map f l) (flat_map f l').
Proof.
  intros A B f l l' H. induction H; simpl.
  - constructor.
  - apply Permutation_app_head. exact IHPermutation.
  - rewrite !app_assoc. apply Permutation_app_tail. apply Permutation_app_comm.
  - eapply Permutation_trans; eassumption.
Qed.

Lemma flat_map_app_perm : forall (A B : Type) (h1 h2 : A -> list B) l,
  Permutation (flat_map (fun b => h1 b ++ h2 b) l) (flat_map h1 l ++ flat_map h2 l).
Proof.
  induction l as [|x l IH]; simpl; [constructor|].
  rewrite <- !app_assoc. apply Permutation_app_head.
  eapply Permutation_trans; [apply Permutation_app_head; exact IH|].
  apply Permutation_app_swap_app.
Qed.

Lemma flat_map_swap : forall (A B C : Type) (g : A -> B -> list C) la lb,
  Permutation (flat_map (fun a => flat_map (fun b => g a b) lb) la)
              (flat_map (fun b => flat_map (fun a => g a b) la) lb).
Proof.
  induction la as [|a la IH]; intro lb; simpl.
  - rewrite flat_map_const_nil. constructor.
  - eapply Permutation_trans; [|apply Permutation_sym; apply flat_map_app_perm].
    apply Permutation_app_head. apply IH.
Qed.

(* axes: per direction the list of piece positions and, for every position, the list of entities it holds.
   The blocks of all pieces (piece positions x fastest) together are a permutation of the product of the per-direction
   concatenations *)
Section ProdConcat.
  Context {P A : Type}.
  Definition blocks (axes : list (list P * (P -> list A))) (loc : list P) : list (list A) :=
    prodl (map2 (fun ax p => snd ax p) axes loc).

  Lemma prodl_concat_perm : forall axes : list (list P * (P -> list A)),
    Permutation (flat_map (blocks axes) (prodl (map fst axes)))
                (prodl (map (fun ax => flat_map (snd ax) (fst ax)) axes)).
  Proof.
    induction axes as [|[L f] rest IH]; [simpl; constructor; constructor|].
    cbn [map fst snd prodl].
    rewrite flat_map_flat_map.
    eapply Permutation_trans;
      [|apply Permutation_flat_map_l; exact IH].
    rewrite flat_map_flat_map.
    apply Permutation_flat_map_ext. intros tl _.
    rewrite flat_map_map. unfold blocks at 1. cbn [map2 snd prodl].
    (* left: over p then over t; right: over t then over p *)
    eapply Permutation_trans; [apply (flat_map_swap _ _ _ (fun p t => map (fun x => x :: t) (f p)))|].
    apply Permutation_flat_map_ext. intros t _.
    rewrite map_flat_map. apply Permutation_refl.
  Qed.
End ProdConcat.

(* ================================================================================================ *)
(* 5. StructuredFieldMerger: the index sets of the pieces                                           *)
(* ================================================================================================ *)

(* positions covered by piece p along one direction: cells [off, off + size), points [off, off + size] *)
Definition axis_range (extra : nat) (sizes : list nat) (p : nat) : list nat :=
  seq (nsum (firstn p sizes)) (extra + nth p sizes 0).

Definition merger_axes (extra : nat) (dec : list (list nat)) : list (list nat * (nat -> list nat)) :=
  map (fun sizes => (seq 0 (length sizes), axis_range extra sizes)) dec.

Lemma axis_cells_concat : forall sizes off,
  flat_map (fun p => seq (off + nsum (firstn p sizes)) (nth p sizes 0)) (seq 0 (length sizes)) = seq off (nsum sizes).
Proof.
  induction sizes as [|s rest IH]; intro off; [reflexivity|].
  cbn [length]. rewrite <- cons_seq. cbn [flat_map firstn nsum fold_right nth]. rewrite Nat.add_0_r.
  rewrite <- seq_shift, flat_map_map.
  rewrite (flat_map_ext_in _ _ _ (fun p => seq ((off + s) + nsum (firstn p rest)) (nth p rest 0))).
  - rewrite IH. rewrite <- seq_app. reflexivity.
  - intros p _. cbn [firstn nth]. change (nsum (s :: firstn p rest)) with (s + nsum (firstn p rest)). f_equal. lia.
Qed.

Lemma shift_prodl : forall off shape, length off = length shape ->
  map (fun it => map2 Nat.add it off) (prodl (map (seq 0) shape)) = prodl (map2 (fun o s => seq o s) off shape).
Proof.
  induction off as [|o off IH]; intros [|s shape] Hl; simpl in Hl; try discriminate; [reflexivity|].
  cbn [map map2 prodl]. rewrite <- IH by lia. rewrite map_flat_map, flat_map_map.
  apply flat_map_ext_in. intros tl _. rewrite <- (seq_shift_add o s), !map_map. reflexivity.
Qed.

(* the code's index list of a piece = the mixed-radix numbers of the product of its per-direction ranges *)
Lemma pei_as_prodl : forall extra dec loc, length loc = length dec ->
  piece_entity_indices dec loc (map (Nat.add extra) (piece_shape dec loc)) (map (Nat.add extra) (merged_cell_shape dec))
  = map (flat_index (map (Nat.add extra) (merged_cell_shape dec))) (blocks (merger_axes extra dec) loc).
Proof.
  intros extra dec loc Hl. unfold piece_entity_indices.
  assert (Hb : blocks (merger_axes extra dec) loc
               = map (fun it => map2 Nat.add it (piece_index_offsets dec loc))
                     (locations_in (map (Nat.add extra) (piece_shape dec loc)))).
  { unfold blocks, locations_in. rewrite shift_prodl.
    - f_equal. unfold merger_axes, piece_index_offsets, piece_shape, axis_range. clear Hl. revert loc.
      induction dec as [|s dec IHd]; intros [|p loc]; simpl; try reflexivity.
      f_equal. apply IHd.
    - unfold piece_index_offsets, piece_shape. rewrite map_length. clear Hl. revert loc.
      induction dec as [|s dec IHd]; intros [|p loc]; simpl; try reflexivity. f_equal. apply IHd. }
  rewrite Hb, map_map. apply map_ext. intro it. apply dot_mults_flat.
Qed.

Lemma map_add0 : forall l, map (Nat.add 0) l = l.
Proof. intro l. exact (map_id l). Qed.

Lemma piece_loc_length : forall dec loc, In loc (locations_in (pieces_shape dec)) -> length loc = length dec.
Proof.
  intros dec loc H. apply in_locations in H. apply Forall2_len in H. unfold pieces_shape in H.
  rewrite map_length in H. exact H.
Qed.

Lemma merger_axes_fst : forall extra dec, prodl (map fst (merger_axes extra dec)) = locations_in (pieces_shape dec).
Proof. intros. unfold merger_axes, locations_in, pieces_shape. rewrite !map_map. reflexivity. Qed.

(* piece_indices_partition (cells): for EVERY decomposition (any number of directions, any sizes) the cell index lists of
   the pieces, taken together, are a permutation of 0 .. N_cells - 1: every cell index belongs to exactly one piece *)
Theorem piece_indices_partition : forall dec,
  Permutation
    (flat_map (fun loc => piece_entity_indices dec loc (piece_shape dec loc) (merged_cell_shape dec))
              (locations_in (pieces_shape dec)))
    (seq 0 (nprod (merged_cell_shape dec))).
Proof.
  intro dec.
  rewrite (flat_map_ext_in _ _ _ (fun loc => map (flat_index (merged_cell_shape dec)) (blocks (merger_axes 0 dec) loc))).
  2: { intros loc Hloc. pose proof (pei_as_prodl 0 dec loc (piece_loc_length dec loc Hloc)) as H.
       rewrite !map_add0 in H. exact H. }
  rewrite <- map_flat_map. rewrite <- merger_axes_fst with (extra := 0).
  eapply Permutation_trans; [apply Permutation_map; apply prodl_concat_perm|].
  assert (Hax : map (fun ax : list nat * (nat -> list nat) => flat_map (snd ax) (fst ax)) (merger_axes 0 dec)
                = map (seq 0) (merged_cell_shape dec)).
  { unfold merger_axes, merged_cell_shape. rewrite !map_map. apply map_ext. intro sizes. cbn [fst snd].
    unfold axis_range. apply (axis_cells_concat sizes 0). }
  rewrite Hax. fold (locations_in (merged_cell_shape dec)). rewrite locations_x_fastest. apply Permutation_refl.
Qed.

Lemma nsum_firstn_le : forall sizes p, p < length sizes -> nsum (firstn p sizes) + nth p sizes 0 <= nsum sizes.
Proof.
  induction sizes as [|s rest IH]; intros p Hp; simpl in Hp; [lia|].
  destruct p as [|p]; simpl; [lia|]. specialize (IH p ltac:(lia)). unfold nsum in *. lia.
Qed.

Lemma axis_point_cover : forall sizes x, sizes <> [] -> x <= nsum sizes ->
  exists p, p < length sizes /\ In x (axis_range 1 sizes p).
Proof.
  induction sizes as [|s rest IH]; intros x Hne Hx; [congruence|].
  destruct (Nat.le_gt_cases x s) as [Hle|Hgt].
  - exists 0. split; [simpl; lia|]. unfold axis_range. apply in_seq. simpl. lia.
  - change (nsum (s :: rest)) with (s + nsum rest) in Hx.
    assert (Hr : rest <> []) by (intro; subst; simpl in Hx; lia).
    destruct (IH (x - s) Hr ltac:(lia)) as [p [Hp Hin]].
    exists (S p). split; [simpl; lia|]. unfold axis_range in *. cbn [firstn nth].
    change (nsum (s :: firstn p rest)) with (s + nsum (firstn p rest)).
    apply in_seq in Hin. apply in_seq. lia.
Qed.

Lemma cover_loc : forall dec x, Forall (fun s => s <> []) dec ->
  Forall2 (fun xi sizes => xi <= nsum sizes) x dec ->
  exists loc, Forall2 (fun p sizes => p < length sizes) loc dec /\
              Forall2 (fun xi r => In xi r) x (map2 (fun ax p => snd ax p) (merger_axes 1 dec) loc).
Proof.
  intros dec x Hne H. induction H as [|xi sizes x dec Hxi Hrest IH].
  - exists []. split; constructor.
  - inversion Hne; subst. destruct (IH H2) as [loc [Hl Hin]].
    destruct (axis_point_cover sizes xi H1 Hxi) as [p [Hp Hpi]].
    exists (p :: loc). split; constructor; assumption.
Qed.

Lemma Forall2_weaken : forall (A B : Type) (R R' : A -> B -> Prop) la lb,
  (forall a b, R a b -> R' a b) -> Forall2 R la lb -> Forall2 R' la lb.
Proof. intros A B R R' la lb Hi H. induction H; constructor; auto. Qed.

Lemma Forall2_map_r : forall (A B C : Type) (R : A -> C -> Prop) (f : B -> C) la lb,
  Forall2 (fun a b => R a (f b)) la lb <-> Forall2 R la (map f lb).
Proof.
  intros A B C R f la lb. split.
  - intro H. induction H; simpl; constructor; assumption.
  - revert la. induction lb as [|b lb IH]; intros la H; inversion H; subst; constructor; [assumption|apply IH; assumption].
Qed.

(* piece_indices_partition (points): the point index lists of the pieces cover 0 .. N_points - 1 (with overlaps on the
   lattice points shared between neighbouring pieces) *)
Theorem piece_indices_cover_points : forall dec, Forall (fun s => s <> []) dec ->
  forall k, k < nprod (merged_point_shape dec) ->
  exists loc, In loc (locations_in (pieces_shape dec)) /\
    In k (piece_entity_indices dec loc (map S (piece_shape dec loc)) (merged_point_shape dec)).
Proof.
  intros dec Hne k Hk. unfold merged_point_shape in *.
  set (x := nth k (locations_in (map S (merged_cell_shape dec))) []).
  assert (Hx : In x (locations_in (map S (merged_cell_shape dec)))) by (apply nth_In; rewrite locations_length; exact Hk).
  assert (Hkx : flat_index (map S (merged_cell_shape dec)) x = k) by (apply nth_location_index; exact Hk).
  apply in_locations in Hx.
  assert (Hx' : Forall2 (fun xi sizes => xi <= nsum sizes) x dec).
  { unfold merged_cell_shape in Hx. rewrite map_map in Hx. apply Forall2_map_r in Hx.
    eapply Forall2_weaken; [|exact Hx]. simpl. intros; lia. }
  destruct (cover_loc dec x Hne Hx') as [loc [Hl Hin]].
  exists loc. split.
  - apply in_locations. unfold pieces_shape. apply (proj1 (Forall2_map_r _ _ _ lt (@length nat) loc dec)). exact Hl.
  - change (map S (piece_shape dec loc)) with (map (Nat.add 1) (piece_shape dec loc)).
    change (map S (merged_cell_shape dec)) with (map (Nat.add 1) (merged_cell_shape dec)).
    rewrite pei_as_prodl by (exact (Forall2_len _ _ _ loc dec Hl)).
    rewrite <- Hkx. apply in_map. unfold blocks. apply in_prodl. exact Hin.
Qed.

(* every index of a piece is a valid index of the merged array *)
Lemma pei_in_range : forall extra dec loc k, extra <= 1 -> In loc (locations_in (pieces_shape dec)) ->
  In k (piece_entity_indices dec loc (map (Nat.add extra) (piece_shape dec loc)) (map (Nat.add extra) (merged_cell_shape dec))) ->
  k < nprod (map (Nat.add extra) (merged_cell_shape dec)).
Proof.
  intros extra dec loc k He Hloc Hk.
  rewrite pei_as_prodl in Hk by (apply piece_loc_length; exact Hloc).
  apply in_map_iff in Hk. destruct Hk as [x [Hkx Hx]]. subst k.
  apply location_of_index. unfold blocks in Hx. apply in_prodl in Hx.
  apply in_locations in Hloc. unfold pieces_shape, merger_axes, merged_cell_shape in *.
  clear -Hx Hloc He. revert loc x Hx Hloc.
  induction dec as [|sizes dec IH]; intros loc x Hx Hloc.
  - simpl in Hloc. inversion Hloc; subst. simpl in Hx. inversion Hx; subst. constructor.
  - simpl in Hloc. inversion Hloc as [|p m loc' ms Hp Hloc']; subst.
    simpl in Hx. inversion Hx as [|xi r x' rs Hxi Hx']; subst.
    simpl. constructor.
    + unfold axis_range in Hxi. apply in_seq in Hxi. pose proof (nsum_firstn_le sizes p Hp). lia.
    + apply (IH loc' x' Hx' Hloc').
Qed.

(* ================================================================================================ *)
(* 6. StructuredFieldMerger._merge                                                                  *)
(* ================================================================================================ *)

Section Scatter.
  Variable V : Type.
  Variable z : V.

  Lemma upd_length : forall (l : list V) i v, length (upd l i v) = length l.
  Proof. induction l as [|h t IH]; intros [|i] v; simpl; try reflexivity. rewrite IH. reflexivity. Qed.

  Lemma upd_nth_same : forall (l : list V) i v, i < length l -> nth i (upd l i v) z = v.
  Proof. induction l as [|h t IH]; intros [|i] v Hi; simpl in *; try lia; [reflexivity|]. apply IH. lia. Qed.

  Lemma upd_nth_other : forall (l : list V) i k v, k <> i -> nth k (upd l i v) z = nth k l z.
  Proof.
    induction l as [|h t IH]; intros [|i] [|k] v Hk; simpl; try reflexivity; try congruence.
    apply IH. congruence.
  Qed.

  Lemma scatter_spec : forall (h : nat -> V) idx (l : list V),
    (forall i, In i idx -> i < length l) ->
    length (scatter l idx (map h idx)) = length l /\
    forall k, k < length l ->
      (In k idx -> nth k (scatter l idx (map h idx)) z = h k) /\
      (~ In k idx -> nth k (scatter l idx (map h idx)) z = nth k l z).
  Proof.
    intros h idx. induction idx as [|i idx IH]; intros l Hr; simpl.
    - split; [reflexivity|]. intros k _. split; [intros []|reflexivity].
    - assert (Hi : i < length l) by (apply Hr; left; reflexivity).
      destruct (IH (upd l i (h i))) as [Hlen Hk].
      { intros j Hj. rewrite upd_length. apply Hr. right. exact Hj. }
      rewrite upd_length in Hlen, Hk. split; [exact Hlen|].
      intros k Hkl. destruct (Hk k Hkl) as [H1 H2]. split.
      + intros [He|Hin].
        * subst k. destruct (in_dec Nat.eq_dec i idx) as [Hi'|Hi']; [apply H1; exact Hi'|].
          rewrite H2 by exact Hi'. apply upd_nth_same. exact Hi.
        * apply H1. exact Hin.
      + intro Hn. rewrite H2 by (intro; apply Hn; right; assumption).
        apply upd_nth_other. intro; subst; apply Hn; left; reflexivity.
  Qed.

  (* writing, piece after piece, the restriction of g to the piece's indices over an initial array gives g wherever some
     piece wrote (later writes to a shared index write the same value) *)
  Lemma scatter_fold_global : forall (g : list V) (idxs : list (list nat)) (acc : list V),
    length acc = length g ->
    (forall idx, In idx idxs -> forall i, In i idx -> i < length g) ->
    let r := fold_left (fun a idx => scatter a idx (map (fun k => nth k g z) idx)) idxs acc in
    length r = length g /\
    forall k, k < length g -> (nth k acc z = nth k g z \/ exists idx, In idx idxs /\ In k idx) -> nth k r z = nth k g z.
  Proof.
    intros g idxs. induction idxs as [|idx idxs IH]; intros acc Hlen Hr; simpl.
    - split; [exact Hlen|]. intros k _ [H|[idx [[] _]]]. exact H.
    - destruct (scatter_spec (fun k => nth k g z) idx acc) as [Hl Hs].
      { intros i Hi. rewrite Hlen. apply (Hr idx); [left; reflexivity|exact Hi]. }
      destruct (IH (scatter acc idx (map (fun k => nth k g z) idx))) as [Hl' Hk'].
      { rewrite Hl. exact Hlen. }
      { intros idx' Hin. apply Hr. right. exact Hin. }
      split; [exact Hl'|]. intros k Hk Hor. apply Hk'; [exact Hk|].
      rewrite <- Hlen in Hk. destruct (Hs k Hk) as [H1 H2].
      destruct (in_dec Nat.eq_dec k idx) as [Hin|Hnin]; [left; apply H1; exact Hin|].
      destruct Hor as [Ha|[idx' [[He|Hin'] Hki]]].
      + left. rewrite H2 by exact Hnin. exact Ha.
      + subst idx'. contradiction.
      + right. exists idx'. split; assumption.
  Qed.
End Scatter.

Lemma fold_left_ext_in : forall (A B : Type) (f g : A -> B -> A) (l : list B) (a : A),
  (forall acc x, In x l -> f acc x = g acc x) -> fold_left f l a = fold_left g l a.
Proof.
  induction l as [|x l IH]; intros a H; simpl; [reflexivity|].
  rewrite H by (left; reflexivity). apply IH. intros acc y Hy. apply H. right. exact Hy.
Qed.

Lemma fold_left_map : forall (A B C : Type) (f : A -> C -> A) (h : B -> C) (l : list B) (a : A),
  fold_left (fun acc x => f acc (h x)) l a = fold_left f (map h l) a.
Proof. induction l as [|x l IH]; intro a; simpl; [reflexivity|]. apply IH. Qed.

Lemma entity_shape_add : forall is_point s, entity_shape is_point s = map (Nat.add (if is_point then 1 else 0)) s.
Proof. intros [|] s; simpl; [reflexivity|symmetry; apply map_add0]. Qed.

(* structured_merge_is_global: if the field handed in for every piece is the restriction of a global (x-fastest numbered)
   field g to the piece's entities, the merged field is g — for point and for cell fields, for every decomposition *)
Theorem structured_merge_is_global : forall (V : Type) (zero : V) (dec : list (list nat)) (is_point : bool)
    (g : list V) (field_of : list nat -> list V),
  Forall (fun s => s <> []) dec ->
  length g = nprod (entity_shape is_point (merged_cell_shape dec)) ->
  (forall loc, In loc (locations_in (pieces_shape dec)) ->
     field_of loc = map (fun k => nth k g zero)
                        (piece_entity_indices dec loc (entity_shape is_point (piece_shape dec loc))
                                              (entity_shape is_point (merged_cell_shape dec)))) ->
  smerge zero dec is_point field_of = g.
Proof.
  intros V zero dec is_point g field_of Hne Hlen Hf. unfold smerge.
  set (mshape := entity_shape is_point (merged_cell_shape dec)) in *.
  set (idx_of := fun loc => piece_entity_indices dec loc (entity_shape is_point (piece_shape dec loc)) mshape).
  rewrite (fold_left_ext_in _ _ _ (fun acc loc => scatter acc (idx_of loc) (map (fun k => nth k g zero) (idx_of loc)))).
  2: { intros acc loc Hloc. rewrite (Hf loc Hloc). reflexivity. }
  rewrite (fold_left_map _ _ _ (fun acc idx => scatter acc idx (map (fun k => nth k g zero) idx)) idx_of).
  rewrite <- Hlen.
  destruct (scatter_fold_global V zero g (map idx_of (locations_in (pieces_shape dec))) (repeat zero (length g))) as [Hl Hk].
  { apply repeat_length. }
  { intros idx Hin i Hi. apply in_map_iff in Hin. destruct Hin as [loc [He Hloc]]. subst idx.
    rewrite Hlen. unfold idx_of, mshape in *. rewrite !entity_shape_add in *.
    apply (pei_in_range _ dec loc i); [destruct is_point; lia|exact Hloc|exact Hi]. }
  apply (nth_ext _ _ zero zero); [exact Hl|]. intros k Hkr. rewrite Hl in Hkr.
  apply Hk; [exact Hkr|]. right.
  assert (Hcov : exists loc, In loc (locations_in (pieces_shape dec)) /\ In k (idx_of loc)).
  { unfold idx_of, mshape in *. destruct is_point.
    - apply (piece_indices_cover_points dec Hne). rewrite Hlen in Hkr. exact Hkr.
    - simpl entity_shape in *. rewrite Hlen in Hkr.
      assert (Hin : In k (seq 0 (nprod (merged_cell_shape dec)))) by (apply in_seq; lia).
      apply (Permutation_in _ (Permutation_sym (piece_indices_partition dec))) in Hin.
      apply in_flat_map in Hin. exact Hin. }
  destruct Hcov as [loc [Hloc Hin]]. exists (idx_of loc). split; [apply in_map; exact Hloc|exact Hin].
Qed.

(* ================================================================================================ *)
(* 7. the readers' cell-index map and the meshio bridge                                             *)
(* ================================================================================================ *)

(* reader_cell_index_map: keyed by the mesh's own cell type the cell data of every structured file can be attached *)
Theorem reader_key_fixed_ok : forall k dim, cell_data_readable reader_key_fixed k dim = true.
Proof. intros. unfold cell_data_readable, reader_key_fixed. apply Nat.eqb_refl. Qed.

(* finding F-C07a: the pinned .vts reader keys the map by QUAD — right only for two meshed directions *)
Theorem reader_key_pinned_refuted :
  cell_data_readable reader_key_pinned Curvilinear 1 = false /\
  cell_data_readable reader_key_pinned Curvilinear 3 = false /\
  cell_data_readable reader_key_pinned Curvilinear 2 = true /\
  (forall dim, cell_data_readable reader_key_pinned Image dim = true) /\
  (forall dim, cell_data_readable reader_key_pinned Rectilinear dim = true).
Proof.
  repeat split; try reflexivity; intro dim; unfold cell_data_readable, reader_key_pinned; apply Nat.eqb_refl.
Qed.

Definition rows_of {A : Type} (t : nat) (pairs : list (nat * list A)) : list A :=
  concat (map snd (filter (fun kv => fst kv =? t) pairs)).
Definition glookup {A : Type} (t : nat) (d : list (nat * list A)) : list A :=
  match find (fun kv => fst kv =? t) d with Some kv => snd kv | None => [] end.

Lemma glookup_dict_app : forall (A : Type) t k (v : list A) d,
  glookup t (dict_app k v d) = if k =? t then glookup t d ++ v else glookup t d.
Proof.
  intros A t k v d. unfold glookup. induction d as [|[k' v'] d IH]; simpl.
  - destruct (k =? t); reflexivity.
  - destruct (k' =? k) eqn:E; simpl.
    + apply Nat.eqb_eq in E. subst k'. destruct (k =? t); reflexivity.
    + destruct (k' =? t) eqn:E2; [|exact IH].
      destruct (k =? t) eqn:E3; [|reflexivity].
      apply Nat.eqb_eq in E2, E3. subst. rewrite Nat.eqb_refl in E. discriminate.
Qed.

Lemma dict_app_keys : forall (A : Type) k (v : list A) d k',
  In k' (map fst (dict_app k v d)) <-> k' = k \/ In k' (map fst d).
Proof.
  intros A k v d k'. induction d as [|[k0 v0] d IH]; simpl.
  - intuition.
  - destruct (k0 =? k) eqn:E; simpl.
    + apply Nat.eqb_eq in E. subst. intuition.
    + rewrite IH. intuition.
Qed.

Lemma group_fold_lookup : forall (A : Type) t (pairs : list (nat * list A)) d,
  glookup t (fold_left (fun d kv => dict_app (fst kv) (snd kv) d) pairs d) = glookup t d ++ rows_of t pairs.
Proof.
  intros A t pairs. induction pairs as [|[k v] pairs IH]; intro d; simpl.
  - unfold rows_of. simpl. rewrite app_nil_r. reflexivity.
  - rewrite IH, glookup_dict_app. unfold rows_of. simpl. destruct (k =? t); simpl.
    + rewrite <- app_assoc. reflexivity.
    + reflexivity.
Qed.

Lemma group_fold_keys : forall (A : Type) t (pairs : list (nat * list A)) d,
  In t (map fst (fold_left (fun d kv => dict_app (fst kv) (snd kv) d) pairs d)) <-> In t (map fst d) \/ In t (map fst pairs).
Proof.
  intros A t pairs. induction pairs as [|[k v] pairs IH]; intro d; simpl.
  - intuition.
  - rewrite IH, dict_app_keys. intuition.
Qed.

(* every block's cells appear in the group of its type, blocks in listing order *)
Lemma group_blocks_in : forall (A : Type) t (pairs : list (nat * list A)),
  In t (map fst pairs) -> In (t, rows_of t pairs) (group_blocks pairs).
Proof.
  intros A t pairs Hin. unfold group_blocks.
  pose proof (group_fold_lookup A t pairs []) as Hl. unfold glookup in Hl at 1. simpl in Hl.
  pose proof (proj2 (group_fold_keys A t pairs []) (or_intror Hin)) as Hk.
  destruct (find (fun kv => fst kv =? t) (fold_left (fun d kv => dict_app (fst kv) (snd kv) d) pairs [])) as [[k v]|] eqn:Ef.
  - apply find_some in Ef. destruct Ef as [Hi He]. simpl in He. apply Nat.eqb_eq in He. subst k.
    simpl in Hl. subst v. exact Hi.
  - apply in_map_iff in Hk. destruct Hk as [[k v] [He Hi]]. simpl in He. subst k.
    pose proof (find_none _ _ Ef _ Hi) as Hc. simpl in Hc. rewrite Nat.eqb_refl in Hc. discriminate.
Qed.

(* from_meshio_blocks (repaired bridge): the cells and the cell data of EVERY block appear in the result, under the block's
   cell type, blocks of one type concatenated in listing order and data aligned with the cells *)
Theorem from_meshio_fixed_blocks : forall (V : Type) (blocks : list (nat * list (list nat))) (data : list (list V)),
  length data = length blocks ->
  exists res, from_meshio_fixed blocks data = Some res /\
    forall t, In t (map fst blocks) ->
      In (t, (rows_of t blocks, rows_of t (combine (map fst blocks) data))) res.
Proof.
  intros V blocks data Hl. eexists. split; [reflexivity|].
  intros t Ht. apply in_map_iff.
  exists (t, rows_of t blocks). split; [|apply group_blocks_in; exact Ht].
  simpl. f_equal. f_equal.
  pose proof (group_fold_lookup V t (combine (map fst blocks) data) []) as Hg.
  unfold glookup in Hg. simpl in Hg. unfold group_blocks. exact Hg.
Qed.

(* finding F-C07b: blocks triangle, quad, triangle — the pinned bridge loses the first triangle block and attaches its
   datum (10) to the cell of the last one; the repaired bridge keeps both triangles with 10 and 30 *)
Theorem from_meshio_pinned_refuted :
  let blocks := [(5, [[0; 1; 2]]); (9, [[0; 1; 2; 3]]); (5, [[1; 2; 3]])] in
  let data := [[10]; [20]; [30]] in
  from_meshio_pinned blocks data = Some [(5, ([[1; 2; 3]], [10])); (9, ([[0; 1; 2; 3]], [20]))] /\
  from_meshio_fixed blocks data = Some [(5, ([[0; 1; 2]; [1; 2; 3]], [10; 30])); (9, ([[0; 1; 2; 3]], [20]))].
Proof. vm_compute. split; reflexivity. Qed.

(* ================================================================================================ *)
(* 8. _get_structured_decomposition: one axis, any listing order of the pieces                      *)
(* ================================================================================================ *)
From Coq Require Import Sorted.

Lemma insert_unique_in : forall x y l, In y (insert_unique x l) <-> y = x \/ In y l.
Proof.
  intros x y l. induction l as [|z l IH]; simpl; [intuition|].
  destruct (x <? z)%Z eqn:E1; [simpl; intuition|].
  destruct (x =? z)%Z eqn:E2.
  - apply Z.eqb_eq in E2. subst. simpl. intuition.
  - simpl. rewrite IH. intuition.
Qed.

Lemma insert_unique_sorted : forall x l, StronglySorted Z.lt l -> StronglySorted Z.lt (insert_unique x l).
Proof.
  intros x l H. induction H as [|z l Hs IH Hf]; simpl; [repeat constructor|].
  destruct (x <? z)%Z eqn:E1.
  - apply Z.ltb_lt in E1. constructor; [constructor; assumption|].
    constructor; [exact E1|]. rewrite Forall_forall in *. intros y Hy. specialize (Hf y Hy). lia.
  - destruct (x =? z)%Z eqn:E2; [constructor; assumption|].
    apply Z.ltb_ge in E1. apply Z.eqb_neq in E2.
    constructor; [exact IH|]. rewrite Forall_forall in *. intros y Hy. apply insert_unique_in in Hy.
    destruct Hy as [->|Hy]; [lia|apply Hf; exact Hy].
Qed.

Lemma unique_sorted_in : forall y l, In y (unique_sorted l) <-> In y l.
Proof.
  intros y l. unfold unique_sorted. induction l as [|x l IH]; simpl; [tauto|].
  rewrite insert_unique_in, IH. intuition.
Qed.

Lemma unique_sorted_sorted : forall l, StronglySorted Z.lt (unique_sorted l).
Proof. induction l as [|x l IH]; simpl; [constructor|]. apply insert_unique_sorted. exact IH. Qed.

Lemma strict_sorted_unique : forall l1 l2 : list Z,
  StronglySorted Z.lt l1 -> StronglySorted Z.lt l2 -> (forall x, In x l1 <-> In x l2) -> l1 = l2.
Proof.
  induction l1 as [|a l1 IH]; intros l2 H1 H2 Heq; destruct l2 as [|b l2].
  - reflexivity.
  - exfalso. apply (proj2 (Heq b)). left. reflexivity.
  - exfalso. apply (proj1 (Heq a)). left. reflexivity.
  - inversion H1 as [|? ? Hs1 Hf1]; subst. inversion H2 as [|? ? Hs2 Hf2]; subst.
    rewrite Forall_forall in Hf1, Hf2.
    assert (a = b).
    { destruct (proj1 (Heq a) (or_introl eq_refl)) as [Hb|Hb]; [congruence|].
      destruct (proj2 (Heq b) (or_introl eq_refl)) as [Ha|Ha]; [congruence|].
      specialize (Hf1 b Ha). specialize (Hf2 a Hb). lia. }
    subst b. f_equal. apply IH; try assumption.
    intro x. split; intro Hx.
    + destruct (proj1 (Heq x) (or_intror Hx)) as [He|Hi]; [|exact Hi]. subst. specialize (Hf1 _ Hx). lia.
    + destruct (proj2 (Heq x) (or_intror Hx)) as [He|Hi]; [|exact Hi]. subst. specialize (Hf2 _ Hx). lia.
Qed.

Definition zoff (sizes : list Z) (p : nat) : Z := fold_right Z.add 0%Z (firstn p sizes).
Definition zbegin (b : Z) (sizes : list Z) (p : nat) : Z := (b + zoff sizes p)%Z.
Definition zend (b : Z) (sizes : list Z) (p : nat) : Z := (b + zoff sizes p + nth p sizes 0)%Z.

Lemma zoff_S : forall sizes p, p < length sizes -> zoff sizes (S p) = (zoff sizes p + nth p sizes 0)%Z.
Proof.
  unfold zoff. induction sizes as [|s sizes IH]; intros p Hp; simpl in Hp; [lia|].
  destruct p as [|p]; [simpl; lia|].
  change (firstn (S (S p)) (s :: sizes)) with (s :: firstn (S p) sizes).
  change (firstn (S p) (s :: sizes)) with (s :: firstn p sizes).
  change (nth (S p) (s :: sizes) 0%Z) with (nth p sizes 0%Z).
  cbn [fold_right]. rewrite (IH p) by lia. lia.
Qed.

Lemma zoff_mono : forall sizes, Forall (fun s => (0 < s)%Z) sizes ->
  forall p q, p < q -> q <= length sizes -> (zoff sizes p < zoff sizes q)%Z.
Proof.
  intros sizes Hpos p q Hpq Hq. induction q as [|q IH]; [lia|].
  assert (Hn : (0 < nth q sizes 0)%Z).
  { rewrite Forall_forall in Hpos. apply Hpos. apply nth_In. lia. }
  rewrite zoff_S by lia. destruct (Nat.eq_dec p q) as [->|Hne]; [lia|]. specialize (IH ltac:(lia) ltac:(lia)). lia.
Qed.

Lemma sorted_map_seq : forall (f : nat -> Z) n a,
  (forall p q, a <= p -> p < q -> q < a + n -> (f p < f q)%Z) -> StronglySorted Z.lt (map f (seq a n)).
Proof.
  intros f n. induction n as [|n IH]; intros a H; simpl; constructor.
  - apply IH. intros p q Hp Hpq Hq. apply H; lia.
  - apply Forall_forall. intros y Hy. apply in_map_iff in Hy. destruct Hy as [q [<- Hq]]. apply in_seq in Hq.
    apply H; lia.
Qed.

Lemma map2_map_map : forall (A B C D : Type) (g : B -> C -> D) (f1 : A -> B) (f2 : A -> C) l,
  map2 g (map f1 l) (map f2 l) = map (fun x => g (f1 x) (f2 x)) l.
Proof. induction l as [|x l IH]; simpl; [reflexivity|]. rewrite IH. reflexivity. Qed.

Lemma index_of_map_seq : forall (f : nat -> Z) n a p,
  (forall i j, a <= i -> i < j -> j < a + n -> f i <> f j) -> a <= p -> p < a + n ->
  index_of (f p) (map f (seq a n)) = p - a.
Proof.
  intros f n. induction n as [|n IH]; intros a p Hinj Ha Hp; [lia|]. simpl.
  destruct (Nat.eq_dec p a) as [->|Hne]; [rewrite Z.eqb_refl; lia|].
  assert (Hneq : (f p =? f a)%Z = false).
  { apply Z.eqb_neq. intro He. apply (Hinj a p); try lia. }
  rewrite Hneq. rewrite (IH (S a) p); [lia| |lia|lia]. intros i j Hi Hij Hj. apply Hinj; lia.
Qed.

(* decomposition_from_extents (one axis): whatever the order (and multiplicity) in which the pieces are listed, the sorted
   distinct begin / end values of their extents give back the piece sizes along the axis, and the position of a piece along
   the axis is the index of its begin value — this is what sizes_along_axis / piece_location compute *)
Theorem axis_decomposition_from_extents : forall (b : Z) (sizes : list Z) (ps : list nat),
  Forall (fun s => (0 < s)%Z) sizes ->
  (forall p, In p ps <-> p < length sizes) ->
  map2 (fun e b' => (e - b')%Z) (unique_sorted (map (zend b sizes) ps)) (unique_sorted (map (zbegin b sizes) ps)) = sizes
  /\ forall p, p < length sizes -> index_of (zbegin b sizes p) (unique_sorted (map (zbegin b sizes) ps)) = p.
Proof.
  intros b sizes ps Hpos Hps.
  set (n := length sizes).
  assert (Hb : unique_sorted (map (zbegin b sizes) ps) = map (zbegin b sizes) (seq 0 n)).
  { apply strict_sorted_unique; [apply unique_sorted_sorted| |].
    - apply sorted_map_seq. intros p q _ Hpq Hq. unfold zbegin.
      pose proof (zoff_mono sizes Hpos p q Hpq ltac:(unfold n in Hq; lia)). lia.
    - intro x. rewrite unique_sorted_in, !in_map_iff. split; intros [p [He Hp]]; exists p; (split; [exact He|]).
      + apply in_seq. apply Hps in Hp. unfold n. lia.
      + apply Hps. apply in_seq in Hp. unfold n in Hp. lia. }
  assert (He : unique_sorted (map (zend b sizes) ps) = map (zend b sizes) (seq 0 n)).
  { apply strict_sorted_unique; [apply unique_sorted_sorted| |].
    - apply sorted_map_seq. intros p q _ Hpq Hq. unfold zend. unfold n in Hq.
      rewrite <- !Z.add_assoc, <- !zoff_S by lia.
      pose proof (zoff_mono sizes Hpos (S p) (S q) ltac:(lia) ltac:(lia)). lia.
    - intro x. rewrite unique_sorted_in, !in_map_iff. split; intros [p [Hx Hp]]; exists p; (split; [exact Hx|]).
      + apply in_seq. apply Hps in Hp. unfold n. lia.
      + apply Hps. apply in_seq in Hp. unfold n in Hp. lia. }
  rewrite Hb, He. split.
  - rewrite map2_map_map. transitivity (map (fun i => nth i sizes 0%Z) (seq 0 n)).
    + apply map_ext. intro p. unfold zend, zbegin. lia.
    + apply map_nth_seq.
  - intros p Hp. rewrite (index_of_map_seq _ n 0 p); [lia| |lia|unfold n; lia].
    intros i j _ Hij Hj. unfold zbegin.
    pose proof (zoff_mono sizes Hpos i j Hij ltac:(unfold n in Hj; lia)). lia.
Qed.
