(* Proofs/StructuredMeshP.v — C07 `structured_as_explicit`: the same lattice held as image / rectilinear grid (pixel /
   voxel cells in x-fastest corner order) and as structured grid or explicit unstructured grid (quads / hexahedra in
   VTK order) passes the mesh comparison (Model/Mesh.v: mesh_equal = _mesh_equal.py) for every extent vector with one
   to three meshed directions, every point list and every tolerance: the compatible-type pairing (pixel~quad,
   voxel~hexahedron) and the comparison of sorted corner lists bridge the two corner orders. *)
From Coq Require Import QArith Arith Bool List Lia Permutation.
From FC Require Import Model.Scalar Model.Mesh Proofs.ScalarP Proofs.MeshP Model.Structured Proofs.StructuredP.
Import ListNotations.
Local Open Scope nat_scope.

(* ---- insertion sort is invariant under permutation of its input -------------------------------------------- *)
Lemma insert_sorted_comm x y : forall l, insert_sorted x (insert_sorted y l) = insert_sorted y (insert_sorted x l).
Proof.
  induction l as [|a l IH]; cbn [insert_sorted].
  - destruct (x <=? y) eqn:E1; destruct (y <=? x) eqn:E2; try reflexivity.
    + apply Nat.leb_le in E1, E2. assert (x = y) by lia. subst. reflexivity.
    + apply Nat.leb_gt in E1, E2. lia.
  - destruct (y <=? a) eqn:Eya; destruct (x <=? a) eqn:Exa; cbn [insert_sorted]; rewrite ?Eya, ?Exa.
    + destruct (x <=? y) eqn:E1; destruct (y <=? x) eqn:E2; rewrite ?Eya, ?Exa; try reflexivity.
      * apply Nat.leb_le in E1, E2. assert (x = y) by lia. subst. reflexivity.
      * apply Nat.leb_gt in E1, E2. lia.
    + assert (E1 : (x <=? y) = false) by (apply Nat.leb_gt; apply Nat.leb_le in Eya; apply Nat.leb_gt in Exa; lia).
      rewrite E1. cbn [insert_sorted]. rewrite ?Exa. reflexivity.
    + assert (E2 : (y <=? x) = false) by (apply Nat.leb_gt; apply Nat.leb_le in Exa; apply Nat.leb_gt in Eya; lia).
      rewrite E2. cbn [insert_sorted]. rewrite ?Eya. reflexivity.
    + rewrite IH. reflexivity.
Qed.

Lemma sort_row_Permutation a b : Permutation a b -> sort_row a = sort_row b.
Proof.
  intros H. induction H as [|x a b _ IH|x y a|a b c _ IH1 _ IH2]; cbn [sort_row fold_right].
  - reflexivity.
  - unfold sort_row in IH. rewrite IH. reflexivity.
  - apply insert_sorted_comm.
  - congruence.
Qed.

Lemma list_eqb_refl l : Mesh.list_eqb l l = true.
Proof. induction l as [|x l IH]; cbn [Mesh.list_eqb]; [reflexivity|]. rewrite Nat.eqb_refl, IH. reflexivity. Qed.

Lemma rows_equal_map (f g : list nat -> list nat) rows :
  (forall r, In r rows -> Permutation (f r) (g r)) -> rows_equal (map f rows) (map g rows) = true.
Proof.
  induction rows as [|r rows IH]; intros H; cbn [map rows_equal]; [reflexivity|].
  rewrite (sort_row_Permutation (f r) (g r)) by (apply H; left; reflexivity).
  rewrite list_eqb_refl. cbn [andb]. apply IH. intros r' Hr'. apply H. right. exact Hr'.
Qed.

(* ---- the corner order of a structured mesh kind ------------------------------------------------------------ *)
Definition shape_fn (k : grid_kind) (d : nat) : list nat -> list nat :=
  match k, d with
  | Curvilinear, 2 => reorder quad_pixel_map
  | Curvilinear, 3 => reorder hex_voxel_map
  | _, _ => fun r => r
  end.

Lemma connectivity_shape k extents : 1 <= length (nonzero_extents extents) <= 3 ->
  connectivity k (cell_type_of k (length (nonzero_extents extents))) extents
  = map (shape_fn k (length (nonzero_extents extents)))
        (map (voxel_corners (nonzero_extents extents)) (locations_in (nonzero_extents extents))).
Proof.
  intros Hd. unfold connectivity. rewrite Nat.eqb_refl.
  destruct (length (nonzero_extents extents)) as [|[|[|[|d]]]] eqn:E; try lia;
    destruct k; cbn [cell_type_of shape_fn Nat.eqb]; rewrite ?map_id; reflexivity.
Qed.

Lemma voxel_corners_shape ne loc : 1 <= length ne <= 3 ->
  forall k1 k2, Permutation (shape_fn k1 (length ne) (voxel_corners ne loc)) (shape_fn k2 (length ne) (voxel_corners ne loc)).
Proof.
  intros Hd k1 k2. unfold voxel_corners.
  destruct (length ne) as [|[|[|[|d]]]] eqn:E; try lia.
  - destruct k1, k2; cbn [shape_fn]; apply Permutation_refl.
  - set (p0 := p0_of ne loc). set (p2 := p0 + nth 0 (tl (mults (map S ne))) 0).
    assert (P : Permutation (reorder quad_pixel_map [p0; p0 + 1; p2; p2 + 1]) [p0; p0 + 1; p2; p2 + 1]).
    { cbn [reorder quad_pixel_map map nth]. do 2 apply perm_skip. apply perm_swap. }
    destruct k1, k2; cbn [shape_fn]; try apply Permutation_refl; try exact P; apply Permutation_sym; exact P.
  - set (p0 := p0_of ne loc). set (p2 := p0 + nth 0 (tl (mults (map S ne))) 0).
    set (p5 := p0 + nth 1 (tl (mults (map S ne))) 0). set (p7 := p5 + nth 0 (tl (mults (map S ne))) 0).
    assert (P : Permutation (reorder hex_voxel_map [p0; p0 + 1; p2; p2 + 1; p5; p5 + 1; p7; p7 + 1])
                            [p0; p0 + 1; p2; p2 + 1; p5; p5 + 1; p7; p7 + 1]).
    { cbn [reorder hex_voxel_map map nth]. do 2 apply perm_skip. eapply Permutation_trans; [apply perm_swap|].
      do 4 apply perm_skip. apply perm_swap. }
    destruct k1, k2; cbn [shape_fn]; try apply Permutation_refl; try exact P; apply Permutation_sym; exact P.
Qed.

(* the mesh of a structured grid of kind k with the given points *)
Definition grid_mesh (k : grid_kind) (P : list point) (extents : list nat) : mesh :=
  let d := length (nonzero_extents extents) in
  {| pts := P; cells := [(cell_type_of k d, connectivity k (cell_type_of k d) extents)] |}.

Theorem structured_as_explicit k1 k2 P extents rel abs :
  (0 <= abs)%Q -> 1 <= length (nonzero_extents extents) <= 3 ->
  mesh_equal rel abs (grid_mesh k1 P extents) (grid_mesh k2 P extents) = true.
Proof.
  intros Habs Hd. unfold mesh_equal, grid_mesh. cbn [pts cells cell_types map fst].
  rewrite (points_close_refl rel abs P Habs). cbn [andb].
  rewrite !(connectivity_shape _ extents Hd).
  assert (R : rows_equal
            (map (shape_fn k1 (length (nonzero_extents extents)))
                 (map (voxel_corners (nonzero_extents extents)) (locations_in (nonzero_extents extents))))
            (map (shape_fn k2 (length (nonzero_extents extents)))
                 (map (voxel_corners (nonzero_extents extents)) (locations_in (nonzero_extents extents)))) = true).
  { apply rows_equal_map. intros r Hr. apply in_map_iff in Hr. destruct Hr as [loc [<- _]].
    apply voxel_corners_shape. exact Hd. }
  destruct (length (nonzero_extents extents)) as [|[|[|[|d]]]] eqn:E; try lia;
    destruct k1, k2; cbn [cell_type_of shape_fn] in R |- *;
    cbv [match_types match_types_aux partner memb existsb find compat length Nat.eqb orb andb forallb fst snd Mesh.rows_of];
    rewrite R; reflexivity.
Qed.
