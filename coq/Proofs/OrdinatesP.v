(* Proofs/OrdinatesP.v — C06: the ordinates of a parallel rectilinear grid.  PVTRReader._make_structured_mesh writes the
   ordinate vector of every piece along a direction into a zero-initialised array, each piece starting at the last
   ordinate of the piece before it (Model/Structured.v: astep, the loop body of pvtr_ordinates).  If the pieces hold the
   restrictions of one global ordinate vector g to consecutive index ranges (n_1 cells, then n_2 cells, ...), the array
   ends up as g — for every number of pieces and every split. *)
From Coq Require Import QArith Arith Bool List Lia.
From FC Require Import Model.Scalar Model.Structured.
Import ListNotations.
Local Open Scope nat_scope.

(* the ordinate vectors of the pieces that cover, one after the other, ns[0], ns[1], ... cells of the global vector g,
   starting at index off: piece i holds n_i + 1 ordinates, the last one shared with piece i+1 *)
Fixpoint cut (g : qvec) (off : nat) (ns : list nat) : list qvec :=
  match ns with
  | [] => []
  | n :: r => firstn (S n) (skipn off g) :: cut g (off + n) r
  end.

Definition total (ns : list nat) : nat := fold_right Nat.add 0 ns.

Lemma firstn_add {A} (a b : nat) (l : list A) : firstn (a + b) l = firstn a l ++ firstn b (skipn a l).
Proof.
  revert l. induction a as [|a IH]; intros l; cbn [Nat.add firstn skipn app]; [reflexivity|].
  destruct l as [|x l]; [destruct b; reflexivity|]. cbn [firstn skipn app]. rewrite IH. reflexivity.
Qed.

Lemma write_slice_fits (l vals : qvec) off : off + length vals <= length l ->
  write_slice l off vals = Some (firstn off l ++ vals ++ skipn (off + length vals) l).
Proof.
  intros H. unfold write_slice. rewrite (Nat.min_l (length vals) (length l - off)) by lia.
  rewrite Nat.eqb_refl. reflexivity.
Qed.

Lemma assembled_gen (g : qvec) : forall ns off dst,
  length dst = length g -> off + total ns + 1 = length g -> firstn off dst = firstn off g -> (ns = [] -> dst = g) ->
  fold_left astep (cut g off ns) (Some dst, off) = (Some g, off + total ns).
Proof.
  induction ns as [|n r IH]; intros off dst Hl Ht Hp He; cbn [cut fold_left total fold_right] in *.
  - rewrite (He eq_refl), Nat.add_0_r. reflexivity.
  - set (po := firstn (S n) (skipn off g)).
    assert (Lpo : length po = S n) by (unfold po; rewrite firstn_length, skipn_length; lia).
    unfold astep at 2. cbn [fst snd]. rewrite write_slice_fits by lia. rewrite Lpo.
    replace (off + (S n - 1)) with (off + n) by lia.
    set (dst' := firstn off dst ++ po ++ skipn (off + S n) dst).
    assert (Ld : length dst' = length g).
    { unfold dst'. rewrite !app_length, firstn_length, skipn_length, Lpo. lia. }
    assert (Hp' : firstn (off + S n) dst' = firstn (off + S n) g).
    { rewrite (firstn_add off (S n) g). fold po. rewrite <- Hp. unfold dst'.
      rewrite app_assoc. rewrite firstn_app.
      replace (off + S n - length (firstn off dst ++ po)) with 0 by (rewrite app_length, firstn_length, Lpo; lia).
      cbn [firstn]. rewrite app_nil_r. apply firstn_all2. rewrite app_length, firstn_length, Lpo. lia. }
    transitivity (Some g, off + n + total r); [|unfold total; f_equal; lia].
    apply (IH (off + n) dst' Ld); [unfold total; lia| |].
    + assert (E : firstn (off + n) (firstn (off + S n) dst') = firstn (off + n) (firstn (off + S n) g)) by (rewrite Hp'; reflexivity).
      rewrite !firstn_firstn in E. rewrite Nat.min_l in E by lia. exact E.
    + intros ->. cbn [total fold_right] in Ht.
      rewrite <- (firstn_all dst'), <- (firstn_all g) at 1. rewrite Ld. replace (length g) with (off + S n) by lia. exact Hp'.
Qed.

Theorem ordinates_assembled (g : qvec) (ns : list nat) :
  ns <> [] -> length g = S (total ns) ->
  fold_left astep (cut g 0 ns) (Some (repeat 0%Q (length g)), 0) = (Some g, total ns).
Proof.
  intros Hne Hl. apply (assembled_gen g ns 0 (repeat 0%Q (length g))).
  - apply repeat_length.
  - lia.
  - reflexivity.
  - intros E. contradiction.
Qed.

(* the shared ordinate is written twice, by both neighbours: a piece whose first ordinate differs from its left
   neighbour's last one silently wins (the reader does not compare them) *)
Example ordinates_example :
  fold_left astep (cut [0#1; 1#2; 1#1; 3#1; 7#1]%Q 0 [2; 1; 1]) (Some (repeat 0%Q 5), 0) = (Some [0#1; 1#2; 1#1; 3#1; 7#1]%Q, 4) /\
  cut [0#1; 1#2; 1#1; 3#1; 7#1]%Q 0 [2; 1; 1] = [[0#1; 1#2; 1#1]; [1#1; 3#1]; [3#1; 7#1]]%Q /\
  fold_left astep [[0#1; 1#1]; [5#1; 2#1]]%Q (Some (repeat 0%Q 3), 0) = (Some [0#1; 5#1; 2#1]%Q, 2).
Proof. vm_compute. repeat split; reflexivity. Qed.
