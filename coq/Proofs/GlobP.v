(* Proofs/GlobP.v — what the pattern language of Model/Glob.v guarantees (C04, C11, C12: "selected by the include / exclude
   patterns"). *)
From Coq Require Import NArith Arith List Bool Lia.
From FC Require Import Model.Glob.
Import ListNotations.
Local Open Scope N_scope.

(* ---- matching --------------------------------------------------------------------------------------------------- *)
Lemma tmatch_star_all : forall s, tmatch [TStar] s = true.
Proof.
  induction s as [|x s IH]; [reflexivity|]. cbn [tmatch] in *. cbn [orb]. exact IH.
Qed.

(* a '*' followed by q accepts s iff q accepts some suffix of s *)
Lemma tmatch_star q : forall s, tmatch (TStar :: q) s = true <-> exists k, (k <= length s)%nat /\ tmatch q (skipn k s) = true.
Proof.
  induction s as [|x s IH].
  - cbn [tmatch]. rewrite orb_false_r. split.
    + intros H. exists 0%nat. split; [apply Nat.le_refl|exact H].
    + intros [k [Hk H]]. destruct k; [exact H|cbn [length] in Hk; lia].
  - change (tmatch (TStar :: q) (x :: s)) with (tmatch q (x :: s) || tmatch (TStar :: q) s). rewrite orb_true_iff, IH. split.
    + intros [H|[k [Hk H]]].
      * exists 0%nat. split; [lia|exact H].
      * exists (S k). split; [cbn [length]; lia|exact H].
    + intros [k [Hk H]]. destruct k as [|k]; [left; exact H|]. right. exists k. split; [cbn [length] in Hk; lia|exact H].
Qed.

Lemma tmatch_lits l q : forall s,
  tmatch (map TLit l ++ q) s = true <-> firstn (length l) s = l /\ tmatch q (skipn (length l) s) = true.
Proof.
  induction l as [|c l IH]; intros s.
  - cbn [map app length firstn skipn]. tauto.
  - cbn [map app tmatch length]. destruct s as [|x s].
    + split; [discriminate|]. intros [H _]. discriminate.
    + rewrite andb_true_iff, IH, N.eqb_eq. cbn [firstn skipn]. split.
      * intros [-> [H1 H2]]. split; [rewrite H1; reflexivity|exact H2].
      * intros [H1 H2]. inversion H1 as [[Hx Hl]]. rewrite Hl. repeat split; assumption.
Qed.

(* ---- translating plain text --------------------------------------------------------------------------------------- *)
Definition plainc (c : N) : bool := negb (c =? c_star) && negb (c =? c_qm) && negb (c =? c_lb).
Definition plain (p : str) : bool := forallb plainc p.

Lemma translate_go_plain : forall l r f, plain l = true -> (length l <= f)%nat ->
  translate_go (f + S (length r)) (l ++ r) = map TLit l ++ translate_go (f - length l + S (length r)) r.
Proof.
  induction l as [|c l IH]; intros r f Hp Hf.
  - cbn [app map length]. rewrite Nat.sub_0_r. reflexivity.
  - cbn [plain forallb] in Hp. apply andb_prop in Hp. destruct Hp as [Hc Hl].
    unfold plainc in Hc. apply andb_prop in Hc. destruct Hc as [Hc H3]. apply andb_prop in Hc. destruct Hc as [H1 H2].
    apply negb_true_iff in H1, H2, H3.
    cbn [length] in Hf. destruct f as [|f]; [lia|].
    cbn [app plus translate_go]. rewrite H1, H2, H3. cbn [map app]. f_equal.
    rewrite (IH r f Hl) by lia. cbn [length]. reflexivity.
Qed.

Lemma translate_plain l : plain l = true -> translate l = map TLit l.
Proof.
  intros H. unfold translate.
  pose proof (translate_go_plain l [] (length l) H (Nat.le_refl _)) as E. rewrite app_nil_r in E. cbn [length] in E.
  replace (S (length l)) with (length l + 1)%nat by lia. rewrite E, Nat.sub_diag. cbn [plus translate_go]. rewrite app_nil_r. reflexivity.
Qed.

Lemma translate_plain_star l : plain l = true -> translate (l ++ [c_star]) = map TLit l ++ [TStar].
Proof.
  intros H. unfold translate. rewrite app_length. cbn [length].
  pose proof (translate_go_plain l [c_star] (length l) H (Nat.le_refl _)) as E. cbn [length] in E.
  replace (S (length l + 1)) with (length l + 2)%nat by lia. rewrite E, Nat.sub_diag. reflexivity.
Qed.

(* ---- the statements used by the properties ------------------------------------------------------------------------ *)
(* '*' accepts every name: the default inclusion filter selects everything, whatever characters (also '/') occur *)
Theorem star_matches_all s : fnmatch s [c_star] = true.
Proof. unfold fnmatch. change (translate [c_star]) with [TStar]. apply tmatch_star_all. Qed.

Theorem include_all_accepts s : pattern_filter include_all s = true.
Proof. unfold pattern_filter, include_all. cbn [existsb]. rewrite star_matches_all. reflexivity. Qed.

Theorem exclude_all_rejects s : pattern_filter exclude_all s = false.
Proof. reflexivity. Qed.

(* a pattern without '*', '?', '[' accepts exactly itself *)
Theorem plain_pattern_matches_itself_only p s : plain p = true -> (fnmatch s p = true <-> s = p).
Proof.
  intros H. unfold fnmatch. rewrite (translate_plain p H).
  rewrite <- (app_nil_r (map TLit p)), tmatch_lits. split.
  - intros [H1 H2]. destruct (skipn (length p) s) eqn:E; [|discriminate].
    rewrite <- (firstn_skipn (length p) s), H1, E, app_nil_r. reflexivity.
  - intros ->. rewrite firstn_all, skipn_all. split; reflexivity.
Qed.

(* plain text followed by '*' accepts exactly the names that start with the text (a pattern with a directory part
   selects the whole sub-tree below it: '*' also takes '/') *)
Theorem prefix_star_matches_prefix l s : plain l = true -> (fnmatch s (l ++ [c_star]) = true <-> firstn (length l) s = l).
Proof.
  intros H. unfold fnmatch. rewrite (translate_plain_star l H), tmatch_lits. split; [tauto|].
  intros E. split; [exact E|apply tmatch_star_all].
Qed.

(* '*' followed by plain text accepts exactly the names that end with the text ("*.vtu") *)
Theorem star_suffix_matches_suffix l s : plain l = true ->
  (fnmatch s (c_star :: l) = true <-> exists pre, s = pre ++ l).
Proof.
  intros H. unfold fnmatch.
  assert (T : translate (c_star :: l) = TStar :: map TLit l).
  { unfold translate. cbn [length translate_go]. change (c_star =? c_star) with true. cbv iota. f_equal. apply (translate_plain l H). }
  rewrite T, tmatch_star. split.
  - intros [k [Hk Hm]]. rewrite <- (app_nil_r (map TLit l)), tmatch_lits in Hm. destruct Hm as [H1 H2].
    exists (firstn k s). destruct (skipn (length l) (skipn k s)) eqn:E; [|discriminate].
    rewrite <- (firstn_skipn k s) at 1. f_equal.
    rewrite <- (firstn_skipn (length l) (skipn k s)), H1, E, app_nil_r. reflexivity.
  - intros [pre ->]. exists (length pre). split; [rewrite app_length; lia|].
    rewrite skipn_app, skipn_all, Nat.sub_diag. cbn [skipn app].
    rewrite <- (app_nil_r (map TLit l)), tmatch_lits, firstn_all, skipn_all. split; reflexivity.
Qed.

(* a filter accepts a name iff one of its patterns does *)
Theorem pattern_filter_spec ps s : pattern_filter ps s = true <-> exists p, In p ps /\ fnmatch s p = true.
Proof. unfold pattern_filter. apply existsb_exists. Qed.
