(* Proofs/PredicatesP.v — array-level laws of the predicate model (C01, C09, C10) *)
From Coq Require Import String.
From Coq Require Import QArith Qabs Qminmax ZArith Bool Arith List Lia Lqa.
From FC Require Import Model.Scalar Model.Predicates Proofs.ScalarP.
Import ListNotations.
Local Open Scope nat_scope.

(* ---------------------------------------------------------------- shapes *)
Lemma list_nat_eqb_eq a b : list_nat_eqb a b = true <-> a = b.
Proof.
  revert b; induction a as [|x a IH]; intros [|y b]; simpl; split; intro H; try congruence; try reflexivity.
  - apply andb_true_iff in H. destruct H as [H1 H2]. apply Nat.eqb_eq in H1. apply IH in H2. congruence.
  - inversion H; subst. rewrite Nat.eqb_refl. simpl. apply IH. reflexivity.
Qed.

Lemma ends_in_one_spec s : ends_in_one s = true <-> exists p, s = p ++ [1].
Proof.
  unfold ends_in_one. split.
  - intro H. destruct (rev s) as [|x r] eqn:E; [discriminate|].
    destruct x as [|[|x]]; try discriminate.
    exists (rev r). rewrite <- (rev_involutive s), E. simpl. reflexivity.
  - intros [p Hp]. subst. rewrite rev_app_distr. simpl. reflexivity.
Qed.

Lemma prod_app a b : prod (a ++ b) = prod a * prod b.
Proof. unfold prod. induction a as [|x a IH]; simpl; [lia|]. fold (prod (a++b)) in *. rewrite IH. unfold prod. lia. Qed.

Lemma prod_snoc1 s : prod (s ++ [1]) = prod s.
Proof. rewrite prod_app. unfold prod at 2. simpl. lia. Qed.

(* compatible shapes: equal, or equal up to one trailing unit axis *)
Theorem compatible_spec s1 s2 :
  compatible s1 s2 = true <-> s1 = s2 \/ s1 = s2 ++ [1] \/ s2 = s1 ++ [1].
Proof.
  unfold compatible, reconcile.
  destruct ((length s1 =? length s2 + 1) && ends_in_one s1) eqn:E1;
  destruct ((length s2 =? length s1 + 1) && ends_in_one s2) eqn:E2;
  rewrite list_nat_eqb_eq.
  - apply andb_true_iff in E1. apply andb_true_iff in E2.
    destruct E1 as [E1 _]. destruct E2 as [E2 _].
    apply Nat.eqb_eq in E1. apply Nat.eqb_eq in E2. lia.
  - apply andb_true_iff in E1. destruct E1 as [L1 O1]. apply Nat.eqb_eq in L1.
    split; [intro H; right; left; exact H|].
    intros [H|[H|H]]; [subst; lia | exact H | subst; rewrite app_length in L1; simpl in L1; lia].
  - apply andb_true_iff in E2. destruct E2 as [L2 O2]. apply Nat.eqb_eq in L2.
    split; [intro H; right; right; symmetry; exact H|].
    intros [H|[H|H]]; [subst; lia | subst; rewrite app_length in L2; simpl in L2; lia | symmetry; exact H].
  - split; [intro H; left; exact H|].
    intros [H|[H|H]]; [exact H | |].
    + exfalso. subst s1. rewrite app_length in E1. simpl in E1. rewrite Nat.eqb_refl in E1. simpl in E1.
      assert (X : ends_in_one (s2 ++ [1]) = true) by (apply ends_in_one_spec; eauto). congruence.
    + exfalso. subst s2. rewrite app_length in E2. simpl in E2. rewrite Nat.eqb_refl in E2. simpl in E2.
      assert (X : ends_in_one (s1 ++ [1]) = true) by (apply ends_in_one_spec; eauto). congruence.
Qed.

Lemma compatible_refl s : compatible s s = true.
Proof. apply compatible_spec. left. reflexivity. Qed.

Lemma compatible_sym s1 s2 : compatible s1 s2 = compatible s2 s1.
Proof.
  destruct (compatible s1 s2) eqn:E1; destruct (compatible s2 s1) eqn:E2; try reflexivity.
  - apply compatible_spec in E1. assert (X : compatible s2 s1 = true) by (apply compatible_spec; intuition). congruence.
  - apply compatible_spec in E2. assert (X : compatible s1 s2 = true) by (apply compatible_spec; intuition). congruence.
Qed.

(* compatible shapes hold the same number of scalars *)
Lemma compatible_prod s1 s2 : compatible s1 s2 = true -> prod s1 = prod s2.
Proof.
  intro H. apply compatible_spec in H. destruct H as [H|[H|H]]; subst; rewrite ?prod_snoc1; reflexivity.
Qed.

Lemma compatible_length a b :
  wf_arr a = true -> wf_arr b = true -> compatible (shape a) (shape b) = true ->
  length (data a) = length (data b).
Proof.
  unfold wf_arr. intros Ha Hb Hc. apply Nat.eqb_eq in Ha. apply Nat.eqb_eq in Hb.
  apply compatible_prod in Hc. lia.
Qed.

(* the reconciled shapes of compatible arrays are symmetric in their component count *)
Lemma reconcile_fst_sym s1 s2 :
  compatible s1 s2 = true -> fst (reconcile s1 s2) = fst (reconcile s2 s1).
Proof.
  intro H. unfold compatible in H.
  change (fst (reconcile s2 s1)) with (snd (reconcile s1 s2)).
  destruct (reconcile s1 s2) as [x y] eqn:E. apply list_nat_eqb_eq in H. subst y. reflexivity.
Qed.

(* ---------------------------------------------------------------- fuzzy_all *)
Lemma fuzzy_all_iff d1 : forall d2 i rel abs,
  length d1 = length d2 ->
  (fuzzy_all i rel abs d1 d2 = true <->
   forall j, j < length d1 -> formula (nth j d1 0%Q) (nth j d2 0%Q) (rel (i + j)) (abs (i + j))).
Proof.
  induction d1 as [|a d1 IH]; intros [|b d2] i rel abs L; simpl in L; try discriminate.
  - simpl. split; [intros _ j Hj; lia | reflexivity].
  - simpl fuzzy_all. rewrite andb_true_iff. rewrite fuzzy_q_iff. rewrite (IH d2 (S i) rel abs) by lia.
    split.
    + intros [H0 H] [|j] Hj; simpl.
      * rewrite Nat.add_0_r. exact H0.
      * replace (i + S j) with (S i + j) by lia. apply H. simpl in Hj. lia.
    + intro H. split.
      * specialize (H 0). simpl in H. rewrite Nat.add_0_r in H. apply H. lia.
      * intros j Hj. specialize (H (S j)). simpl in H. replace (i + S j) with (S i + j) in H by lia.
        apply H. lia.
Qed.

(* a single entry violating the formula, at any index, makes the conjunction false *)
Lemma fuzzy_all_single_deviation d1 d2 i rel abs j :
  length d1 = length d2 -> j < length d1 ->
  ~ formula (nth j d1 0%Q) (nth j d2 0%Q) (rel (i + j)) (abs (i + j)) ->
  fuzzy_all i rel abs d1 d2 = false.
Proof.
  intros L Hj Hn. destruct (fuzzy_all i rel abs d1 d2) eqn:E; [|reflexivity].
  exfalso. apply Hn. rewrite fuzzy_all_iff in E by exact L. apply E. exact Hj.
Qed.

Lemma fuzzy_all_refl d : forall i rel abs, (forall j, (0 <= abs j)%Q) -> fuzzy_all i rel abs d d = true.
Proof.
  induction d as [|a d IH]; intros i rel abs H; simpl; [reflexivity|].
  rewrite fuzzy_q_refl by apply H. simpl. apply IH. exact H.
Qed.

Lemma fuzzy_all_sym d1 : forall d2 i rel abs, fuzzy_all i rel abs d1 d2 = fuzzy_all i rel abs d2 d1.
Proof.
  induction d1 as [|a d1 IH]; intros [|b d2] i rel abs; simpl; try reflexivity.
  rewrite fuzzy_q_sym. rewrite IH. reflexivity.
Qed.

Lemma fuzzy_all_mono d1 : forall d2 i r1 r2 t1 t2,
  (forall j, (r1 j <= r2 j)%Q) -> (forall j, (t1 j <= t2 j)%Q) ->
  fuzzy_all i r1 t1 d1 d2 = true -> fuzzy_all i r2 t2 d1 d2 = true.
Proof.
  induction d1 as [|a d1 IH]; intros [|b d2] i r1 r2 t1 t2 Hr Ht; simpl; try reflexivity.
  rewrite !andb_true_iff. intros [H1 H2]. split.
  - eapply fuzzy_q_mono; [apply Hr | apply Ht | exact H1].
  - eapply IH; eauto.
Qed.

Lemma fuzzy_all_ext d1 : forall d2 i r1 r2 t1 t2,
  (forall j, r1 j = r2 j) -> (forall j, t1 j = t2 j) ->
  fuzzy_all i r1 t1 d1 d2 = fuzzy_all i r2 t2 d1 d2.
Proof.
  induction d1 as [|a d1 IH]; intros [|b d2] i r1 r2 t1 t2 Hr Ht; simpl; try reflexivity.
  rewrite Hr, Ht. f_equal. apply IH; assumption.
Qed.

(* ---------------------------------------------------------------- fuzzy_eq (C01) *)
Section FuzzyEq.
  Variables (rel abs : tolspec) (a b : arr) (d1 d2 : list Q) (r t : rtol).
  Hypothesis Hwa : wf_arr a = true.
  Hypothesis Hwb : wf_arr b = true.
  Hypothesis Hd1 : to_qs (data a) = Some d1.
  Hypothesis Hd2 : to_qs (data b) = Some d2.
  Let s := fst (reconcile (shape a) (shape b)).
  Let k := ncomp s.
  Hypothesis Hr : resolve rel (kind a) (kind b) s d1 d2 = Some r.
  Hypothesis Ht : resolve abs (kind a) (kind b) s d1 d2 = Some t.

  Lemma fuzzy_eq_unfold_ok :
    compatible (shape a) (shape b) = true ->
    fuzzy_eq rel abs a b = Ok (fuzzy_all 0 (tol_at k r) (tol_at k t) d1 d2).
  Proof.
    intro Hc. unfold fuzzy_eq. rewrite Hc. rewrite Hd1, Hd2.
    fold s. rewrite Hr, Ht. reflexivity.
  Qed.

  Lemma to_qs_length l : forall q, to_qs l = Some q -> length q = length l.
  Proof.
    induction l as [|x l IH]; intros q H; simpl in H.
    - inversion H. reflexivity.
    - destruct (to_q x); [|discriminate]. destruct (to_qs l) eqn:E; [|discriminate].
      inversion H. simpl. f_equal. apply IH. reflexivity.
  Qed.

  (* C01: fuzzy equality holds iff the shapes are compatible and EVERY pair of scalars satisfies
     the documented formula with the tolerance that applies to its component *)
  Theorem fuzzy_eq_iff :
    fuzzy_eq rel abs a b = Ok true <->
    compatible (shape a) (shape b) = true /\
    forall j, j < length d1 ->
      formula (nth j d1 0%Q) (nth j d2 0%Q) (tol_at k r j) (tol_at k t j).
  Proof.
    destruct (compatible (shape a) (shape b)) eqn:Hc.
    - rewrite fuzzy_eq_unfold_ok by exact Hc.
      assert (L : length d1 = length d2).
      { rewrite (to_qs_length _ _ Hd1), (to_qs_length _ _ Hd2). apply compatible_length; assumption. }
      split.
      + intro H. inversion H as [H']. split; [reflexivity|].
        rewrite fuzzy_all_iff in H' by exact L. exact H'.
      + intros [_ H]. f_equal. rewrite fuzzy_all_iff by exact L. exact H.
    - unfold fuzzy_eq. rewrite Hc. split; [discriminate | intros [H _]; discriminate].
  Qed.

  (* C01: one deviating entry anywhere (first, middle, last index) is detected *)
  Theorem single_deviation_detected j :
    compatible (shape a) (shape b) = true -> j < length d1 ->
    ~ formula (nth j d1 0%Q) (nth j d2 0%Q) (tol_at k r j) (tol_at k t j) ->
    fuzzy_eq rel abs a b = Ok false.
  Proof.
    intros Hc Hj Hn. rewrite fuzzy_eq_unfold_ok by exact Hc. f_equal.
    apply (fuzzy_all_single_deviation d1 d2 0 _ _ j); try assumption.
    rewrite (to_qs_length _ _ Hd1), (to_qs_length _ _ Hd2). apply compatible_length; assumption.
  Qed.
End FuzzyEq.

(* C01: arrays of incompatible shape never compare equal, whatever the tolerances *)
Theorem fuzzy_eq_shape rel abs a b :
  compatible (shape a) (shape b) = false -> fuzzy_eq rel abs a b = Ok false.
Proof. intro H. unfold fuzzy_eq. rewrite H. reflexivity. Qed.

(* ---------------------------------------------------------------- max_abs / scaled tolerance (C10) *)
Lemma max_abs_ub l : forall x, In x l -> (Qabs x <= max_abs l)%Q.
Proof.
  induction l as [|y l IH]; intros x H; simpl in H; [contradiction|].
  unfold max_abs. simpl. fold (max_abs l). destruct H as [H|H].
  - subst. apply qmax_ub_l.
  - eapply Qle_trans; [apply IH; exact H | apply qmax_ub_r].
Qed.

Lemma max_abs_attained l : l <> [] -> exists x, In x l /\ (max_abs l == Qabs x)%Q.
Proof.
  induction l as [|y l IH]; intro H; [congruence|].
  unfold max_abs. simpl. fold (max_abs l).
  destruct l as [|z l'].
  - exists y. split; [left; reflexivity|]. simpl. unfold qmax.
    destruct (Qle_bool (Qabs y) 0) eqn:E; [|reflexivity].
    apply Qle_bool_iff in E. apply Qle_antisym; [apply Qabs_nonneg | exact E].
  - destruct IH as [x [Hx Ex]]; [discriminate|].
    unfold qmax at 1. destruct (Qle_bool (Qabs y) (max_abs (z :: l'))) eqn:E.
    + exists x. split; [right; exact Hx | exact Ex].
    + exists y. split; [left; reflexivity | reflexivity].
Qed.

Lemma max_abs_nonneg l : (0 <= max_abs l)%Q.
Proof.
  destruct l as [|y l]; [apply Qle_refl|]. unfold max_abs. simpl. apply qmax_nonneg_l. apply Qabs_nonneg.
Qed.

(* C10: ScaledTolerance(t)(a, b) = t * (largest absolute value occurring in either field) *)
Theorem scaled_tol_value base k1 k2 s d1 d2 :
  d1 <> [] -> d2 <> [] ->
  exists x, In x (d1 ++ d2) /\ (forall y, In y (d1 ++ d2) -> (Qabs y <= Qabs x)%Q) /\
    exists v, resolve (TScaled base) k1 k2 s d1 d2 = Some (RNum v) /\ (v == base * Qabs x)%Q.
Proof.
  intros H1 H2.
  destruct (max_abs_attained d1 H1) as [x1 [I1 E1]].
  destruct (max_abs_attained d2 H2) as [x2 [I2 E2]].
  assert (R : resolve (TScaled base) k1 k2 s d1 d2 = Some (RNum (base * qmax (max_abs d1) (max_abs d2)))).
  { simpl. destruct d1; [congruence|]. destruct d2; [congruence|]. reflexivity. }
  unfold qmax in R. destruct (Qle_bool (max_abs d1) (max_abs d2)) eqn:E.
  - apply Qle_bool_iff in E. exists x2. split; [apply in_or_app; right; exact I2|]. split.
    + intros y Hy. apply in_app_or in Hy. rewrite <- E2. destruct Hy as [Hy|Hy].
      * eapply Qle_trans; [apply max_abs_ub; exact Hy | exact E].
      * apply max_abs_ub; exact Hy.
    + eexists. split; [exact R|]. rewrite E2. reflexivity.
  - assert (E' : (max_abs d2 < max_abs d1)%Q).
    { apply Qnot_le_lt. intro X. apply Qle_bool_iff in X. congruence. }
    exists x1. split; [apply in_or_app; left; exact I1|]. split.
    + intros y Hy. apply in_app_or in Hy. rewrite <- E1. destruct Hy as [Hy|Hy].
      * apply max_abs_ub; exact Hy.
      * eapply Qle_trans; [apply max_abs_ub; exact Hy | apply Qlt_le_weak; exact E'].
    + eexists. split; [exact R|]. rewrite E1. reflexivity.
Qed.

(* ---------------------------------------------------------------- exact equality (C09) *)
Lemma all2_iff {A} (f : A -> A -> bool) (dflt : A) l1 : forall l2,
  length l1 = length l2 ->
  (all2 f l1 l2 = true <-> forall j, j < length l1 -> f (nth j l1 dflt) (nth j l2 dflt) = true).
Proof.
  induction l1 as [|x l1 IH]; intros [|y l2] L; simpl in L; try discriminate.
  - simpl. split; [intros _ j Hj; lia | reflexivity].
  - simpl all2. rewrite andb_true_iff. rewrite (IH l2) by lia. split.
    + intros [H0 H] [|j] Hj; simpl; [exact H0 | apply H; simpl in Hj; lia].
    + intro H. split; [apply (H 0); simpl; lia | intros j Hj; apply (H (S j)); simpl; lia].
Qed.

Lemma scalar_eqb_int x y : scalar_eqb (SI x) (SI y) = true <-> x = y.
Proof. simpl. apply Z.eqb_eq. Qed.
Lemma scalar_eqb_str x y : scalar_eqb (SS x) (SS y) = true <-> x = y.
Proof. simpl. apply String.eqb_eq. Qed.
Lemma scalar_eqb_int_str x y : scalar_eqb (SI x) (SS y) = false /\ scalar_eqb (SS y) (SI x) = false.
Proof. split; reflexivity. Qed.
Lemma scalar_eqb_float x y : scalar_eqb (SF x) (SF y) = true <-> (x == y)%Q.
Proof. simpl. apply Qeq_bool_iff. Qed.

Theorem exact_eq_iff a b :
  wf_arr a = true -> wf_arr b = true ->
  (exact_eq a b = Ok true <->
   compatible (shape a) (shape b) = true /\
   forall j, j < length (data a) -> scalar_eqb (nth j (data a) (SI 0)) (nth j (data b) (SI 0)) = true).
Proof.
  intros Ha Hb. unfold exact_eq. destruct (compatible (shape a) (shape b)) eqn:Hc.
  - assert (L := compatible_length a b Ha Hb Hc). split.
    + intro H. injection H as H'. split; [reflexivity|]. rewrite (all2_iff _ (SI 0)) in H' by exact L. exact H'.
    + intros [_ H]. f_equal. rewrite (all2_iff _ (SI 0)) by exact L. exact H.
  - split; [discriminate | intros [H _]; discriminate].
Qed.

(* C09: on integer/string data the default predicate IS exact equality; tolerances are not consulted *)
Theorem default_int_str_exact rel abs a b :
  is_float_kind (kind a) = false -> is_float_kind (kind b) = false ->
  default_eq rel abs a b = exact_eq a b.
Proof. intros Ha Hb. unfold default_eq, has_floats. rewrite Ha, Hb. reflexivity. Qed.

Theorem default_float_is_fuzzy rel abs a b :
  is_float_kind (kind a) = true \/ is_float_kind (kind b) = true ->
  default_eq rel abs a b = fuzzy_eq rel abs a b.
Proof.
  intros H. unfold default_eq, has_floats. destruct H as [H|H]; rewrite H; [|rewrite orb_true_r]; reflexivity.
Qed.

Theorem tolerance_cannot_equate_ints rel abs a b j :
  wf_arr a = true -> wf_arr b = true ->
  is_float_kind (kind a) = false -> is_float_kind (kind b) = false ->
  j < length (data a) ->
  scalar_eqb (nth j (data a) (SI 0)) (nth j (data b) (SI 0)) = false ->
  default_eq rel abs a b = Ok false.
Proof.
  intros Ha Hb Ka Kb Hj Hne. rewrite default_int_str_exact by assumption.
  destruct (exact_eq a b) as [[|]|] eqn:E.
  - apply exact_eq_iff in E; try assumption. destruct E as [_ E]. rewrite E in Hne by exact Hj. discriminate.
  - reflexivity.
  - unfold exact_eq in E. destruct (compatible (shape a) (shape b)); discriminate.
Qed.

(* exact equality never errs *)
Theorem exact_eq_total a b : exact_eq a b <> Err.
Proof. unfold exact_eq. destruct (compatible (shape a) (shape b)); discriminate. Qed.

(* ---------------------------------------------------------------- reflexivity / symmetry / monotonicity (C10) *)
Lemma all2_refl {A} (f : A -> A -> bool) l : (forall x, f x x = true) -> all2 f l l = true.
Proof. intro H. induction l as [|x l IH]; simpl; [reflexivity|]. rewrite H, IH. reflexivity. Qed.

Lemma all2_sym {A} (f : A -> A -> bool) l1 : forall l2, (forall x y, f x y = f y x) -> all2 f l1 l2 = all2 f l2 l1.
Proof.
  induction l1 as [|x l1 IH]; intros [|y l2] H; simpl; try reflexivity. rewrite H, IH by exact H. reflexivity.
Qed.

Lemma scalar_eqb_refl x : scalar_eqb x x = true.
Proof.
  destruct x; simpl; [apply Z.eqb_refl | apply Qeq_bool_iff; reflexivity | apply String.eqb_refl].
Qed.

Lemma Qeq_bool_sym x y : Qeq_bool x y = Qeq_bool y x.
Proof.
  destruct (Qeq_bool x y) eqn:E1; destruct (Qeq_bool y x) eqn:E2; try reflexivity.
  - apply Qeq_bool_iff in E1. symmetry in E1. apply Qeq_bool_iff in E1. congruence.
  - apply Qeq_bool_iff in E2. symmetry in E2. apply Qeq_bool_iff in E2. congruence.
Qed.

Lemma scalar_eqb_sym x y : scalar_eqb x y = scalar_eqb y x.
Proof.
  destruct x, y; simpl; try reflexivity; try apply Z.eqb_sym; try apply Qeq_bool_sym; try apply String.eqb_sym.
Qed.

Theorem exact_refl a : exact_eq a a = Ok true.
Proof. unfold exact_eq. rewrite compatible_refl. f_equal. apply all2_refl. apply scalar_eqb_refl. Qed.

Theorem exact_sym a b : exact_eq a b = exact_eq b a.
Proof.
  unfold exact_eq. rewrite (compatible_sym (shape b) (shape a)).
  destruct (compatible (shape a) (shape b)); [|reflexivity].
  f_equal. apply all2_sym. apply scalar_eqb_sym.
Qed.

(* non-negativity of a resolved tolerance *)
Definition rtol_nonneg (t : rtol) : Prop :=
  match t with RNum q => (0 <= q)%Q | RComp l => Forall (fun q => (0 <= q)%Q) l end.

Lemma tol_at_nonneg k t j : rtol_nonneg t -> (0 <= tol_at k t j)%Q.
Proof.
  destruct t as [q|l]; simpl; intro H; [exact H|].
  destruct (nth_in_or_default (j mod k) l 0%Q) as [Hi|Hd].
  - rewrite Forall_forall in H. apply H. exact Hi.
  - rewrite Hd. apply Qle_refl.
Qed.

Theorem fuzzy_refl rel abs a d r t :
  to_qs (data a) = Some d ->
  resolve rel (kind a) (kind a) (fst (reconcile (shape a) (shape a))) d d = Some r ->
  resolve abs (kind a) (kind a) (fst (reconcile (shape a) (shape a))) d d = Some t ->
  rtol_nonneg t ->
  fuzzy_eq rel abs a a = Ok true.
Proof.
  intros Hd Hr Ht Hn. unfold fuzzy_eq. rewrite compatible_refl. rewrite Hd, Hr, Ht.
  f_equal. apply fuzzy_all_refl. intro j. apply tol_at_nonneg. exact Hn.
Qed.

(* resolved tolerances are symmetric functions of the two arrays *)
Lemma default_eps_sym k1 k2 : default_eps k1 k2 = default_eps k2 k1.
Proof. destruct k1, k2; simpl; try reflexivity. rewrite orb_comm. reflexivity. Qed.

Definition rtol_eq (x y : rtol) : Prop :=
  match x, y with
  | RNum p, RNum q => (p == q)%Q
  | RComp l, RComp m => Forall2 Qeq l m
  | _, _ => False
  end.

Global Instance fuzzy_q_proper : Proper (Qeq ==> Qeq ==> Qeq ==> Qeq ==> eq) fuzzy_q.
Proof.
  intros a a' Ha b b' Hb r r' Hr t t' Ht. unfold fuzzy_q, thr_q.
  destruct (Qle_bool (Qabs (b - a)) _) eqn:E1; destruct (Qle_bool (Qabs (b' - a')) _) eqn:E2; try reflexivity.
  - apply Qle_bool_iff in E1. rewrite Ha, Hb, Hr, Ht in E1. apply Qle_bool_iff in E1. congruence.
  - apply Qle_bool_iff in E2. rewrite <- Ha, <- Hb, <- Hr, <- Ht in E2. apply Qle_bool_iff in E2. congruence.
Qed.

Lemma fuzzy_all_proper d1 : forall d2 i r1 r2 t1 t2,
  (forall j, (r1 j == r2 j)%Q) -> (forall j, (t1 j == t2 j)%Q) ->
  fuzzy_all i r1 t1 d1 d2 = fuzzy_all i r2 t2 d1 d2.
Proof.
  induction d1 as [|a d1 IH]; intros [|b d2] i r1 r2 t1 t2 Hr Ht; simpl; try reflexivity.
  rewrite (fuzzy_q_proper a a (Qeq_refl a) b b (Qeq_refl b) _ _ (Hr i) _ _ (Ht i)).
  f_equal. apply IH; assumption.
Qed.

Lemma nth_Forall2_Qeq l m j : Forall2 Qeq l m -> (nth j l 0 == nth j m 0)%Q.
Proof.
  intro H. revert j. induction H as [|x y l m Hxy H IH]; intros [|j]; simpl; try reflexivity; auto.
Qed.

Lemma tol_at_proper k x y j : rtol_eq x y -> (tol_at k x j == tol_at k y j)%Q.
Proof.
  destruct x, y; simpl; intro H; try contradiction; [exact H | apply nth_Forall2_Qeq; exact H].
Qed.

Lemma Forall2_Qeq_refl l : Forall2 Qeq l l.
Proof. induction l; constructor; [reflexivity | assumption]. Qed.

Lemma rtol_eq_refl x : rtol_eq x x.
Proof. destruct x; simpl; [reflexivity | apply Forall2_Qeq_refl]. Qed.

Lemma Forall2_map2 {A} (f g : A -> Q) l : (forall x, (f x == g x)%Q) -> Forall2 Qeq (map f l) (map g l).
Proof. intro H. induction l; simpl; constructor; auto. Qed.

Lemma combine_swap_map {A B C} (f : A * B -> C) (g : B * A -> C) l : forall m,
  (forall x y, f (x, y) = g (y, x)) -> map f (combine l m) = map g (combine m l).
Proof.
  induction l as [|x l IH]; intros [|y m] H; simpl; try reflexivity. rewrite H. f_equal. apply IH. exact H.
Qed.

Lemma resolve_sym tl k1 k2 s d1 d2 x :
  resolve tl k1 k2 s d1 d2 = Some x ->
  exists y, resolve tl k2 k1 s d2 d1 = Some y /\ rtol_eq x y.
Proof.
  destruct tl as [q|l|base|base|]; simpl.
  - intro H. inversion H. eexists. split; [reflexivity | apply rtol_eq_refl].
  - destruct (_ && _); [|discriminate].
    intro H. inversion H. eexists. split; [reflexivity | apply rtol_eq_refl].
  - destruct d1 as [|a1 d1]; [intro H; simpl in H; discriminate H|]. destruct d2 as [|a2 d2]; [intro H; simpl in H; discriminate H|].
    intro H. inversion H. eexists. split; [reflexivity|]. simpl.
    rewrite (qmax_comm (max_abs (a1 :: d1))). reflexivity.
  - destruct d1 as [|a1 d1]; [intro H; simpl in H; discriminate H|]. destruct d2 as [|a2 d2]; [intro H; simpl in H; discriminate H|].
    set (m12 := map (fun p => qmax (fst p) (snd p)) (combine (max_abs_comp (ncomp s) (a1 :: d1)) (max_abs_comp (ncomp s) (a2 :: d2)))).
    set (m21 := map (fun p => qmax (fst p) (snd p)) (combine (max_abs_comp (ncomp s) (a2 :: d2)) (max_abs_comp (ncomp s) (a1 :: d1)))).
    assert (HM : Forall2 Qeq m12 m21).
    { unfold m12, m21. generalize (max_abs_comp (ncomp s) (a1 :: d1)) (max_abs_comp (ncomp s) (a2 :: d2)).
      intros u. induction u as [|p u IH]; intros [|q v]; simpl; constructor; [apply qmax_comm | apply IH]. }
    intro H. inversion H. eexists. split; [reflexivity|]. simpl.
    clear -HM. induction HM as [|p q u v Hpq HM IH]; simpl; constructor; [rewrite Hpq; reflexivity | assumption].
  - rewrite (default_eps_sym k2 k1). destruct (default_eps k1 k2); [|discriminate].
    intro H. inversion H. eexists. split; [reflexivity | apply rtol_eq_refl].
Qed.

Theorem fuzzy_sym rel abs a b : fuzzy_eq rel abs a b = fuzzy_eq rel abs b a.
Proof.
  unfold fuzzy_eq. rewrite (compatible_sym (shape b) (shape a)).
  destruct (compatible (shape a) (shape b)) eqn:Hc; [|reflexivity].
  rewrite (reconcile_fst_sym (shape b) (shape a)) by (rewrite compatible_sym; exact Hc).
  set (s := fst (reconcile (shape a) (shape b))).
  destruct (to_qs (data a)) as [d1|]; destruct (to_qs (data b)) as [d2|]; try reflexivity.
  destruct (resolve rel (kind a) (kind b) s d1 d2) as [r|] eqn:Er.
  - destruct (resolve_sym _ _ _ _ _ _ _ Er) as [r' [Er' Rr]]. rewrite Er'.
    destruct (resolve abs (kind a) (kind b) s d1 d2) as [t|] eqn:Et.
    + destruct (resolve_sym _ _ _ _ _ _ _ Et) as [t' [Et' Rt]]. rewrite Et'.
      f_equal. rewrite fuzzy_all_sym. apply fuzzy_all_proper; intro j; apply tol_at_proper; assumption.
    + destruct (resolve abs (kind b) (kind a) s d2 d1) as [t'|] eqn:Et'; [|reflexivity].
      destruct (resolve_sym _ _ _ _ _ _ _ Et') as [t'' [Et'' _]]. congruence.
  - destruct (resolve rel (kind b) (kind a) s d2 d1) as [r'|] eqn:Er'.
    + destruct (resolve_sym _ _ _ _ _ _ _ Er') as [r'' [Er'' _]]. congruence.
    + destruct (resolve abs (kind a) (kind b) s d1 d2); destruct (resolve abs (kind b) (kind a) s d2 d1); reflexivity.
Qed.

(* pointwise order on resolved tolerances *)
Definition rtol_le (k : nat) (x y : rtol) : Prop := forall j, (tol_at k x j <= tol_at k y j)%Q.

Theorem fuzzy_mono rel1 rel2 abs1 abs2 a b d1 d2 r1 r2 t1 t2 :
  to_qs (data a) = Some d1 -> to_qs (data b) = Some d2 ->
  let s := fst (reconcile (shape a) (shape b)) in
  resolve rel1 (kind a) (kind b) s d1 d2 = Some r1 -> resolve rel2 (kind a) (kind b) s d1 d2 = Some r2 ->
  resolve abs1 (kind a) (kind b) s d1 d2 = Some t1 -> resolve abs2 (kind a) (kind b) s d1 d2 = Some t2 ->
  rtol_le (ncomp s) r1 r2 -> rtol_le (ncomp s) t1 t2 ->
  fuzzy_eq rel1 abs1 a b = Ok true -> fuzzy_eq rel2 abs2 a b = Ok true.
Proof.
  intros Hd1 Hd2 s Hr1 Hr2 Ht1 Ht2 Lr Lt. unfold fuzzy_eq.
  destruct (compatible (shape a) (shape b)); [|discriminate].
  rewrite Hd1, Hd2. fold s. rewrite Hr1, Hr2, Ht1, Ht2. intro H. inversion H as [H']. rewrite H'.
  f_equal. eapply fuzzy_all_mono; [apply Lr | apply Lt | exact H'].
Qed.

(* scaled tolerances are monotone in their base *)
Theorem scaled_mono b1 b2 k1 k2 s d1 d2 r1 r2 :
  (b1 <= b2)%Q ->
  resolve (TScaled b1) k1 k2 s d1 d2 = Some r1 -> resolve (TScaled b2) k1 k2 s d1 d2 = Some r2 ->
  rtol_le (ncomp s) r1 r2.
Proof.
  intros Hb H1 H2. unfold resolve in *.
  destruct d1 as [|x d1]; [discriminate|]. destruct d2 as [|y d2]; [discriminate|].
  inversion H1; inversion H2; subst. intro j. unfold tol_at.
  apply Qmult_le_compat_r; [exact Hb|]. apply qmax_nonneg_l.
  first [ apply max_abs_nonneg | apply qmax_nonneg_l; apply Qabs_nonneg ].
Qed.
