(* Proofs/FuzzySortAlgoP.v — the block-refinement sorting strategy (as repaired) meets the sorting specification:
   for every input, with ANY component-wise sorter, the result is a permutation of the input whose class vectors are in
   lexicographic order; if the class vectors are pairwise distinct it satisfies `sorted_strict` (C02). *)
From Coq Require Import ZArith Arith Bool List Lia Permutation Sorted.
From FC Require Import Model.SortSpec Model.FuzzySortAlgo Proofs.SortP.
Import ListNotations.

Definition peq (k : nat) (p q : zpoint) : Prop := firstn k p = firstn k q.

(* non-strict lexicographic order on the first k components *)
Fixpoint lexle (k : nat) (p q : zpoint) : Prop :=
  match k with
  | 0 => True
  | S k' => lexle k' p q /\ (peq k' p q -> (nth k' p 0 <= nth k' q 0)%Z)
  end.

Lemma firstn_S_nth (p : zpoint) k : k < length p -> firstn (S k) p = firstn k p ++ [nth k p 0%Z].
Proof.
  revert k. induction p as [|a p IH]; intros k H; simpl in H; [lia|].
  destruct k as [|k]; [reflexivity|]. simpl. f_equal. apply IH. lia.
Qed.

Lemma peq_S k p q : k < length p -> k < length q ->
  (peq (S k) p q <-> peq k p q /\ nth k p 0%Z = nth k q 0%Z).
Proof.
  intros Hp Hq. unfold peq. rewrite (firstn_S_nth p k Hp), (firstn_S_nth q k Hq). split.
  - intro H. apply app_inj_tail in H. destruct H as [H1 H2]. split; [exact H1 | exact H2].
  - intros [H1 H2]. rewrite H1, H2. reflexivity.
Qed.

Lemma peq_le k p q : peq (S k) p q -> peq k p q.
Proof.
  unfold peq. intro H. assert (E : firstn k (firstn (S k) p) = firstn k (firstn (S k) q)) by (rewrite H; reflexivity).
  rewrite !firstn_firstn in E. replace (Init.Nat.min k (S k)) with k in E by lia. exact E.
Qed.

Section Order.
  Variable d : nat.
  Definition wfp (p : zpoint) : Prop := length p = d.

  Lemma peq_lexle k p q : k <= d -> wfp p -> wfp q -> peq k p q -> lexle k p q.
  Proof.
    induction k as [|k IH]; intros Hk Hp Hq H; simpl; [exact I|].
    split; [apply IH; [lia | exact Hp | exact Hq | apply peq_le; exact H]|].
    intros _. apply peq_S in H; [|unfold wfp in *; lia|unfold wfp in *; lia]. destruct H as [_ H]. lia.
  Qed.

  Lemma sandwich k p q r : k <= d -> wfp p -> wfp q -> wfp r ->
    lexle k p q -> lexle k q r -> peq k p r -> peq k p q /\ peq k q r.
  Proof.
    induction k as [|k IH]; intros Hk Hp Hq Hr H1 H2 H3; [split; reflexivity|].
    simpl in H1, H2. destruct H1 as [A1 B1]. destruct H2 as [A2 B2].
    assert (Lp : k < length p) by (unfold wfp in *; lia). assert (Lq : k < length q) by (unfold wfp in *; lia).
    assert (Lr : k < length r) by (unfold wfp in *; lia).
    apply (peq_S k p r Lp Lr) in H3. destruct H3 as [E1 E2].
    destruct (IH ltac:(lia) Hp Hq Hr A1 A2 E1) as [P1 P2].
    specialize (B1 P1). specialize (B2 P2).
    split; apply peq_S; try assumption; split; try assumption; lia.
  Qed.

  Lemma lexle_trans k p q r : k <= d -> wfp p -> wfp q -> wfp r -> lexle k p q -> lexle k q r -> lexle k p r.
  Proof.
    induction k as [|k IH]; intros Hk Hp Hq Hr H1 H2; [exact I|].
    pose proof H1 as H1'. pose proof H2 as H2'. simpl in H1, H2. destruct H1 as [A1 B1]. destruct H2 as [A2 B2].
    simpl. split; [apply (IH ltac:(lia) Hp Hq Hr A1 A2)|].
    intro E. destruct (sandwich k p q r ltac:(lia) Hp Hq Hr A1 A2 E) as [P1 P2].
    specialize (B1 P1). specialize (B2 P2). lia.
  Qed.

  (* lexle on all d components together with inequality is the strict order decided by lex_ltb *)
  Lemma lexle_full_strict : forall p q, wfp p -> wfp q -> lexle d p q -> p <> q -> lex_ltb p q = true.
  Proof.
    intros p q Hp Hq H Hne.
    (* find the first differing component *)
    assert (G : forall k, k <= d -> lexle k p q -> (peq k p q \/ lex_ltb p q = true)).
    { induction k as [|k IH]; intros Hk Hl; [left; reflexivity|].
      simpl in Hl. destruct Hl as [A B]. destruct (IH ltac:(lia) A) as [E|E]; [|right; exact E].
      specialize (B E).
      assert (Lp : k < length p) by (unfold wfp in *; lia). assert (Lq : k < length q) by (unfold wfp in *; lia).
      destruct (Z.eq_dec (nth k p 0%Z) (nth k q 0%Z)) as [Eq|Nq].
      - left. apply peq_S; tauto.
      - right. assert (Lt : (nth k p 0 < nth k q 0)%Z) by lia.
        clear -E Lt Lp Lq. unfold peq in E. revert q k E Lt Lp Lq.
        induction p as [|a p IHp]; intros q k E Lt Lp Lq; simpl in Lp; [lia|].
        destruct q as [|b q]; simpl in Lq; [lia|]. destruct k as [|k]; simpl in *.
        + assert (X : (a <? b)%Z = true) by (apply Z.ltb_lt; exact Lt). rewrite X. reflexivity.
        + inversion E; subst. rewrite Z.ltb_irrefl, Z.eqb_refl. apply (IHp q k); try assumption; lia. }
    destruct (G d (Nat.le_refl d) H) as [E|E]; [|exact E].
    exfalso. apply Hne. unfold peq, wfp in *. rewrite <- Hp in E at 1. rewrite firstn_all in E. rewrite <- Hq in E. rewrite firstn_all in E. exact E.
  Qed.
End Order.

(* ---------------------------------------------------------------- generic list facts *)
Fixpoint Cross {A} (R : A -> A -> Prop) (gs : list (list A)) : Prop :=
  match gs with
  | [] => True
  | g :: gs' => (forall x y, In x g -> In y (concat gs') -> R x y) /\ Cross R gs'
  end.

Lemma SS_app {A} (R : A -> A -> Prop) (a b : list A) :
  StronglySorted R a -> StronglySorted R b -> (forall x y, In x a -> In y b -> R x y) -> StronglySorted R (a ++ b).
Proof.
  intros Ha Hb H. induction a as [|x a IH]; simpl; [exact Hb|].
  inversion Ha; subst. constructor.
  - apply IH; [assumption|]. intros u v Hu Hv. apply H; [right; exact Hu | exact Hv].
  - apply Forall_forall. intros y Hy. apply in_app_or in Hy. destruct Hy as [Hy|Hy].
    + rewrite Forall_forall in H3. apply H3. exact Hy.
    + apply H; [left; reflexivity | exact Hy].
Qed.

Lemma SS_concat {A} (R : A -> A -> Prop) (gs : list (list A)) :
  Forall (StronglySorted R) gs -> Cross R gs -> StronglySorted R (concat gs).
Proof.
  induction gs as [|g gs IH]; intros HF HC; simpl; [constructor|].
  inversion HF; subst. destruct HC as [C1 C2]. apply SS_app; [assumption | apply IH; assumption | exact C1].
Qed.

Lemma SS_in_order {A} (R : A -> A -> Prop) (a b : list A) x y :
  StronglySorted R (a ++ b) -> In x a -> In y b -> R x y.
Proof.
  induction a as [|z a IH]; intros H Hx Hy; [contradiction|]. simpl in H. inversion H; subst.
  destruct Hx as [Hx|Hx].
  - subst. rewrite Forall_forall in H3. apply H3. apply in_or_app. right. exact Hy.
  - apply IH; assumption.
Qed.

(* ---------------------------------------------------------------- runs *)
Lemma prefix_eqb_peq k p q : prefix_eqb k p q = true <-> peq k p q.
Proof. unfold prefix_eqb, peq. apply zpoint_eqb_eq. Qed.

Lemma runs_nonempty k l : Forall (fun g => g <> []) (runs k l).
Proof.
  induction l as [|x r IH]; simpl; [constructor|].
  destruct (runs k r) as [|[|y g] gs] eqn:E.
  - constructor; [discriminate | constructor].
  - constructor; [discriminate | constructor].
  - inversion IH; subst. destruct (prefix_eqb k x y).
    + constructor; [discriminate | assumption].
    + constructor; [discriminate | constructor; assumption].
Qed.

Lemma runs_concat k l : concat (runs k l) = l.
Proof.
  induction l as [|x r IH]; simpl; [reflexivity|].
  pose proof (runs_nonempty k r) as NE.
  destruct (runs k r) as [|[|y g] gs] eqn:E; simpl in *.
  - rewrite <- IH. reflexivity.
  - inversion NE; subst. congruence.
  - destruct (prefix_eqb k x y); simpl; rewrite <- IH; reflexivity.
Qed.

Section Runs.
  Variable d : nat.
  Variable k : nat.
  Hypothesis Hk : k <= d.

  (* every run is a block of elements with pairwise equal k-prefix; elements of different runs differ in the k-prefix *)
  Lemma runs_spec l :
    Forall (wfp d) l -> StronglySorted (lexle k) l ->
    Forall (fun g => forall x y, In x g -> In y g -> peq k x y) (runs k l) /\
    Cross (fun x y => ~ peq k x y) (runs k l).
  Proof.
    induction l as [|x r IH]; intros HW HS; simpl; [split; constructor|].
    pose proof (Forall_inv HW) as W1. pose proof (Forall_inv_tail HW) as W2.
    inversion HS as [|? ? S1 S2]; subst. destruct (IH W2 S1) as [I1 I2].
    pose proof (runs_concat k r) as RC.
    destruct (runs k r) as [|[|y g] gs] eqn:E.
    - split; [constructor; [|constructor]|simpl; split; [intros u v _ Hv; contradiction | exact I]].
      intros u v [Hu|[]] [Hv|[]]; subst; reflexivity.
    - exfalso. pose proof (runs_nonempty k r) as NE. rewrite E in NE. inversion NE; subst. congruence.
    - destruct (prefix_eqb k x y) eqn:EP.
      + apply prefix_eqb_peq in EP. pose proof (Forall_inv I1) as G1. pose proof (Forall_inv_tail I1) as G2. split.
        * constructor; [|exact G2]. intros u v Hu Hv.
          assert (Py : forall z, In z (x :: y :: g) -> peq k y z).
          { intros z [Hz|Hz]; [subst; symmetry; exact EP | apply G1; [left; reflexivity | exact Hz]]. }
          unfold peq in *. rewrite <- (Py u Hu), <- (Py v Hv). reflexivity.
        * simpl. simpl in I2. destruct I2 as [J1 J2]. split; [|exact J2].
          intros u v Hu Hv P. destruct Hu as [Hu|Hu].
          -- subst u. apply (J1 y v (or_introl eq_refl) Hv). unfold peq in *. rewrite <- EP. exact P.
          -- apply (J1 u v Hu Hv P).
      + split; [constructor; [|exact I1]|].
        * intros u v [Hu|[]] [Hv|[]]; subst; reflexivity.
        * simpl. split; [|exact I2]. intros u v [Hu|[]] Hv. subst u. intro P.
          assert (Hv' : In v r) by (rewrite <- RC; exact Hv).
          assert (Hy : In y r) by (rewrite <- RC; simpl; left; reflexivity).
          rewrite Forall_forall in S2, W2.
          assert (Lxy : lexle k x y) by (apply S2; exact Hy).
          assert (Lyv : lexle k y v).
          { destruct (in_split _ _ Hv') as [a [b Eab]]. simpl in RC.
            destruct Hv as [Hv|Hv]; [subst; apply (peq_lexle d k); [exact Hk | apply W2; exact Hy | apply W2; exact Hy | reflexivity]|].
            (* v occurs after y in r = y :: g ++ concat gs *)
            rewrite <- RC in S1. simpl in S1. inversion S1 as [|? ? T1 T2]; subst. rewrite Forall_forall in T2. apply T2. exact Hv. }
          destruct (sandwich d k x y v Hk W1 (W2 y Hy) (W2 v Hv') Lxy Lyv P) as [Q _].
          apply prefix_eqb_peq in Q. congruence.
  Qed.
End Runs.

(* ---------------------------------------------------------------- the refinement step and the whole algorithm *)
Section AlgoCorrect.
  Variable sortby : nat -> list zpoint -> list zpoint.
  Hypothesis sortby_perm : forall k l, Permutation (sortby k l) l.
  Hypothesis sortby_sorted : forall k l, StronglySorted (fun p q => (nth k p 0 <= nth k q 0)%Z) (sortby k l).

  Lemma Forall_perm {A} (P : A -> Prop) l l' : Permutation l l' -> Forall P l' -> Forall P l.
  Proof. intros HP HF. rewrite Forall_forall in *. intros x Hx. apply HF. apply (Permutation_in _ HP). exact Hx. Qed.

  Lemma refine_perm k l : Permutation (refine sortby k l) l.
  Proof.
    unfold refine. rewrite <- (runs_concat k l) at 2. generalize (runs k l). intro gs.
    induction gs as [|g gs IH]; simpl; [constructor|]. apply Permutation_app; [apply sortby_perm | exact IH].
  Qed.

  Lemma SS_weaken {A} (R R' : A -> A -> Prop) l :
    (forall x y, In x l -> In y l -> R x y -> R' x y) -> StronglySorted R l -> StronglySorted R' l.
  Proof.
    intros H HS. induction HS as [|x l HS IH HF]; constructor.
    - apply IH. intros u v Hu Hv. apply H; right; assumption.
    - rewrite Forall_forall in *. intros y Hy. apply H; [left; reflexivity | right; exact Hy | apply HF; exact Hy].
  Qed.

  Theorem refine_sorted d k l :
    k < d -> Forall (wfp d) l -> StronglySorted (lexle k) l -> StronglySorted (lexle (S k)) (refine sortby k l).
  Proof.
    intros Hk HW HS. destruct (runs_spec d k ltac:(lia) l HW HS) as [R1 R2].
    pose proof (runs_concat k l) as RC. unfold refine.
    assert (WG : Forall (Forall (wfp d)) (runs k l)).
    { apply Forall_forall. intros g Hg. apply Forall_forall. intros x Hx. rewrite Forall_forall in HW. apply HW.
      rewrite <- RC. apply in_concat. exists g. split; assumption. }
    assert (SSl : StronglySorted (lexle k) (concat (runs k l))) by (rewrite RC; exact HS).
    revert R1 R2 WG SSl. generalize (runs k l). intro gs.
    induction gs as [|g gs IH]; intros R1 R2 WG SSl; simpl; [constructor|].
    inversion R1; subst. inversion WG; subst. destruct R2 as [C1 C2]. simpl in SSl.
    apply SS_app.
    - (* inside one block: equal k-prefix, sorted by component k *)
      apply (SS_weaken (fun p q => (nth k p 0 <= nth k q 0)%Z)); [|apply sortby_sorted].
      intros x y Hx Hy Hle.
      assert (Hx' : In x g) by (apply (Permutation_in _ (sortby_perm k g)); exact Hx).
      assert (Hy' : In y g) by (apply (Permutation_in _ (sortby_perm k g)); exact Hy).
      rewrite Forall_forall in H3. simpl. split; [|intros _; exact Hle].
      apply (peq_lexle d k); [lia | apply H3; exact Hx' | apply H3; exact Hy' | apply H1; assumption].
    - apply IH; try assumption.
      clear -SSl. induction g as [|a g IHg]; simpl in SSl; [exact SSl|]. inversion SSl; subst. apply IHg. exact H1.
    - (* across blocks: earlier block first in the k-prefix order and different k-prefix *)
      intros x y Hx Hy.
      assert (Hx' : In x g) by (apply (Permutation_in _ (sortby_perm k g)); exact Hx).
      assert (Hy' : In y (concat gs)).
      { clear -Hy sortby_perm. induction gs as [|h gs IHg]; simpl in *; [exact Hy|]. apply in_app_or in Hy. apply in_or_app.
        destruct Hy as [Hy|Hy]; [left; apply (Permutation_in _ (sortby_perm k h)); exact Hy | right; apply IHg; exact Hy]. }
      simpl. split; [apply (SS_in_order _ g (concat gs)); assumption|].
      intro P. exfalso. apply (C1 x y Hx' Hy' P).
  Qed.

  Lemma refine_wf d k l : Forall (wfp d) l -> Forall (wfp d) (refine sortby k l).
  Proof. intro H. apply (Forall_perm _ _ _ (refine_perm k l)). exact H. Qed.

  Lemma refine_from_sorted d n : forall k l,
    k + n = d -> Forall (wfp d) l -> StronglySorted (lexle k) l ->
    StronglySorted (lexle d) (refine_from sortby k n l) /\ Permutation (refine_from sortby k n l) l.
  Proof.
    induction n as [|n IH]; intros k l Hd HW HS; simpl.
    - replace d with k by lia. split; [exact HS | apply Permutation_refl].
    - destruct (IH (S k) (refine sortby k l) ltac:(lia) (refine_wf d k l HW) (refine_sorted d k l ltac:(lia) HW HS)) as [A B].
      split; [exact A | eapply Permutation_trans; [exact B | apply refine_perm]].
  Qed.

  (* C02: for EVERY input the strategy returns a permutation of the input in lexicographic class-vector order *)
  Theorem fuzzy_lex_sort_correct d l :
    Forall (wfp d) l ->
    StronglySorted (lexle d) (fuzzy_lex_sort sortby d l) /\ Permutation (fuzzy_lex_sort sortby d l) l.
  Proof.
    intro HW. unfold fuzzy_lex_sort. destruct d as [|d'].
    - split; [|apply Permutation_refl]. clear. induction l as [|x l IH]; constructor; [exact IH | apply Forall_forall; intros; exact I].
    - assert (W0 : Forall (wfp (S d')) (sortby 0 l)) by (apply (Forall_perm _ _ _ (sortby_perm 0 l)); exact HW).
      assert (S0 : StronglySorted (lexle 1) (sortby 0 l)).
      { apply (SS_weaken (fun p q => (nth 0 p 0 <= nth 0 q 0)%Z)); [|apply sortby_sorted].
        intros x y _ _ H. simpl. split; [exact I | intros _; exact H]. }
      destruct (refine_from_sorted (S d') d' 1 (sortby 0 l) ltac:(lia) W0 S0) as [A B].
      split; [exact A | eapply Permutation_trans; [exact B | apply sortby_perm]].
  Qed.

  (* ... and meets the executable specification `sorted_strict` when the class vectors are pairwise distinct *)
  Theorem fuzzy_lex_sort_meets_spec d l :
    Forall (wfp d) l -> NoDup l -> sorted_strict (fuzzy_lex_sort sortby d l) = true.
  Proof.
    intros HW ND. destruct (fuzzy_lex_sort_correct d l HW) as [HS HP].
    assert (ND' : NoDup (fuzzy_lex_sort sortby d l)) by (apply (Permutation_NoDup (Permutation_sym HP)); exact ND).
    assert (HW' : Forall (wfp d) (fuzzy_lex_sort sortby d l)) by (apply (Forall_perm _ _ _ HP); exact HW).
    revert HS ND' HW'. generalize (fuzzy_lex_sort sortby d l). intro r.
    induction r as [|p r IH]; intros HS ND' HW'; [reflexivity|].
    inversion HS as [|? ? S1 S2]; subst. inversion ND' as [|? ? N1 N2]; subst.
    pose proof (Forall_inv HW') as W1. pose proof (Forall_inv_tail HW') as W2.
    simpl. destruct r as [|q r']; [reflexivity|].
    rewrite IH by assumption. rewrite andb_true_r.
    apply (lexle_full_strict d); [exact W1 | exact (Forall_inv W2) | |].
    - rewrite Forall_forall in S2. apply S2. left. reflexivity.
    - intro E. subst. apply N1. left. reflexivity.
  Qed.
End AlgoCorrect.

(* the insertion sorter used to run the model satisfies the sorter hypotheses *)
Lemma insert_by_perm k x l : Permutation (insert_by k x l) (x :: l).
Proof.
  induction l as [|y r IH]; simpl; [apply Permutation_refl|].
  destruct (nth k x 0 <=? nth k y 0)%Z; [apply Permutation_refl|].
  eapply Permutation_trans; [apply perm_skip; exact IH | apply perm_swap].
Qed.

Lemma isort_by_perm k l : Permutation (isort_by k l) l.
Proof.
  induction l as [|x l IH]; simpl; [constructor|].
  eapply Permutation_trans; [apply insert_by_perm | apply perm_skip; exact IH].
Qed.

Lemma insert_by_sorted k x l :
  StronglySorted (fun p q => (nth k p 0 <= nth k q 0)%Z) l -> StronglySorted (fun p q => (nth k p 0 <= nth k q 0)%Z) (insert_by k x l).
Proof.
  intro H. induction H as [|y r HS IH HF]; simpl; [constructor; constructor|].
  destruct (nth k x 0 <=? nth k y 0)%Z eqn:E.
  - apply Z.leb_le in E. constructor; [constructor; assumption|].
    constructor; [exact E|]. rewrite Forall_forall in *. intros z Hz. specialize (HF z Hz). lia.
  - apply Z.leb_gt in E. constructor; [exact IH|].
    apply Forall_forall. intros z Hz. apply (Permutation_in _ (insert_by_perm k x r)) in Hz.
    destruct Hz as [Hz|Hz]; [subst; lia | rewrite Forall_forall in HF; apply HF; exact Hz].
Qed.

Lemma isort_by_sorted k l : StronglySorted (fun p q => (nth k p 0 <= nth k q 0)%Z) (isort_by k l).
Proof. induction l as [|x l IH]; simpl; [constructor | apply insert_by_sorted; exact IH]. Qed.
