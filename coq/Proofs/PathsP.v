From Coq Require Import Bool.
From FC Require Import Model.Paths.

(* a relative piece name that exists next to the index file is read from there, whatever the working directory holds *)
Theorem resolve_fixed_ignores_cwd : forall in_cwd, resolve_fixed false in_cwd true = NextToIndex.
Proof. intros []; reflexivity. Qed.

(* absolute names are taken as given *)
Theorem resolve_fixed_absolute : forall in_cwd next_to_index, resolve_fixed true in_cwd next_to_index = AsGiven.
Proof. intros [] []; reflexivity. Qed.

(* finding F-C06g: the pinned rule prefers a namesake in the working directory *)
Theorem resolve_pinned_refuted : resolve_pinned false true true = AsGiven /\ resolve_fixed false true true = NextToIndex.
Proof. split; reflexivity. Qed.
