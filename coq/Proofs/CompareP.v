(* Proofs/CompareP.v — matching partition, "every field exactly once", status correctness, verdict,
   irrelevance of filtered fields, callback trace (C11). *)
From Coq Require Import Arith Bool List Lia Permutation.
From FC Require Import Model.Compare.
Import ListNotations.

Definition names (l : list field) : list nat := map fname l.
Definition has (n : nat) (l : list field) : bool := existsb (fun t => fname t =? n) l.

Lemma has_In n l : has n l = true <-> In n (names l).
Proof.
  unfold has, names. rewrite existsb_exists. rewrite in_map_iff. split.
  - intros [x [Hx E]]. apply Nat.eqb_eq in E. eauto.
  - intros [x [E Hx]]. exists x. split; [exact Hx | apply Nat.eqb_eq; exact E].
Qed.

Lemma has_false n l : has n l = false <-> ~ In n (names l).
Proof. rewrite <- has_In. destruct (has n l); split; congruence. Qed.

Lemma NoDup_app_iff_local {A} (a b : list A) :
  NoDup a -> NoDup b -> (forall x, In x a -> In x b -> False) -> NoDup (a ++ b).
Proof.
  intros Ha Hb H. induction a as [|x a IH]; simpl; [exact Hb|].
  inversion Ha; subst. constructor.
  - rewrite in_app_iff. intros [H1|H1]; [contradiction | apply (H x); [left; reflexivity | exact H1]].
  - apply IH; [assumption|]. intros y Hy. apply H. right. exact Hy.
Qed.

(* ---- take_first ------------------------------------------------------------------------- *)
Lemma take_first_none n l : take_first n l = None <-> has n l = false.
Proof.
  induction l as [|t l IH]; simpl; [tauto|].
  destruct (fname t =? n) eqn:E; simpl.
  - split; discriminate.
  - destruct (take_first n l) as [[m r]|]; [|tauto].
    split; [discriminate|]. intro H. apply IH in H. discriminate.
Qed.

Lemma NoDup_names_cons t l : NoDup (names (t :: l)) -> ~ In (fname t) (names l) /\ NoDup (names l).
Proof. intro H. inversion H; subst. split; assumption. Qed.

Lemma filter_absent n l : ~ In n (names l) -> l = filter (fun x => negb (fname x =? n)) l.
Proof.
  induction l as [|y l IH]; simpl; intro Hx; [reflexivity|].
  destruct (fname y =? n) eqn:E2.
  - apply Nat.eqb_eq in E2. exfalso. apply Hx. left. exact E2.
  - simpl. f_equal. apply IH. intro H. apply Hx. right. exact H.
Qed.

Lemma take_first_some n l t r :
  NoDup (names l) -> take_first n l = Some (t, r) ->
  fname t = n /\ In t l /\ r = filter (fun x => negb (fname x =? n)) l.
Proof.
  revert t r. induction l as [|x l IH]; intros t r ND H; simpl in H; [discriminate|].
  apply NoDup_names_cons in ND. destruct ND as [Hx ND].
  destruct (fname x =? n) eqn:E.
  - apply Nat.eqb_eq in E. rewrite E in Hx. pose proof (filter_absent n l Hx) as FA.
    inversion H; subst. split; [reflexivity|]. split; [left; reflexivity|].
    simpl. rewrite Nat.eqb_refl. simpl. exact FA.
  - destruct (take_first n l) as [[m r']|] eqn:T; [|discriminate]. inversion H; subst.
    destruct (IH t r' ND eq_refl) as [H1 [H2 H3]].
    split; [exact H1|]. split; [right; exact H2|]. simpl. rewrite E. simpl. f_equal. exact H3.
Qed.

Lemma NoDup_names_filter (p : field -> bool) l : NoDup (names l) -> NoDup (names (filter p l)).
Proof.
  induction l as [|x l IH]; simpl; intro H; [constructor|].
  apply NoDup_names_cons in H. destruct H as [Hx ND].
  destruct (p x); simpl; [|apply IH; exact ND].
  constructor; [|apply IH; exact ND].
  intro H. apply Hx. unfold names in *. rewrite in_map_iff in *. destruct H as [y [E Hy]].
  apply filter_In in Hy. exists y. tauto.
Qed.

Lemma has_filter_other n m l : n <> m -> has n (filter (fun x => negb (fname x =? m)) l) = has n l.
Proof.
  intro H. induction l as [|x l IH]; simpl; [reflexivity|].
  destruct (fname x =? m) eqn:E; simpl.
  - apply Nat.eqb_eq in E. destruct (fname x =? n) eqn:E2; [apply Nat.eqb_eq in E2; congruence|]. simpl. exact IH.
  - rewrite IH. reflexivity.
Qed.

(* ---- find_matches under distinct names ---------------------------------------------------- *)
Lemma fm_src src : forall ref, NoDup (names src) -> NoDup (names ref) ->
  map fst (matches (find_matches src ref)) = filter (fun s => has (fname s) ref) src /\
  orph_src (find_matches src ref) = filter (fun s => negb (has (fname s) ref)) src /\
  orph_ref (find_matches src ref) = filter (fun t => negb (has (fname t) src)) ref /\
  (forall p, In p (matches (find_matches src ref)) -> fname (fst p) = fname (snd p) /\ In (snd p) ref).
Proof.
  induction src as [|s src IH]; intros ref NS NR.
  - simpl. repeat split; try reflexivity; try contradiction.
    induction ref as [|t ref IHr]; simpl; [reflexivity|]. f_equal.
    apply IHr. apply NoDup_names_cons in NR. tauto.
  - apply NoDup_names_cons in NS. destruct NS as [Hs NS]. simpl find_matches.
    destruct (take_first (fname s) ref) as [[t ref']|] eqn:T.
    + destruct (take_first_some _ _ _ _ NR T) as [Ht [Hin Hr]].
      assert (Hhas : has (fname s) ref = true).
      { destruct (has (fname s) ref) eqn:E; [reflexivity|]. apply take_first_none in E. congruence. }
      assert (NR' : NoDup (names ref')) by (subst ref'; apply NoDup_names_filter; exact NR).
      destruct (IH ref' NS NR') as [I1 [I2 [I3 I4]]].
      assert (EXT : forall x, In x src -> has (fname x) ref' = has (fname x) ref).
      { intros x Hx. subst ref'. apply has_filter_other. intro E. apply Hs. rewrite <- E.
        unfold names. apply in_map. exact Hx. }
      simpl. rewrite Hhas. simpl. repeat split.
      * f_equal. rewrite I1. apply filter_ext_in. exact EXT.
      * rewrite I2. apply filter_ext_in. intros x Hx. rewrite EXT by exact Hx. reflexivity.
      * rewrite I3. subst ref'. clear -Ht. induction ref as [|y ref IHr]; simpl; [reflexivity|].
        rewrite (Nat.eqb_sym (fname s) (fname y)).
        destruct (fname y =? fname s) eqn:E; simpl.
        -- exact IHr.
        -- destruct (has (fname y) src); simpl; [exact IHr | f_equal; exact IHr].
      * destruct H as [H|H]; [subst p; simpl; congruence | apply I4 in H; tauto].
      * destruct H as [H|H]; [subst p; simpl; exact Hin|].
        apply I4 in H. destruct H as [_ H]. subst ref'. apply filter_In in H. tauto.
    + assert (Hhas : has (fname s) ref = false) by (apply take_first_none; exact T).
      destruct (IH ref NS NR) as [I1 [I2 [I3 I4]]].
      simpl. rewrite Hhas. simpl. repeat split.
      * exact I1.
      * f_equal. exact I2.
      * rewrite I3. apply filter_ext_in. intros y Hy.
        destruct (fname s =? fname y) eqn:E; [|reflexivity].
        apply Nat.eqb_eq in E. exfalso. apply has_false in Hhas. apply Hhas. rewrite E.
        unfold names. apply in_map. exact Hy.
      * apply I4 in H. tauto.
      * apply I4 in H. tauto.
Qed.

(* matching partitions both inputs (general statement, as permutations) *)
Theorem find_matches_partition src ref :
  NoDup (names src) -> NoDup (names ref) ->
  let r := find_matches src ref in
  Permutation src (map fst (matches r) ++ orph_src r) /\
  Permutation (names ref) (map (fun p => fname (fst p)) (matches r) ++ names (orph_ref r)) /\
  (forall p, In p (matches r) -> fname (fst p) = fname (snd p)).
Proof.
  intros NS NR r. destruct (fm_src src ref NS NR) as [I1 [I2 [I3 I4]]]. subst r.
  split; [|split].
  - rewrite I1, I2. clear. induction src as [|s src IH]; simpl; [constructor|].
    destruct (has (fname s) ref); simpl.
    + constructor. exact IH.
    + eapply Permutation_trans; [apply perm_skip; exact IH|]. apply Permutation_middle.
  - (* names of ref = names of matched sources (equal to the names of their partners) ++ unmatched refs *)
    apply NoDup_Permutation.
    + exact NR.
    + (* NoDup of the right-hand side *)
      rewrite I3.
      assert (E : map (fun p => fname (fst p)) (matches (find_matches src ref)) = names (filter (fun s => has (fname s) ref) src)).
      { unfold names. rewrite <- I1. rewrite map_map. reflexivity. }
      rewrite E. apply NoDup_app_iff_local.
      * apply NoDup_names_filter. exact NS.
      * apply NoDup_names_filter. exact NR.
      * intros n H1 H2. unfold names in H1, H2. rewrite in_map_iff in H1, H2.
        destruct H1 as [x [Ex Hx]]. destruct H2 as [y [Ey Hy]].
        apply filter_In in Hx. apply filter_In in Hy. destruct Hy as [_ Hy].
        apply negb_true_iff in Hy. apply has_false in Hy. apply Hy. rewrite Ey, <- Ex.
        unfold names. apply in_map. tauto.
    + intro n. rewrite in_app_iff. rewrite I3.
      assert (E : map (fun p => fname (fst p)) (matches (find_matches src ref)) = names (filter (fun s => has (fname s) ref) src)).
      { unfold names. rewrite <- I1. rewrite map_map. reflexivity. }
      rewrite E. unfold names. rewrite !in_map_iff. split.
      * intros [t [Et Ht]]. destruct (has n src) eqn:Hn.
        -- left. apply has_In in Hn. unfold names in Hn. rewrite in_map_iff in Hn. destruct Hn as [s [Es Hs]].
           exists s. split; [exact Es|]. apply filter_In. split; [exact Hs|]. apply has_In. rewrite Es, <- Et.
           unfold names. apply in_map. exact Ht.
        -- right. exists t. split; [exact Et|]. apply filter_In. split; [exact Ht|]. rewrite Et, Hn. reflexivity.
      * intros [[s [Es Hs]]|[t [Et Ht]]].
        -- apply filter_In in Hs. destruct Hs as [_ Hs]. apply has_In in Hs. unfold names in Hs.
           rewrite in_map_iff in Hs. rewrite <- Es. exact Hs.
        -- apply filter_In in Ht. exists t. tauto.
  - intros p Hp. apply I4 in Hp. tauto.
Qed.

(* ---- the comparator ------------------------------------------------------------------------ *)
Section Comparator.
  Variables (incl excl : nat -> bool) (out : nat -> outcome) (src ref : list field).
  Hypothesis NS : NoDup (names src).
  Hypothesis NR : NoDup (names ref).

  Let S := compare true incl excl out src ref.

  Lemma matched_sources :
    map fst (matches (find_matches src ref)) = filter (fun s => has (fname s) ref) src.
  Proof. apply fm_src; assumption. Qed.

  Lemma map_fst_filter {A B} (p : A -> bool) (l : list (A * B)) :
    map fst (filter (fun q => p (fst q)) l) = filter p (map fst l).
  Proof. induction l as [|[a b] l IH]; simpl; [reflexivity|]. destruct (p a); simpl; rewrite IH; reflexivity. Qed.

  Lemma trace_is : trace S = names (filter (selected incl excl) (filter (fun s => has (fname s) ref) src)).
  Proof.
    unfold S, compare. simpl. unfold names. rewrite <- matched_sources.
    rewrite <- (map_fst_filter (selected incl excl)). rewrite map_map. reflexivity.
  Qed.

  Lemma entry_names :
    map fst (entries S) =
      names (filter (selected incl excl) (filter (fun s => has (fname s) ref) src))
      ++ names (filter (fun t => negb (has (fname t) src)) ref)
      ++ names (filter (fun s => negb (has (fname s) ref)) src)
      ++ names (filter (fun s => negb (selected incl excl s)) (filter (fun s => has (fname s) ref) src)).
  Proof.
    unfold S, compare. simpl. destruct (fm_src src ref NS NR) as [I1 [I2 [I3 _]]].
    rewrite !map_app, !map_map. simpl. rewrite I2, I3. unfold names. rewrite <- I1.
    rewrite <- (map_fst_filter (selected incl excl)).
    rewrite <- (map_fst_filter (fun s => negb (selected incl excl s))). rewrite !map_map. reflexivity.
  Qed.

  Lemma in_names_filter p l n : In n (names (filter p l)) <-> exists f, In f l /\ fname f = n /\ p f = true.
  Proof.
    unfold names. rewrite in_map_iff. split.
    - intros [f [E H]]. apply filter_In in H. exists f. tauto.
    - intros [f [H [E P]]]. exists f. split; [exact E|]. apply filter_In. tauto.
  Qed.

  Lemma unique_name f g l : NoDup (names l) -> In f l -> In g l -> fname f = fname g -> f = g.
  Proof.
    induction l as [|x l IH]; intros ND Hf Hg E; [contradiction|].
    apply NoDup_names_cons in ND. destruct ND as [Hx ND].
    destruct Hf as [Hf|Hf]; destruct Hg as [Hg|Hg]; subst.
    - reflexivity.
    - exfalso. apply Hx. rewrite E. unfold names. apply in_map. exact Hg.
    - exfalso. apply Hx. rewrite <- E. unfold names. apply in_map. exact Hf.
    - apply IH; assumption.
  Qed.

  (* C11: every field name of either side is reported, and reported exactly once *)
  Theorem report_once :
    NoDup (map fst (entries S)) /\
    forall n, In n (map fst (entries S)) <-> In n (names src) \/ In n (names ref).
  Proof.
    rewrite entry_names. split.
    - apply NoDup_app_iff_local; [apply NoDup_names_filter, NoDup_names_filter; exact NS | |].
      + apply NoDup_app_iff_local; [apply NoDup_names_filter; exact NR | |].
        * apply NoDup_app_iff_local; [apply NoDup_names_filter; exact NS | apply NoDup_names_filter, NoDup_names_filter; exact NS |].
          intros n H1 H2. apply in_names_filter in H1. apply in_names_filter in H2.
          destruct H1 as [f [Hf [Ef Pf]]]. destruct H2 as [g [Hg [Eg Pg]]].
          apply filter_In in Hg. destruct Hg as [Hg Pg']. apply negb_true_iff in Pf.
          assert (f = g) by (apply (unique_name f g src); congruence). subst. congruence.
        * intros n H1 H2. apply in_names_filter in H1. destruct H1 as [t [Ht [Et Pt]]].
          apply negb_true_iff in Pt. apply has_false in Pt. apply Pt. rewrite Et.
          apply in_app_or in H2. destruct H2 as [H2|H2]; apply in_names_filter in H2; destruct H2 as [f [Hf [Ef _]]].
          -- rewrite <- Ef. unfold names. apply in_map. exact Hf.
          -- apply filter_In in Hf. rewrite <- Ef. unfold names. apply in_map. tauto.
      + intros n H1 H2. apply in_names_filter in H1. destruct H1 as [f [Hf [Ef Pf]]].
        apply filter_In in Hf. destruct Hf as [Hf Hhas].
        apply in_app_or in H2. destruct H2 as [H2|H2].
        * apply in_names_filter in H2. destruct H2 as [t [Ht [Et Pt]]].
          apply negb_true_iff in Pt. apply has_false in Pt. apply Pt. rewrite Et, <- Ef. unfold names. apply in_map. exact Hf.
        * apply in_app_or in H2. destruct H2 as [H2|H2]; apply in_names_filter in H2; destruct H2 as [g [Hg [Eg Pg]]].
          -- apply negb_true_iff in Pg. assert (f = g) by (apply (unique_name f g src); congruence). subst. congruence.
          -- apply filter_In in Hg. destruct Hg as [Hg _]. apply negb_true_iff in Pg.
             assert (f = g) by (apply (unique_name f g src); congruence). subst. congruence.
    - intro n. rewrite !in_app_iff. rewrite !in_names_filter. split.
      + intros [[f [Hf [Ef _]]]|[[t [Ht [Et _]]]|[[f [Hf [Ef _]]]|[f [Hf [Ef _]]]]]].
        * apply filter_In in Hf. left. rewrite <- Ef. unfold names. apply in_map. tauto.
        * right. rewrite <- Et. unfold names. apply in_map. tauto.
        * left. rewrite <- Ef. unfold names. apply in_map. tauto.
        * apply filter_In in Hf. left. rewrite <- Ef. unfold names. apply in_map. tauto.
      + intros [H|H].
        * unfold names in H. rewrite in_map_iff in H. destruct H as [f [Ef Hf]].
          destruct (has (fname f) ref) eqn:Hh.
          -- destruct (selected incl excl f) eqn:Sel.
             ++ left. exists f. split; [apply filter_In; tauto | tauto].
             ++ right. right. right. exists f. split; [apply filter_In; tauto|]. split; [exact Ef|]. rewrite Sel. reflexivity.
          -- right. right. left. exists f. split; [exact Hf|]. split; [exact Ef|]. rewrite Hh. reflexivity.
        * unfold names in H. rewrite in_map_iff in H. destruct H as [t [Et Ht]].
          destruct (has (fname t) src) eqn:Hh.
          -- apply has_In in Hh. unfold names in Hh. rewrite in_map_iff in Hh. destruct Hh as [f [Ef Hf]].
             assert (Hr : has (fname f) ref = true) by (apply has_In; rewrite Ef; unfold names; apply in_map; exact Ht).
             destruct (selected incl excl f) eqn:Sel.
             ++ left. exists f. split; [apply filter_In; tauto|]. split; [congruence | exact Sel].
             ++ right. right. right. exists f. split; [apply filter_In; tauto|]. split; [congruence|]. rewrite Sel. reflexivity.
          -- right. left. exists t. split; [exact Ht|]. split; [exact Et|]. rewrite Hh. reflexivity.
  Qed.

  (* C11: the statuses are correct *)
  Theorem status_correct n st :
    In (n, st) (entries S) <->
      (exists f, In f src /\ fname f = n /\ In n (names ref) /\ selected incl excl f = true /\ st = status_of (out n)) \/
      (exists f, In f src /\ fname f = n /\ In n (names ref) /\ selected incl excl f = false /\ st = Filtered) \/
      (In n (names src) /\ ~ In n (names ref) /\ st = MissingReference) \/
      (~ In n (names src) /\ In n (names ref) /\ st = MissingSource).
  Proof.
    unfold S, compare. simpl. destruct (fm_src src ref NS NR) as [I1 [I2 [I3 I4]]].
    rewrite !in_app_iff. rewrite !in_map_iff.
    assert (MS : forall f, (exists p, In p (matches (find_matches src ref)) /\ fst p = f) <-> In f src /\ has (fname f) ref = true).
    { intro f. split.
      - intros [p [A B]]. subst f.
        assert (X : In (fst p) (map fst (matches (find_matches src ref)))) by (apply in_map; exact A).
        rewrite I1 in X. apply filter_In in X. exact X.
      - intros [A B]. assert (X : In f (filter (fun s => has (fname s) ref) src)) by (apply filter_In; split; assumption).
        rewrite <- I1 in X. apply in_map_iff in X. destruct X as [p [E Hp]]. exists p. tauto. }
    split.
    - intros [[p [E Hp]]|[[t [E Ht]]|[[f [E Hf]]|[p [E Hp]]]]].
      + apply filter_In in Hp. destruct Hp as [Hp Sel]. inversion E; subst.
        assert (M : In (fst p) src /\ has (fname (fst p)) ref = true) by (apply MS; exists p; tauto).
        left. exists (fst p). destruct M as [M1 M2]. apply has_In in M2. tauto.
      + inversion E; subst. rewrite I3 in Ht. apply filter_In in Ht. destruct Ht as [Ht P].
        apply negb_true_iff in P. apply has_false in P. right. right. right.
        split; [exact P|]. split; [unfold names; apply in_map; exact Ht | reflexivity].
      + inversion E; subst. rewrite I2 in Hf. apply filter_In in Hf. destruct Hf as [Hf P].
        apply negb_true_iff in P. apply has_false in P. right. right. left.
        split; [unfold names; apply in_map; exact Hf|]. tauto.
      + apply filter_In in Hp. destruct Hp as [Hp Sel]. inversion E; subst. apply negb_true_iff in Sel.
        assert (M : In (fst p) src /\ has (fname (fst p)) ref = true) by (apply MS; exists p; tauto).
        right. left. exists (fst p). destruct M as [M1 M2]. apply has_In in M2. tauto.
    - intros [[f [Hf [E [Hr [Sel Est]]]]]|[[f [Hf [E [Hr [Sel Est]]]]]|[[Hs [Hr Est]]|[Hs [Hr Est]]]]].
      + left. assert (M : exists p, In p (matches (find_matches src ref)) /\ fst p = f).
        { apply MS. split; [exact Hf|]. apply has_In. rewrite E. exact Hr. }
        destruct M as [p [Hp Ep]]. exists p. split; [subst; reflexivity|]. apply filter_In. split; [exact Hp|]. rewrite Ep. exact Sel.
      + right. right. right. assert (M : exists p, In p (matches (find_matches src ref)) /\ fst p = f).
        { apply MS. split; [exact Hf|]. apply has_In. rewrite E. exact Hr. }
        destruct M as [p [Hp Ep]]. exists p. split; [subst; reflexivity|]. apply filter_In. split; [exact Hp|]. rewrite Ep, Sel. reflexivity.
      + right. right. left. unfold names in Hs. rewrite in_map_iff in Hs. destruct Hs as [f [E Hf]].
        exists f. split; [subst; reflexivity|]. rewrite I2. apply filter_In. split; [exact Hf|].
        apply negb_true_iff. apply has_false. rewrite E. exact Hr.
      + right. left. unfold names in Hr. rewrite in_map_iff in Hr. destruct Hr as [t [E Ht]].
        exists t. split; [subst; reflexivity|]. rewrite I3. apply filter_In. split; [exact Ht|].
        apply negb_true_iff. apply has_false. rewrite E. exact Hs.
  Qed.

  (* C11: the callback fires exactly once per performed comparison *)
  Theorem callback_once :
    NoDup (trace S) /\
    (forall n, In n (trace S) <-> exists f, In f src /\ fname f = n /\ In n (names ref) /\ selected incl excl f = true) /\
    trace S = map fst (filter (fun e => match snd e with Passed | Failed | Error => true | _ => false end) (entries S)).
  Proof.
    split; [|split].
    - rewrite trace_is. apply NoDup_names_filter, NoDup_names_filter. exact NS.
    - intro n. rewrite trace_is. rewrite in_names_filter. split.
      + intros [f [Hf [E Sel]]]. apply filter_In in Hf. destruct Hf as [Hf Hh]. exists f.
        apply has_In in Hh. rewrite E in Hh. tauto.
      + intros [f [Hf [E [Hr Sel]]]]. exists f. split; [|tauto]. apply filter_In. split; [exact Hf|].
        apply has_In. rewrite E. exact Hr.
    - unfold S, compare. simpl. rewrite !filter_app. rewrite !map_app.
      set (sel := filter (fun p => selected incl excl (fst p)) (matches (find_matches src ref))).
      assert (E1 : filter (fun e : nat * fstatus => match snd e with Passed | Failed | Error => true | _ => false end)
                     (map (fun p : field * field => (fname (fst p), status_of (out (fname (fst p))))) sel)
                   = map (fun p : field * field => (fname (fst p), status_of (out (fname (fst p))))) sel).
      { induction sel as [|p l IH]; simpl; [reflexivity|]. destruct (out (fname (fst p))); simpl; rewrite IH; reflexivity. }
      rewrite E1. rewrite map_map. simpl.
      assert (E2 : forall (A : Type) (g : A -> nat) (st : fstatus) (l : list A),
                 match st with Passed | Failed | Error => false | _ => true end = true ->
                 filter (fun e : nat * fstatus => match snd e with Passed | Failed | Error => true | _ => false end)
                        (map (fun x => (g x, st)) l) = []).
      { intros A g st l Hst. induction l as [|x l IH]; simpl; [reflexivity|]. destruct st; try discriminate; exact IH. }
      rewrite (E2 _ fname MissingSource), (E2 _ fname MissingReference) by reflexivity.
      rewrite (E2 _ (fun p : field * field => fname (fst p)) Filtered) by reflexivity.
      simpl. rewrite app_nil_r. reflexivity.
  Qed.
End Comparator.

(* C11: the verdict is a pass exactly when the domains are equal and no reported comparison failed or raised *)
Theorem verdict_iff s :
  suite_bool s = true <-> dom_ok s = true /\ forall e, In e (entries s) -> snd e <> Failed /\ snd e <> Error.
Proof.
  unfold suite_bool. rewrite andb_true_iff, forallb_forall. split; intros [H1 H2]; split; try exact H1.
  - intros e He. specialize (H2 e He). destruct (snd e); simpl in H2; split; congruence.
  - intros e He. destruct (H2 e He) as [A B]. destruct (snd e); simpl; congruence.
Qed.

(* C11: a failed domain check gives an empty, failing suite and no callback *)
Theorem domain_fail_empty incl excl out src ref :
  compare false incl excl out src ref = {| dom_ok := false; entries := []; trace := [] |} /\
  suite_bool (compare false incl excl out src ref) = false.
Proof. split; reflexivity. Qed.

(* C11: outcomes (hence values) of fields that are not compared cannot influence anything *)
Theorem filtered_irrelevant d incl excl out1 out2 src ref :
  NoDup (names src) -> NoDup (names ref) ->
  (forall f, In f src -> In (fname f) (names ref) -> selected incl excl f = true -> out1 (fname f) = out2 (fname f)) ->
  compare d incl excl out1 src ref = compare d incl excl out2 src ref.
Proof.
  intros NS NR H. unfold compare. destruct d; simpl; [|reflexivity]. f_equal. f_equal.
  apply map_ext_in. intros p Hp. apply filter_In in Hp. destruct Hp as [Hp Sel].
  destruct (fm_src src ref NS NR) as [I1 [_ [_ I4]]].
  assert (Hs : In (fst p) (filter (fun s => has (fname s) ref) src)) by (rewrite <- I1; apply in_map; exact Hp).
  apply filter_In in Hs. destruct Hs as [Hs Hh]. apply has_In in Hh.
  rewrite (H (fst p) Hs Hh Sel). reflexivity.
Qed.
