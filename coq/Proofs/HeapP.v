(* Proofs/HeapP.v — soundness of the static check: a safe program leaves every location that existed before it ran
   unchanged (it writes only into arrays it allocated itself). *)
From Coq Require Import ZArith Arith Bool List Lia.
From FC Require Import Model.Heap.
Import ListNotations.

Lemma update_loc_other s loc f l : l <> loc -> nth l (update_loc s loc f) [] = nth l s [].
Proof.
  revert loc l. induction s as [|a r IH]; intros loc l H; simpl; [destruct loc; reflexivity|].
  destruct loc as [|loc]; destruct l as [|l]; simpl; try reflexivity; try congruence.
  apply IH. congruence.
Qed.

Lemma update_loc_length s loc f : length (update_loc s loc f) = length s.
Proof. revert loc. induction s as [|a r IH]; intros [|loc]; simpl; try reflexivity; rewrite IH; reflexivity. Qed.

Lemma lookup_set_same e v l : lookup (set_var e v l) v = l.
Proof.
  unfold lookup. revert e. induction v as [|v IH]; intros [|x r]; simpl; try reflexivity; apply IH.
Qed.

Lemma lookup_set_other e v w l : v <> w -> lookup (set_var e v l) w = lookup e w.
Proof.
  unfold lookup. revert e w. induction v as [|v IH]; intros [|x r] [|w] H; simpl; try reflexivity; try congruence.
  - destruct w; reflexivity.
  - rewrite IH by congruence. destruct w; reflexivity.
  - apply IH. congruence.
Qed.

(* invariant: every variable in `fresh` holds a location >= n0 (allocated after the program started) *)
Definition fresh_ok (n0 : nat) (fresh : list var) (e : env) : Prop := forall v, In v fresh -> n0 <= lookup e v.

Lemma safe_from_sound prog : forall fresh e s n0,
  n0 <= length s -> fresh_ok n0 fresh e -> safe_from fresh prog = true ->
  forall l, l < n0 -> nth l (snd (run prog (e, s))) [] = nth l s [].
Proof.
  induction prog as [|i prog IH]; intros fresh e s n0 Hn Hf Hs l Hl; [reflexivity|].
  unfold run. simpl fold_left. fold (run prog (step (e, s) i)).
  destruct i as [dst src|dst src|v k x|v]; simpl in Hs; simpl step.
  - (* copy *)
    rewrite (IH (dst :: fresh) _ _ n0); [| rewrite app_length; lia | | exact Hs | exact Hl].
    + rewrite app_nth1 by lia. reflexivity.
    + intros w [Hw|Hw].
      * subst. rewrite lookup_set_same. exact Hn.
      * destruct (Nat.eq_dec dst w) as [E|E]; [subst; rewrite lookup_set_same; exact Hn | rewrite lookup_set_other by exact E; apply Hf; exact Hw].
  - (* alias *)
    destruct (existsb (Nat.eqb src) fresh) eqn:Ex.
    + apply existsb_exists in Ex. destruct Ex as [y [Hy Ey]]. apply Nat.eqb_eq in Ey. subst y.
      rewrite (IH (dst :: fresh) _ _ n0); [reflexivity | exact Hn | | exact Hs | exact Hl].
      intros w [Hw|Hw].
      * subst. rewrite lookup_set_same. apply Hf. exact Hy.
      * destruct (Nat.eq_dec dst w) as [E|E]; [subst; rewrite lookup_set_same; apply Hf; exact Hy | rewrite lookup_set_other by exact E; apply Hf; exact Hw].
    + rewrite (IH (filter (fun v => negb (v =? dst)) fresh) _ _ n0); [reflexivity | exact Hn | | exact Hs | exact Hl].
      intros w Hw. apply filter_In in Hw. destruct Hw as [Hw Hne]. apply negb_true_iff in Hne. apply Nat.eqb_neq in Hne.
      rewrite lookup_set_other by congruence. apply Hf. exact Hw.
  - (* write *)
    apply andb_true_iff in Hs. destruct Hs as [Hv Hs].
    apply existsb_exists in Hv. destruct Hv as [y [Hy Ey]]. apply Nat.eqb_eq in Ey. subst y.
    rewrite (IH fresh _ _ n0); [| rewrite update_loc_length; exact Hn | exact Hf | exact Hs | exact Hl].
    apply update_loc_other. specialize (Hf v Hy). lia.
  - (* read *)
    apply (IH fresh e s n0); assumption.
Qed.

(* C19: a program accepted by the static check never modifies an array that existed before it ran — in particular none of
   the arrays it was given — whatever the initial store and variable binding *)
Theorem safe_sound prog e s :
  safe prog = true -> forall l, l < length s -> nth l (snd (run prog (e, s))) [] = nth l s [].
Proof.
  intros H l Hl. apply (safe_from_sound prog [] e s (length s)); [lia | intros v Hv; contradiction | exact H | exact Hl].
Qed.
